"""Validate MANIFEST.json and evidence files against the schemas (developer tool)."""
import glob, json, sys
sys.path.append('/verif/.overlay')
import jsonschema
m = json.load(open('/verif/MANIFEST.json'))
jsonschema.validate(m, json.load(open('/root/.vp/MANIFEST.schema.json')))
print('manifest valid:', len(m['checks']), 'checks,', len(m.get('not_applicable', [])), 'not applicable')
es = json.load(open('/root/.vp/EVIDENCE.schema.json'))
for f in sorted(glob.glob('/verif/evidence/*.json')):
    ev = json.load(open(f))
    try:
        jsonschema.validate(ev, es); print('ok ', f, ev['level'], ev['tier'], ev['wall_s'])
    except jsonschema.ValidationError as e:
        print('BAD', f, e.message[:200])
