#!/bin/bash
# Offline set-up: install the solver / contract libraries from the local wheelhouse into an
# overlay directory used by /venv/bin/python (appended to sys.path by vf/cli.py).
set -e
cd "$(dirname "$0")"
if [ ! -f .overlay/.ok ]; then
  rm -rf .overlay
  mkdir -p .overlay
  PIP_NO_INDEX=1 /venv/bin/python -m pip install -q --no-index --find-links /opt/veriftools/wheels \
      --target .overlay z3-solver icontract deal crosshair-tool jsonschema
  touch .overlay/.ok
fi
mkdir -p evidence replays
PYTHONPATH= /venv/bin/python -c "import sys; sys.path.append('.overlay'); import z3; print('z3', z3.get_version_string())"
