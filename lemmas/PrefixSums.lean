/-
L4 (used by vf/contracts/layers.py: MoreLayer, and by the prefix-sum arguments of the repartition contracts).

For S 0 = 0, S (i+1) = S i + x i over the naturals:
  * S is monotone;
  * every m < S n lies in some block [S i, S (i+1)) with i < n   (existence: "cover");
  * the block is unique ("disjoint"; blocks of width 0 are empty), and S is strictly increasing if every x i ≥ 1.
The z3 obligations ASSUME these three facts for an uninterpreted S constrained by the same recurrence
(integers restricted to 0 ≤ i ≤ n); this file is their machine-checked proof.
-/

def S (x : Nat → Nat) : Nat → Nat
  | 0 => 0
  | (i + 1) => S x i + x i

theorem S_mono (x : Nat → Nat) {a b : Nat} (h : a ≤ b) : S x a ≤ S x b := by
  induction b with
  | zero =>
    have : a = 0 := by omega
    subst this; exact Nat.le_refl _
  | succ k ih =>
    rcases Nat.eq_or_lt_of_le h with h' | h'
    · subst h'; exact Nat.le_refl _
    · have : a ≤ k := by omega
      have := ih this
      simp only [S]; omega

theorem S_cover (x : Nat → Nat) (n m : Nat) (hm : m < S x n) :
    ∃ i, i < n ∧ S x i ≤ m ∧ m < S x (i + 1) := by
  induction n with
  | zero => simp [S] at hm
  | succ k ih =>
    by_cases h : m < S x k
    · obtain ⟨i, hi, h1, h2⟩ := ih h
      exact ⟨i, by omega, h1, h2⟩
    · exact ⟨k, by omega, by omega, hm⟩

theorem S_strict (x : Nat → Nat) (n : Nat) (hx : ∀ i, i < n → 1 ≤ x i) {a b : Nat} (hab : a < b) (hb : b ≤ n) :
    S x a < S x b := by
  have h1 : S x (a + 1) ≤ S x b := S_mono x (by omega)
  have h2 : 1 ≤ x a := hx a (by omega)
  simp only [S] at h1; omega

theorem S_disjoint (x : Nat → Nat) (m i j : Nat)
    (h1 : S x i ≤ m) (h2 : m < S x (i + 1)) (h3 : S x j ≤ m) (h4 : m < S x (j + 1)) : i = j := by
  rcases Nat.lt_trichotomy i j with h | h | h
  · have := S_mono x (show i + 1 ≤ j by omega); omega
  · exact h
  · have := S_mono x (show j + 1 ≤ i by omega); omega
