#!/venv/bin/python
"""Regenerate the generated tables of DESIGN.md (between <!-- GEN:x --> markers) from known_findings.json and seeded/."""
import json, os, re

V = os.path.dirname(os.path.dirname(os.path.abspath(__file__)))
d = json.load(open(os.path.join(V, "known_findings.json")))


def cut(t, n):
    t = " ".join(str(t).split()).replace("|", "/")
    return t if len(t) <= n else t[: n - 3] + "..."


fixed = ["| commit | property (also seen by) | what failed |", "|---|---|---|"]
for f in d["fixed"]:
    what = f["line"].split(" ", 3)[3]
    also = (" (" + ", ".join(f["also_observed_by"]) + ")") if f.get("also_observed_by") else ""
    fixed.append(f"| `{f['commit']}` {f['subject'][5:]} | {f['property']}{also} | {cut(what, 330)} |")
openk = ["| id | what fails |", "|---|---|"]
for f in d["findings"]:
    openk.append(f"| {f['id']} | {cut(f['what'], 320)} |")

matrix = []
mp = os.path.join(V, "seeded", "MATRIX.json")
if os.path.exists(mp):
    m = json.load(open(mp))
    matrix = ["| seed | change (file: function) | own check | caught by (exit 1) | reporting contracts of the own check | tier P alone |", "|---|---|---|---|---|---|"]
    for sid in sorted(m):
        sd = os.path.join(V, "seeded", sid)
        meta = json.load(open(os.path.join(sd, "meta.json"))) if os.path.exists(os.path.join(sd, "meta.json")) else {}
        det = json.load(open(os.path.join(sd, "detected.json"))) if os.path.exists(os.path.join(sd, "detected.json")) else {}
        own = sid.split("_")[0]
        oc = det.get("checks", {}).get(own, {})
        contracts = "; ".join(c.split(":", 1)[0] + ":" + c.split(":", 1)[1][:40] if ":" in c else c for c in oc.get("contracts", [])[:3])
        title = cut(re.sub(r"^Seeded change \d+ \(C\d+\)\s*[-:–]*\s*", "", meta.get("title", "")), 90)
        where = ", ".join(os.path.basename(f) for f in meta.get("files", [])) + ": " + "; ".join(h.replace("class ", "").replace("def ", "").split("(")[0] for h in meta.get("hunks_in", [])[:2])
        pal = "yes" if m[sid].get("tier_P_alone") else "-"
        exit_ = oc.get("exit", "?")
        matrix.append(f"| {sid} | {cut(where, 60)} — {title} | exit {exit_} | {', '.join(m[sid].get('caught_by', [])) or '**none**'} | {cut(contracts, 150)} | {pal} |")
    n = len(m)
    caught = sum(1 for v in m.values() if v.get("own_check_exit") == 1)
    matrix.append("")
    matrix.append(f"{caught} of {n} seeded changes are reported (exit 1, VIOLATION line) by the quick check of their own property; tier P alone (`./check spec:all`) reports {sum(1 for v in m.values() if v.get('tier_P_alone'))}.")

s = open(os.path.join(V, "DESIGN.md")).read()
for tag, lines in (("fixed", fixed), ("open", openk), ("matrix", matrix)):
    s = re.sub(rf"<!-- GEN:{tag} -->.*?<!-- /GEN:{tag} -->", f"<!-- GEN:{tag} -->\n" + "\n".join(lines) + f"\n<!-- /GEN:{tag} -->", s, flags=re.S)
open(os.path.join(V, "DESIGN.md"), "w").write(s)
print("regenerated", len(fixed) - 2, "fixed,", len(openk) - 2, "open,", max(0, len(matrix) - 4), "matrix rows")
