#!/bin/bash
# usage: tools/try_seed.sh <seed dir> <prop> [<prop> ...]   -- apply a seeded patch to /repo, run checks, undo
d="$(cd "$1" && pwd)"; shift
cd /repo || exit 9
git diff --quiet || { echo "/repo not clean"; exit 9; }
git apply "$d/patch.diff" || { echo "patch failed"; exit 9; }
trap 'git -C /repo checkout -- . ' EXIT
for p in "$@"; do
  echo "### $p on $(basename $d)"
  ( cd /verif && ./check "$p" --tier "${TIER:-quick}" 2>&1 | grep -E "^VIOLATION|^\[C|contract:|^UNDECIDED|^CHECKER" | head -${LINES_MAX:-12} )
  echo "exit=$?"
done
