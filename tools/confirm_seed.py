#!/venv/bin/python
"""Confirm a seeded change: demo passes on pristine HEAD, fails with the patch; baseline-stable tests still pass.
usage: confirm_seed.py <dir with patch.diff + demo.py> [--no-suite]"""
import json, os, shutil, subprocess, sys, tempfile, xml.etree.ElementTree as ET

d = os.path.abspath(sys.argv[1])
suite = "--no-suite" not in sys.argv
wt = tempfile.mkdtemp(prefix="seedwt_", dir="/tmp")
os.rmdir(wt)
def sh(cmd, **kw):
    return subprocess.run(cmd, shell=True, capture_output=True, text=True, **kw)
res = {"dir": d}
try:
    r = sh(f"git -C /repo worktree add -q --detach {wt} HEAD"); assert r.returncode == 0, r.stderr
    env = dict(os.environ, PYTHONPATH=wt, PYTHONDONTWRITEBYTECODE="1")
    r = subprocess.run(["/venv/bin/python", os.path.join(d, "demo.py")], cwd=wt, env=env, capture_output=True, text=True, timeout=900)
    res["demo_pristine_exit"] = r.returncode
    res["demo_pristine_tail"] = (r.stdout + r.stderr)[-300:]
    r = sh(f"git -C {wt} apply {d}/patch.diff"); assert r.returncode == 0, "patch does not apply: " + r.stderr
    r = subprocess.run(["/venv/bin/python", os.path.join(d, "demo.py")], cwd=wt, env=env, capture_output=True, text=True, timeout=900)
    res["demo_patched_exit"] = r.returncode
    res["demo_patched_tail"] = (r.stdout + r.stderr)[-400:]
    if suite:
        jx = wt + "_junit.xml"
        r = subprocess.run(f"/venv/bin/python -m pytest -q -p no:cacheprovider --timeout=900 --continue-on-collection-errors -n 8 --junitxml={jx} dask_expr > /dev/null 2>&1", shell=True, cwd=wt, env=env)
        stable = set(json.load(open('/root/.vp/BASELINE.json'))['stable_pass'])
        got = {}
        for tc in ET.parse(jx).iter('testcase'):
            bad = [c.tag for c in tc if c.tag in ('failure', 'error', 'skipped')]
            got[f"{tc.get('classname')}::{tc.get('name')}"] = bad[0] if bad else 'pass'
        broken = sorted(s for s in stable if got.get(s) != 'pass')
        res["suite_stable_broken"] = len(broken); res["suite_broken_examples"] = broken[:5]
        os.unlink(jx)
    res["confirmed"] = res["demo_pristine_exit"] == 0 and res["demo_patched_exit"] != 0 and (not suite or res["suite_stable_broken"] == 0)
finally:
    sh(f"git -C /repo worktree remove --force {wt}")
    shutil.rmtree(wt, ignore_errors=True)
print(json.dumps(res, indent=1))
