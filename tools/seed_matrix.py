#!/venv/bin/python
"""Run the registered checks against every seeded change and record what each check reports.

For each /verif/seeded/<id>/patch.diff:  git -C /repo apply  ->  ./check spec:all (tier P alone) and
./check <property> (quick tier; plus any extra properties named in EXTRA)  ->  git -C /repo checkout -- .
Evidence and replay files of these runs go to a scratch directory (never /verif/evidence).
Writes seeded/<id>/detected.json and seeded/MATRIX.json.   usage: seed_matrix.py [id ...]
"""
import json
import os
import re
import shutil
import subprocess
import sys
import tempfile
import time

VERIF = os.path.dirname(os.path.dirname(os.path.abspath(__file__)))
SEEDS = os.path.join(VERIF, "seeded")
REPO = os.environ.get("SEED_REPO", "/repo")  # a scratch worktree may be used so that two matrix runs can work side by side
MATRIX = os.environ.get("SEED_MATRIX_FILE", os.path.join(SEEDS, "MATRIX.json"))
# checks other than the seed's own property that are also run against it (cheap or closely related)
EXTRA = {
    "C02_1": ["C06", "C10"], "C06_2": ["C02"], "C10_1": ["C02", "C06"], "C09_1": ["C13"], "C09_2": ["C10", "C11"], "C11_1": ["C12"], "C12_1": ["C11"],
    "C13_1": ["C09"], "C13_2": ["C09"], "C14_1": ["C09"], "C17_1": ["C11"], "C11_2": ["C17"], "C18_1": ["C11", "C06"], "C03_1": ["C01"], "C01_2": ["C03"],
    "C04_2": ["C01"], "C19_1": ["C14"], "C07_1": ["C06"],
}


def sh(cmd, **kw):
    return subprocess.run(cmd, shell=True, capture_output=True, text=True, **kw)


def run_check(prop, scratch):
    env = dict(os.environ, VERIF_EVIDENCE_DIR=os.path.join(scratch, "ev"), VERIF_REPLAY_DIR=os.path.join(scratch, "rp"), VERIF_SEED="0", VERIF_REPO=REPO)
    t0 = time.time()
    r = subprocess.run(["./check", prop, "--tier", "quick"], cwd=VERIF, env=env, capture_output=True, text=True)
    out = r.stdout + r.stderr
    contracts = sorted(set(re.findall(r"^  contract: (.*)$", out, flags=re.M)), key=lambda c: ("::" not in c, c))
    nviol = len(re.findall(r"^VIOLATION ", out, flags=re.M))
    nofail = len(re.findall(r"^VIOLATION .* no-failing-input-found$", out, flags=re.M))
    return {"exit": r.returncode, "violation_lines": nviol, "without_failing_input": nofail, "contracts": contracts[:14], "wall_s": round(time.time() - t0, 1),
            "tail": "" if r.returncode in (0, 1) else out[-600:]}


def main():
    ids = sys.argv[1:] or sorted(d for d in os.listdir(SEEDS) if os.path.isfile(os.path.join(SEEDS, d, "patch.diff")))
    scratch = tempfile.mkdtemp(prefix="seedmatrix_")
    matrix = {}
    if os.path.exists(MATRIX):
        matrix = json.load(open(MATRIX))
    try:
        for sid in ids:
            d = os.path.join(SEEDS, sid)
            if sh(f"git -C {REPO} diff --quiet").returncode != 0:
                print(REPO, "not clean; stopping")
                return 9
            head = sh(f"git -C {REPO} rev-parse --short HEAD").stdout.strip()
            r = sh(f"git -C {REPO} apply {d}/patch.diff")
            if r.returncode != 0:
                print(sid, "patch does not apply:", r.stderr[:200])
                matrix[sid] = {"error": "patch does not apply to " + head}
                continue
            try:
                res = {"repo_head": head, "checks": {}}
                prop = sid.split("_")[0]
                if not os.environ.get("SEED_SKIP_P"):
                    p = sh("./check spec:all", cwd=VERIF, env=dict(os.environ, VERIF_EVIDENCE_DIR=os.path.join(scratch, "ev"), VERIF_REPLAY_DIR=os.path.join(scratch, "rp"), VERIF_REPO=REPO))
                    res["tier_P_alone"] = {"exit": p.returncode, "not_verified": re.findall(r"^NOT-VERIFIED (.*)$", p.stdout, flags=re.M)[:8]}
                for pr in [prop] + EXTRA.get(sid, []):
                    res["checks"][pr] = run_check(pr, scratch)
                    print(sid, pr, "exit", res["checks"][pr]["exit"], res["checks"][pr]["contracts"][:2], flush=True)
                if os.environ.get("SEED_SKIP_P"):
                    # tier P as seen by the property's own check: reporting contracts that are obligations of a function under contract
                    own = [c for c in res["checks"][prop]["contracts"] if "::" in c]
                    res["tier_P_alone"] = {"exit": None, "not_verified": own[:8], "note": "taken from the own check's tier-P obligations (spec:all not run separately)"}
            finally:
                sh(f"git -C {REPO} checkout -- .")
            json.dump(res, open(os.path.join(d, "detected.json"), "w"), indent=1)
            matrix[sid] = {"own_check_exit": res["checks"][prop]["exit"], "caught_by": sorted(k for k, v in res["checks"].items() if v["exit"] == 1), "missed_by": sorted(k for k, v in res["checks"].items() if v["exit"] == 0),
                           "tier_P_alone": bool(res["tier_P_alone"]["not_verified"])}
            json.dump(matrix, open(MATRIX, "w"), indent=1, sort_keys=True)
    finally:
        shutil.rmtree(scratch, ignore_errors=True)
        sh(f"git -C {REPO} checkout -- .")
    return 0


if __name__ == "__main__":
    sys.exit(main())
