#!/bin/bash
# usage: tools/collect_seed.sh Cxx [round]   -- copy a sub-agent's deliverables (round 2: /tmp/wt2_Cxx -> Cxx_3, Cxx_4;
# round 3: /tmp/wt3_Cxx -> Cxx_5, Cxx_6) into /verif/seeded and remove its scratch worktree
p="$1"; r="${2:-2}"; wt="/tmp/wt${r}_$p"; off=$(( (r-1)*2 ))
for k in 1 2; do
  src="$wt/_seeded/$k"; dst="/verif/seeded/${p}_$((k+off))"
  if [ -f "$src/patch.diff" ]; then mkdir -p "$dst"; cp "$src/patch.diff" "$src/demo.py" "$src/notes.md" "$dst/" 2>/dev/null; sed -i "/assert .*__file__.*startswith(\"\/tmp\/wt/d" "$dst/demo.py"; echo "collected $dst"; fi
done
git -C /repo worktree remove --force "$wt" && rm -rf "$wt" && echo "removed $wt"
