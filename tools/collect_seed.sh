#!/bin/bash
# usage: tools/collect_seed.sh Cxx   -- copy a round-2 sub-agent's deliverables into /verif/seeded and remove its scratch worktree
p="$1"; wt="/tmp/wt2_$p"
for k in 1 2; do
  src="$wt/_seeded/$k"; dst="/verif/seeded/${p}_$((k+2))"
  if [ -f "$src/patch.diff" ]; then mkdir -p "$dst"; cp "$src/patch.diff" "$src/demo.py" "$src/notes.md" "$dst/" 2>/dev/null; echo "collected $dst"; fi
done
git -C /repo worktree remove --force "$wt" && rm -rf "$wt" && echo "removed $wt"
