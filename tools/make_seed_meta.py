#!/venv/bin/python
"""Build seeded/<id>/meta.json from the sub-agent's notes.md, my confirmation run (confirm.json) and the
detection run (detected.json, written by tools/seed_matrix.py)."""
import json, os, re, sys

VERIF = os.path.dirname(os.path.dirname(os.path.abspath(__file__)))
SEEDS = os.path.join(VERIF, "seeded")


def sections(md):
    out, cur, buf = {}, "_head", []
    for ln in md.splitlines():
        m = re.match(r"^#{1,4}\s+(.*)", ln)
        if m:
            out[cur] = "\n".join(buf).strip()
            cur, buf = m.group(1).strip(), []
        else:
            buf.append(ln)
    out[cur] = "\n".join(buf).strip()
    return out


for sid in sorted(os.listdir(SEEDS)):
    d = os.path.join(SEEDS, sid)
    if not os.path.isfile(os.path.join(d, "patch.diff")):
        continue
    md = open(os.path.join(d, "notes.md")).read() if os.path.exists(os.path.join(d, "notes.md")) else ""
    sec = sections(md)
    title = next((re.sub(r"^#+\s*", "", l) for l in md.splitlines() if l.startswith("#")), sid)
    pick = lambda pat: next((v for k, v in sec.items() if re.search(pat, k, re.I) and v), "")
    patch = open(os.path.join(d, "patch.diff")).read()
    files = sorted(set(re.findall(r"^\+\+\+ b/(\S+)", patch, flags=re.M)))
    funcs = sorted(set(m.strip() for m in re.findall(r"^@@ .* @@ (.*)$", patch, flags=re.M)))
    conf = json.load(open(os.path.join(d, "confirm.json"))) if os.path.exists(os.path.join(d, "confirm.json")) else {}
    det = json.load(open(os.path.join(d, "detected.json"))) if os.path.exists(os.path.join(d, "detected.json")) else None
    meta = {
        "id": sid,
        "breaks_property": sid.split("_")[0],
        "title": title,
        "files": files,
        "hunks_in": funcs,
        "why_it_breaks": pick(r"why|break")[:1500],
        "needs_to_manifest": pick(r"manifest|needed|trigger|when")[:1500],
        "author": "fresh sub-agent given only the property text and a scratch worktree of /repo",
        "confirmed_by_me": {
            "what_ran": "tools/confirm_seed.py: demo.py on a pristine scratch worktree (must pass), then with patch.diff applied (must fail), then the pinned test suite on the patched worktree (every baseline-stable test must still pass); worktree removed afterwards",
            "demo_pristine_exit": conf.get("demo_pristine_exit"),
            "demo_patched_exit": conf.get("demo_patched_exit"),
            "demo_patched_tail": (conf.get("demo_patched_tail") or "")[-300:],
            "baseline_stable_tests_broken": conf.get("suite_stable_broken"),
            "confirmed": conf.get("confirmed"),
        },
    }
    if det is not None:
        meta["detection"] = {
            "what_ran": "tools/seed_matrix.py: git -C /repo apply patch.diff; ./check spec:all (tier P alone) and the quick check of the property (and related ones); git -C /repo checkout -- .",
            "repo_head": det.get("repo_head"),
            "tier_P_alone_not_verified": det.get("tier_P_alone", {}).get("not_verified", []),
            "checks": {k: {"exit": v["exit"], "violation_lines": v["violation_lines"], "contracts": v["contracts"][:6]} for k, v in det.get("checks", {}).items()},
        }
    json.dump(meta, open(os.path.join(d, "meta.json"), "w"), indent=1)
print("ok")
