"""Contracts for per-operator division derivation (C06): Blockwise._divisions, BroadcastJoin._divisions."""
from __future__ import annotations

import itertools

import z3

from vf.pyvc.exec import NameStr
from vf.pyvc.spec import Spec, contract_fn
from vf.pyvc.values import Obj, Opaque, fresh_bool
from vf.rt.stub import stub_frame


class BlockwiseDivisions(Spec):
    """Blockwise._divisions: the divisions of the first operand that is NOT broadcast (all such operands are
    asserted to have the same divisions); if every operand is broadcast, those of the first operand."""

    file, qualname, props = "dask_expr/_expr.py", "Blockwise._divisions", ["C06", "C02"]
    case = {"ndeps": 1}

    def cases(self):
        return [{"ndeps": n} for n in (1, 2, 3)]

    def make_inputs(self, ex, sym, fr):
        n = self.case["ndeps"]
        deps, flags, divs = [], [], []
        for k in range(n):
            d = sym.seq(f"divs{k}", kind="tuple", min_len=2)
            b = sym.bool(f"bcast{k}")
            deps.append(Obj(f"dep{k}", {"divisions": d, "_name": NameStr("", f"dep{k}")}, cls=("Expr",)))
            flags.append(b)
            divs.append(d)
        dep_list = ex.new_list(fr, __import__("vf.pyvc.values", fromlist=["Seq"]).Seq.of(deps))

        @contract_fn
        def dependencies(ex_, fr_):
            return dep_list

        @contract_fn
        def bdep(ex_, fr_, dep):
            # Blockwise._broadcast_dep (contract BroadcastDep in layers.py) abstracted to one boolean per operand
            return flags[deps.index(dep)]

        s = Obj("self", {"dependencies": dependencies, "_broadcast_dep": bdep}, cls=("Blockwise", "Expr"))
        env = {"self": s, "ndeps": n}
        for k in range(n):
            env[f"divs{k}"], env[f"bcast{k}"] = divs[k], flags[k]
        return env

    def requires(self):
        n = self.case["ndeps"]

        def aligned(c, e):
            # expressions are aligned before they are combined (are_co_aligned / MaybeAlignPartitions): all operands
            # that are not broadcast have equal divisions
            out = []
            for a, b in itertools.combinations(range(n), 2):
                out.append(c.Implies(c.And(c.Not(e[f"bcast{a}"]), c.Not(e[f"bcast{b}"])), c.eq(e[f"divs{a}"], e[f"divs{b}"])))
            return c.And(*out) if out else True

        return {"operands-co-aligned": aligned}

    def ensures(self):
        n = self.case["ndeps"]

        def reference(c, e, r):
            out = []
            none_before = True
            for k in range(n):
                cond = c.And(none_before, c.Not(e[f"bcast{k}"]))
                out.append(c.Implies(cond, c.eq(r, e[f"divs{k}"])))
                none_before = c.And(none_before, e[f"bcast{k}"])
            out.append(c.Implies(none_before, c.eq(r, e["divs0"])))
            return c.And(*out)

        return {"divisions-of-first-non-broadcast-operand": reference}

    def concrete_inputs(self):
        for n in (1, 2, 3):
            for flags in itertools.product((False, True), repeat=n):
                yield {"ndeps": n, "flags": flags}

    def concrete_env(self, inputs):
        return None

    def run_concrete(self, inputs):
        import pandas as pd

        from dask_expr._expr import Add, Expr

        self.case = {"ndeps": inputs["ndeps"]}
        series = pd.Series([], dtype="float64", name="x")
        deps = []
        for k, b in enumerate(inputs["flags"]):
            deps.append(stub_frame(divisions=(0, 1) if b else (0, 4, 8), meta=1.5 if b else series, tag=f"d{k}"))

        class _BW:
            def dependencies(s):
                return deps

            def _broadcast_dep(s, dep):
                return inputs["flags"][[k for k, d in enumerate(deps) if d is dep][0]]

        from dask_expr._expr import Blockwise

        res = Blockwise._divisions(_BW())
        env = {"ndeps": len(deps)}
        for k, d in enumerate(deps):
            env[f"divs{k}"], env[f"bcast{k}"] = tuple(d.divisions), inputs["flags"][k]
        return env, tuple(res)

    def inputs_from_model(self, model, sz, sym):
        return None


class BroadcastJoinDivisions(Spec):
    """BroadcastJoin._divisions: as many partitions as the NON-broadcast input; its divisions only when the join
    keeps that input's index (the broadcast frame is joined on its index), otherwise unknown."""

    file, qualname, props = "dask_expr/_merge.py", "BroadcastJoin._divisions", ["C06", "C10"]
    case = {"side": "left"}

    def cases(self):
        return [{"side": "left"}, {"side": "right"}]

    def make_inputs(self, ex, sym, fr):
        dl, dr = sym.seq("divs_left", kind="tuple", min_len=2), sym.seq("divs_right", kind="tuple", min_len=2)
        li, ri, cl, cr = sym.bool("left_index"), sym.bool("right_index"), sym.bool("left_on_is_index"), sym.bool("right_on_is_index")

        def frame(name, d):
            @contract_fn
            def _divisions(ex_, fr_):
                return d

            return Obj(name, {"_divisions": _divisions, "_meta": Opaque(name + "._meta")}, cls=("Expr",))

        s = Obj(
            "self",
            {"broadcast_side": self.case["side"], "left": frame("left", dl), "right": frame("right", dr), "left_index": li, "right_index": ri, "left_on": Opaque("left_on"), "right_on": Opaque("right_on")},
            cls=("BroadcastJoin", "Merge", "Expr"),
        )
        self._contains = {"left._meta": cl, "right._meta": cr}
        return {"self": s, "divs_left": dl, "divs_right": dr, "left_index": li, "right_index": ri, "left_on_is_index": cl, "right_on_is_index": cr}

    def call(self, ex, fr, name, args, kwargs):
        if name == "_contains_index_name":
            return self._contains[args[0].name]
        return NotImplemented

    def ensures(self):
        side = self.case["side"]

        def post(c, e, r):
            other = e["divs_right"] if side == "left" else e["divs_left"]
            # the index of the result is the index of the non-broadcast input iff the BROADCAST input is joined on its index
            keeps = c.Or(e["left_index"], e["left_on_is_index"]) if side == "left" else c.Or(e["right_index"], e["right_on_is_index"])
            return c.And(
                c.eq(c.len(r), c.len(other)),
                c.Implies(keeps, c.eq(r, other)),
                c.Implies(c.Not(keeps), c.forall(0, c.len(r), lambda k: c.is_none(c.at(r, k)))),
            )

        return {"npartitions-of-other-input;known-only-if-its-index-survives": post}

    def concrete_inputs(self):
        for side in ("left", "right"):
            for li, ri in itertools.product((False, True), repeat=2):
                yield {"side": side, "left_index": li, "right_index": ri}

    def concrete_env(self, inputs):
        return None

    def run_concrete(self, inputs):
        from dask_expr._merge import BroadcastJoin

        self.case = {"side": inputs["side"]}
        l, r = stub_frame(divisions=(0, 5, 9), tag="L"), stub_frame(divisions=(0, 2, 4, 6), tag="R")
        li, ri = inputs["left_index"], inputs["right_index"]
        obj = BroadcastJoin(l, r, "inner", None if li else "x", None if ri else "x", li, ri, ("_x", "_y"), False, None, inputs["side"])
        env = {"divs_left": tuple(l.divisions), "divs_right": tuple(r.divisions), "left_index": li, "right_index": ri, "left_on_is_index": False, "right_on_is_index": False}
        return env, tuple(obj._divisions())

    def inputs_from_model(self, model, sz, sym):
        return None


SPECS = [BlockwiseDivisions(), BroadcastJoinDivisions()]
