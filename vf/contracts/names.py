"""C08: contracts on every `_name` definition, checked on the working-tree AST.

Obligation per definition (name-format contract):
  every return value has the shape  <head> + "-" + _tokenize_deterministic(<args>)   (or the f-string form)
  and <args> contains *self.operands  -- i.e. EVERY operand flows into the token -- except for the
  exceptions written into the contract below (with their reason).
Lemma (z3 strings): with fixed-length tokens,  h1 + "-" + t1 == h2 + "-" + t2  =>  h1 == h2 and t1 == t2.
Assumption A4: dask.base.tokenize is deterministic and injective on the operand tuples it is given.
"""
from __future__ import annotations

import ast
import hashlib
import os
import time

import z3

REPO = os.environ.get("VERIF_REPO", "/repo")

# file, class -> exception spec
#   "all"                      : *self.operands must be among the token arguments
#   ("slice", lo, hi, extras)  : *self.operands[lo:hi] plus the named extra expressions
#   ("external", reason)       : the name is not derived from operands at all (documented)
NAME_DEFS = {
    ("dask_expr/_core.py", "Expr"): "all",
    ("dask_expr/_expr.py", "Blockwise"): "all",
    ("dask_expr/_expr.py", "MapPartitions"): "all",
    ("dask_expr/_expr.py", "Fused"): "all",
    ("dask_expr/_expr.py", "_DelayedExpr"): ("external", "the name of a wrapped Delayed object is its key (chosen by dask.delayed, unique per Delayed)"),
    ("dask_expr/_reductions.py", "TreeReduce"): "all",
    ("dask_expr/_reductions.py", "CustomReduction"): "all",
    ("dask_expr/io/io.py", "FromGraph"): "all",
    ("dask_expr/io/io.py", "FusedIO"): "all",
    ("dask_expr/io/io.py", "FusedParquetIO"): "all",
    ("dask_expr/io/io.py", "FromMap"): "all",
    ("dask_expr/io/io.py", "FromPandasDivisions"): "all",
    ("dask_expr/io/_delayed.py", "FromDelayed"): "all",
    ("dask_expr/diagnostics/_analyze.py", "Analyze"): "all",
    ("dask_expr/io/parquet.py", "ReadParquet"): ("slice", None, -1, ["self.checksum", "funcname(type(self))"], "the last operand is the dataset-info cache (not part of the query); the dataset checksum and the reader class are added"),
}


def _class_node(tree, cls):
    for n in tree.body:
        if isinstance(n, ast.ClassDef) and n.name == cls:
            return n
    raise KeyError(cls)


def _find_name_fn(cnode):
    for n in cnode.body:
        if isinstance(n, ast.FunctionDef) and n.name == "_name":
            return n
    return None


def all_name_definitions():
    """Every class in the repository that defines `_name` (so that a NEW override cannot go unnoticed)."""
    out = []
    for root, _, files in os.walk(os.path.join(REPO, "dask_expr")):
        if "tests" in root:
            continue
        for f in files:
            if not f.endswith(".py"):
                continue
            rel = os.path.relpath(os.path.join(root, f), REPO)
            tree = ast.parse(open(os.path.join(root, f)).read())
            for n in tree.body:
                if isinstance(n, ast.ClassDef) and _find_name_fn(n) is not None:
                    out.append((rel, n.name))
    return out


def _flatten_concat(e):
    """a + b + c  ->  [a, b, c];  f"{x}-{y}" -> parts"""
    if isinstance(e, ast.BinOp) and isinstance(e.op, ast.Add):
        return _flatten_concat(e.left) + _flatten_concat(e.right)
    if isinstance(e, ast.JoinedStr):
        parts = []
        for v in e.values:
            if isinstance(v, ast.Constant):
                parts.append(v)
            else:
                parts.append(v.value)
        return parts
    return [e]


def _is_token_call(e):
    return isinstance(e, ast.Call) and isinstance(e.func, ast.Name) and e.func.id == "_tokenize_deterministic"


def check_name_fn(fn, spec):
    """Returns list of (obligation, status, detail)."""
    obs = []
    rets = [n for n in ast.walk(fn) if isinstance(n, ast.Return)]
    if not rets:
        return [("post:returns-a-name", "refuted", "no return statement")]
    if isinstance(spec, tuple) and spec[0] == "external":
        return [("post:external-name", "discharged", spec[1])]
    for k, r in enumerate(rets):
        e = r.value
        if isinstance(e, ast.Attribute) and isinstance(e.value, ast.Call) and isinstance(e.value.func, ast.Name) and e.value.func.id == "super" and e.attr == "_name":
            obs.append((f"post:delegates-to-super#{k}", "discharged", "super()._name (checked under the base class)"))
            continue
        parts = _flatten_concat(e)
        tok = [p for p in parts if _is_token_call(p)]
        if len(tok) != 1 or not _is_token_call(parts[-1]):
            obs.append((f"post:shape-head-dash-token#{k}", "refuted", "return value is not <head> + '-' + _tokenize_deterministic(...): " + ast.unparse(e)[:100]))
            continue
        sep = parts[-2]
        sep_ok = isinstance(sep, ast.Constant) and isinstance(sep.value, str) and sep.value.endswith("-")
        obs.append((f"post:separator-before-token#{k}", "discharged" if sep_ok else "refuted", "" if sep_ok else "token is not preceded by a literal ending in '-': " + ast.unparse(e)[:100]))
        call = tok[0]
        starred = [ast.unparse(a.value) for a in call.args if isinstance(a, ast.Starred)]
        plain = [ast.unparse(a) for a in call.args if not isinstance(a, ast.Starred)]
        if spec == "all":
            ok = "self.operands" in starred
            obs.append((f"post:all-operands-in-token#{k}", "discharged" if ok else "refuted", "" if ok else f"token arguments are ({', '.join(ast.unparse(a) for a in call.args)}): not every operand flows into the token"))
        else:
            _, lo, hi, extras, reason = spec
            want = f"self.operands[{'' if lo is None else lo}:{'' if hi is None else hi}]"
            ok = want in starred and all(x in plain for x in extras)
            obs.append((f"post:documented-operands-in-token#{k}", "discharged" if ok else "refuted", reason if ok else f"expected *{want} and {extras}, found ({', '.join(ast.unparse(a) for a in call.args)})"))
    return obs


def name_format_lemma():
    """z3 (sequence theory): fixed-length tokens make (head, token) recoverable from head + "-" + token."""
    t0 = time.time()
    h1, h2, t1, t2 = z3.Strings("h1 h2 t1 t2")
    s = z3.Solver()
    s.set("timeout", 20000)
    s.add(z3.Length(t1) == 32, z3.Length(t2) == 32)
    s.add(z3.Concat(h1, z3.StringVal("-"), t1) == z3.Concat(h2, z3.StringVal("-"), t2))
    s.add(z3.Or(h1 != h2, t1 != t2))
    r = s.check()
    return str(r), time.time() - t0


def run_all():
    """list of obligation dicts in the aggregated format of vf.common.Run."""
    out = []
    funcs = []
    defs = all_name_definitions()
    for rel, cls in defs:
        path = os.path.join(REPO, rel)
        tree = ast.parse(open(path).read())
        fn = _find_name_fn(_class_node(tree, cls))
        digest = hashlib.sha256(ast.unparse(fn).encode()).hexdigest()[:16]
        funcs.append({"file": rel, "qualname": f"{cls}._name", "lines": [fn.lineno, fn.end_lineno], "sha256_16": digest, "dropped": ["decorators"]})
        spec = NAME_DEFS.get((rel, cls))
        base = f"{rel}::{cls}._name"
        if spec is None:
            out.append({"name": base + "#contract-exists", "status": "refuted", "backends": ["ast"], "instances": 1, "seconds": 0.0, "detail": "a _name definition without a contract: every operand must be shown to flow into the token"})
            continue
        for ob, status, detail in check_name_fn(fn, spec):
            out.append({"name": f"{base}#{ob}", "status": status, "backends": ["ast"], "instances": 1, "seconds": 0.0, "detail": detail})
    missing = [k for k in NAME_DEFS if k not in defs]
    for rel, cls in missing:
        out.append({"name": f"{rel}::{cls}._name#definition-exists", "status": "refuted", "backends": ["ast"], "instances": 1, "seconds": 0.0, "detail": "the contracted _name definition disappeared (contract must follow the code)"})
    r, dt = name_format_lemma()
    out.append({"name": "lemma:name-format#head-and-token-recoverable", "status": "discharged" if r == "unsat" else ("unknown" if r == "unknown" else "refuted"), "backends": ["z3"], "instances": 1, "seconds": dt, "detail": "" if r == "unsat" else f"z3 answered {r}"})
    return funcs, out
