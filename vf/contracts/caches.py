"""Contract for the planner's cache data structure (C15): `_util.LRU`.

Abstract view of an LRU instance: `order` - the sequence of its keys from least to most recently used, pairwise
distinct (representation invariant) - and `val`, the value stored under each key.  The two real methods are verified
against that view, with `collections.OrderedDict` / `UserDict` given their documented meaning as an ASSUMED contract
(`move_to_end(k)`: k becomes the last key; `popitem(last=False)`: the first key is removed; `d[k] = v`: value replaced in
place if k is present, appended otherwise; `len`): the exhaustive small-scope check `C15.S.LRU` runs the real class.

`__setitem__(k, v)`   requires maxsize >= 1 (every LRU of the package is LRU(10)), at most maxsize keys
                      ensures  at most maxsize keys; k is present with value v; no OTHER key's value changes and no other key appears;
                               at most the least recently used key is evicted, and only when the cache was full
`__getitem__(k)`      requires k present (every read in the package is guarded by `k in cache` or follows a store)
                      ensures  the STORED value is returned; same keys, same values; k is now the most recently used key
Cache transparency (the property) rests on exactly this: a hit returns what was stored for that very key, and eviction
only ever forgets.
"""
from __future__ import annotations

import z3

from vf.pyvc.spec import Spec, contract_fn
from vf.pyvc.values import Lab, Obj, Opaque, Seq, fresh_fun, fresh_int, zint


def _in(seq, x):
    j = fresh_int("j")
    return z3.Exists([j], z3.And(j >= 0, j < zint(seq.length), seq.get(j) == x))


def _distinct(seq):
    i, j = fresh_int("i"), fresh_int("j")
    n = zint(seq.length)
    return z3.ForAll([i, j], z3.Implies(z3.And(0 <= i, i < j, j < n), seq.get(i) != seq.get(j)))


class _LRU(Spec):
    file = "dask_expr/_util.py"
    props = ["C15"]
    assumptions = ["assumed contract of collections.OrderedDict / UserDict (move_to_end, popitem(last=False), item assignment, len) as stated in vf/contracts/caches.py; the real class is run exhaustively on small operation sequences by C15.S.LRU",
                   "typing.cast returns its second argument"]

    def state(self, fr):
        return fr.env["$order"], fr.env["$val"]

    def make_state(self, sym, fr_env):
        order = sym.seq("order", Lab)
        val = z3.Function("val", Lab, z3.IntSort())
        fr_env["$order"], fr_env["$val"] = order, (lambda k, val=val: val(k))
        self._order0, self._val0 = order, fr_env["$val"]
        spec = self

        @contract_fn
        def move_to_end(ex, fr, key):
            o, _ = spec.state(fr)
            p = fresh_int("pos")
            ex.oblige("pre:OrderedDict.move_to_end:key-present", fr, _in(o, key))
            ex.assume(fr, z3.And(p >= 0, p < zint(o.length), o.get(p) == key))
            n = o.length
            fr.env["$order"] = Seq(n, lambda k, o=o, p=p, n=n, key=key: z3.If(zint(k) < p, o.get(k), z3.If(zint(k) < zint(n) - 1, o.get(zint(k) + 1), key)))
            return None

        @contract_fn
        def popitem(ex, fr, last=True):
            o, v = spec.state(fr)
            if last is not False:
                from vf.pyvc.exec import Unsupported

                raise Unsupported("popitem(last=True) is not what an LRU may do")
            ex.oblige("pre:OrderedDict.popitem:not-empty", fr, zint(o.length) > 0)
            fr.env["$order"] = Seq(zint(o.length) - 1, lambda k, o=o: o.get(zint(k) + 1))
            return (o.get(0), v(o.get(0)))

        data = Obj("self.data", {"move_to_end": move_to_end, "popitem": popitem})

        @contract_fn
        def sup_getitem(ex, fr, key):
            o, v = spec.state(fr)
            ex.oblige("pre:UserDict.__getitem__:key-present", fr, _in(o, key))
            return v(key)

        @contract_fn
        def sup_setitem(ex, fr, key, value):
            o, v = spec.state(fr)
            present = _in(o, key)
            n = o.length
            fr.env["$order"] = Seq(z3.If(present, zint(n), zint(n) + 1), lambda k, o=o, n=n, key=key, present=present: z3.If(z3.And(z3.Not(present), zint(k) == zint(n)), key, o.get(k)))
            fr.env["$val"] = lambda k, v=v, key=key, value=value: z3.If(k == key, zint(value), v(k))
            return None

        self.globals = {"super()": Obj("super()", {"__getitem__": sup_getitem, "__setitem__": sup_setitem})}
        maxsize = sym.int("maxsize")
        return Obj("self", {"data": data, "maxsize": maxsize}, cls=("LRU",)), maxsize

    def call(self, ex, fr, name, args, kwargs):
        if name == "cast":
            return args[1]
        return NotImplemented

    def len_hook(self, ex, fr, a):
        if isinstance(a, Obj) and a.name == "self":
            return self.state(fr)[0].length
        from vf.pyvc.exec import Unsupported

        raise Unsupported(f"len of {a!r}")

    def concrete_inputs(self):
        return []


class LRUSetItem(_LRU):
    qualname = "LRU.__setitem__"
    sizes = {"order": range(0, 4)}

    def make_inputs(self, ex, sym, fr):
        env = {}
        me, maxsize = self.make_state(sym, env)
        env.update({"self": me, "key": z3.Const("key", Lab), "value": sym.int("value"), "maxsize": maxsize})
        return env

    def requires(self):
        return {"maxsize-at-least-one": lambda c, e: e["maxsize"] >= 1,
                "at-most-maxsize-keys": lambda c, e: zint(e["$order"].length) <= e["maxsize"],
                "keys-are-distinct": lambda c, e: _distinct(e["$order"])}

    def ensures(self):
        def st(c):
            return c.fr.env["$order"], c.fr.env["$val"]

        def bound(c, e, r):
            return zint(st(c)[0].length) <= e["maxsize"]

        def ryw(c, e, r):
            o, v = st(c)
            return z3.And(_in(o, e["key"]), v(e["key"]) == e["value"])

        def frame(c, e, r):
            o, v = st(c)
            x = z3.Const("other_key", Lab)
            return z3.ForAll([x], z3.Implies(z3.And(x != e["key"], _in(o, x)), z3.And(_in(self._order0, x), v(x) == self._val0(x))))

        def evict(c, e, r):
            o, v = st(c)
            o0 = self._order0
            x = z3.Const("old_key", Lab)
            full = zint(o0.length) >= e["maxsize"]
            return z3.ForAll([x], z3.Implies(z3.And(_in(o0, x), z3.Not(_in(o, x))), z3.And(full, x == o0.get(0))))

        def distinct(c, e, r):
            return _distinct(st(c)[0])

        return {"size-bound": bound, "read-your-write": ryw, "no-other-key-changes-or-appears": frame,
                "only-the-least-recently-used-key-is-evicted-and-only-when-full": evict, "keys-stay-distinct": distinct}


class LRUGetItem(_LRU):
    qualname = "LRU.__getitem__"
    sizes = {"order": range(0, 4)}

    def make_inputs(self, ex, sym, fr):
        env = {}
        me, maxsize = self.make_state(sym, env)
        env.update({"self": me, "key": z3.Const("key", Lab), "maxsize": maxsize})
        return env

    def requires(self):
        return {"key-present": lambda c, e: _in(e["$order"], e["key"]), "keys-are-distinct": lambda c, e: _distinct(e["$order"])}

    def ensures(self):
        def st(c):
            return c.fr.env["$order"], c.fr.env["$val"]

        def stored(c, e, r):
            return r == self._val0(e["key"])

        def same(c, e, r):
            o, v = st(c)
            x = z3.Const("any_key", Lab)
            return z3.And(zint(o.length) == zint(self._order0.length), z3.ForAll([x], z3.And(_in(o, x) == _in(self._order0, x), v(x) == self._val0(x))))

        def mru(c, e, r):
            o, _ = st(c)
            return o.get(zint(o.length) - 1) == e["key"]

        def distinct(c, e, r):
            return _distinct(st(c)[0])

        return {"returns-the-stored-value": stored, "same-keys-same-values": same, "key-becomes-most-recently-used": mru, "keys-stay-distinct": distinct}


SPECS = [LRUSetItem(), LRUGetItem()]


# ---------------------------------------------------------------------------------------------------------------------
# get-or-compute functions over a process-global cache: the KEY must determine the VALUE
# ---------------------------------------------------------------------------------------------------------------------
class _GetOrCompute(Spec):
    """`if key in cache: return cache[key]; result = compute(args); cache[key] = result; return result`.

    The cache's content is history: every entry was stored by an EARLIER call of this same function with some arguments
    args' - under the key this body builds from args' - and holds compute(args').  A hit therefore returns compute(args')
    for some args' with key(args') == key(args).  The contract: whatever the history, the result is compute(args) -
    i.e. the key is complete (no argument that influences the value is missing from it) - and what is stored under the
    key is compute(args), which re-establishes the invariant for later calls.  key(args') is obtained from the key
    term the real body builds, by renaming the argument symbols."""

    props = ["C15", "C16"]
    cache_name = None
    assumptions = ["the cache holds only entries written by this function (no other writer in the package: checked syntactically by the contract's writer scan)",
                   "compute (the quantile / memory-usage computation on the data) is a deterministic function of its arguments (pandas / dask: trusted)"]

    def contains(self, ex, fr, container, x):
        if isinstance(container, Opaque) and container.name == self.cache_name:
            self._key = x
            return z3.Bool("cache_hit")
        return NotImplemented

    def subscript(self, ex, fr, base, idx):
        if isinstance(base, Opaque) and base.name == self.cache_name:
            ren = list(zip(self._args, self._args_prime))
            key = idx if isinstance(idx, tuple) else (idx,)
            for comp in key:
                if not z3.is_expr(comp):
                    from vf.pyvc.exec import Unsupported

                    raise Unsupported(f"cache key component {comp!r} is not a term over the arguments")
                ex.assume(fr, z3.substitute(comp, *ren) == comp)  # the entry was stored under an equal key ...
            ex.assume(fr, z3.substitute(self._pre, *ren))  # ... by a call that satisfied the precondition ...
            return z3.substitute(self._value, *ren)  # ... and holds compute(args')
        return NotImplemented

    def store(self, ex, fr, base, idx, val):
        if isinstance(base, Opaque) and base.name == self.cache_name:
            ex.oblige("post:stored-value-is-compute-of-the-arguments", fr, (val == self._value) if z3.is_expr(val) else False)
            ex.oblige("post:stored-under-the-key-that-is-looked-up", fr, ex.equal(idx, self._key, fr))
            return None
        return NotImplemented

    def ensures(self):
        return {"result-is-compute-of-the-arguments-whatever-the-cache-holds": lambda c, e, r: (r == self._value) if c.symbolic else True}

    def concrete_inputs(self):
        return []

    def other_writers(self, repo=None):
        """Functions of the package, other than the one under contract, that store into the cache (syntactic scan)."""
        import ast
        import os

        from vf.pyvc.spec import REPO

        out = []
        tree = ast.parse(open(os.path.join(repo or REPO, self.file)).read())
        for fn in ast.walk(tree):
            if isinstance(fn, ast.FunctionDef) and fn.name != self.qualname.split(".")[-1]:
                for n in ast.walk(fn):
                    if isinstance(n, ast.Subscript) and isinstance(n.ctx, ast.Store) and isinstance(n.value, ast.Name) and n.value.id == self.cache_name:
                        out.append(fn.name)
        return out


class GetDivisions(_GetOrCompute):
    file, qualname, cache_name = "dask_expr/_shuffle.py", "_get_divisions", "divisions_lru"
    assumptions = _GetOrCompute.assumptions + ["_calculate_divisions reads `frame` only through frame.npartitions (and for an error message); precondition taken from the call sites (SetIndex / SortValues and their lowered forms): `other` is a series with the partitioning of `frame` (a column or the index of it, or a series aligned with it), so frame.npartitions is determined by `other`"]

    def make_inputs(self, ex, sym, fr):
        nf, o = sym.int("frame_npartitions"), z3.Const("other_name", Lab)
        n, a = sym.int("npartitions"), sym.bool("ascending")
        ps, up = z3.Real("partition_size"), z3.Real("upsample")
        self._args = [nf, o, n, a, ps, up]
        self._args_prime = [z3.Int("frame_npartitions'"), z3.Const("other_name'", Lab), z3.Int("npartitions'"), z3.Bool("ascending'"), z3.Real("partition_size'"), z3.Real("upsample'")]
        nparts_of = z3.Function("npartitions_of", Lab, z3.IntSort())
        self._pre = nparts_of(o) == nf
        calc = z3.Function("_calculate_divisions", z3.IntSort(), Lab, z3.IntSort(), z3.BoolSort(), z3.RealSort(), z3.RealSort(), z3.IntSort())
        self._value = calc(*self._args)
        self._calc = calc
        return {"frame": Obj("frame", {"_name": z3.Const("frame_name", Lab), "npartitions": nf}, cls=("Expr",)), "other": Obj("other", {"_name": o}, cls=("Expr",)), "npartitions": n, "ascending": a, "partition_size": ps, "upsample": up}

    def requires(self):
        return {"other-has-the-partitioning-of-frame": lambda c, e: self._pre}

    def call(self, ex, fr, name, args, kwargs):
        if name == "_calculate_divisions" and len(args) == 6 and not kwargs:
            return self._calc(args[0].attrs["npartitions"], args[1].attrs["_name"], *args[2:])
        return NotImplemented


class GetMemUsages(_GetOrCompute):
    file, qualname, cache_name = "dask_expr/_repartition.py", "_get_mem_usages", "mem_usages_lru"

    def make_inputs(self, ex, sym, fr):
        f = z3.Const("frame_name", Lab)
        self._args, self._args_prime = [f], [z3.Const("frame_name'", Lab)]
        self._pre = z3.BoolVal(True)
        self._calc = z3.Function("_compute_mem_usages", Lab, z3.IntSort())
        self._value = self._calc(f)
        return {"frame": Obj("frame", {"_name": f}, cls=("Expr",))}

    def call(self, ex, fr, name, args, kwargs):
        if name == "_compute_mem_usages" and len(args) == 1:
            return self._calc(args[0].attrs["_name"])
        return NotImplemented


SPECS += [GetDivisions(), GetMemUsages()]
