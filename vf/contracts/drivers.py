"""Contracts for the optimizer's DRIVERS (C01, C19, C14): the loops and the stage pipeline that apply rewrite passes.

What a driver guarantees by itself, whatever the rules do, provided every PASS it calls keeps its own contract:

* `Expr.simplify`        returns a fixed point of `simplify_once` (or raises) and denotes what `self` denotes;
* `Expr.lower_completely` returns a fixed point of `lower_once` and denotes what `self` denotes;
* `optimize_until`       denotes what its input denotes at every stage; from stage "physical" on the result is fully
                         lowered; blockwise fusion is only ever applied to a fully lowered plan.

Object model (hand-written, abstracts the CALLEES, not the drivers): an expression is an abstract identity `e`;
`NAME(e)` is its `_name`, `DEN(e)` its denotation (the frame obtained by executing it unoptimized), both uninterpreted;
`simplify_once`, `lower_once`, `rewrite(kind="tune")`, `optimize_blockwise_fusion` are uninterpreted functions of the
expression they are called on, each ASSUMED to preserve `DEN` (their contract; evaluated at run time by the C01 rule and
stage contracts over the corpus, never proved here).  `LOWERED(e)` abbreviates `NAME(lower_once(e)) == NAME(e)`.
The verified text is the real loop / pipeline: exit conditions, what is returned, the order of the stages.
"""
from __future__ import annotations

import z3

from vf.pyvc.spec import Spec, contract_fn
from vf.pyvc.values import Obj, Opaque, SetVal, fresh_int

E = z3.IntSort()
NAME = z3.Function("NAME", E, z3.IntSort())
DEN = z3.Function("DEN", E, z3.IntSort())
SO = z3.Function("simplify_once", E, E)
LO = z3.Function("lower_once", E, E)
SIMP = z3.Function("simplify", E, E)
LOWC = z3.Function("lower_completely", E, E)
TUNE = z3.Function("rewrite_tune", E, E)
FUSE = z3.Function("optimize_blockwise_fusion", E, E)

PASS_ASSUMPTION = "assumed contract of the passes: simplify_once / lower_once / rewrite(kind='tune') / optimize_blockwise_fusion preserve the denotation of the expression they are applied to (bounded run-time contract C01.rule / C01.stage); they are deterministic functions of that expression"


def lowered(e):
    return NAME(LO(e)) == NAME(e)


def mk_expr(e, spec):
    """Object model of an expression with identity `e`: the attributes and passes the drivers use."""

    @contract_fn
    def simplify_once(ex, fr, dependents=None, simplified=None):
        ex.assume(fr, DEN(SO(e)) == DEN(e))
        return mk_expr(SO(e), spec)

    @contract_fn
    def lower_once(ex, fr):
        ex.assume(fr, DEN(LO(e)) == DEN(e))
        return mk_expr(LO(e), spec)

    @contract_fn
    def simplify(ex, fr):
        # contract of Expr.simplify (proved by SimplifyDriver): fixed point of simplify_once, same denotation
        ex.assume(fr, z3.And(DEN(SIMP(e)) == DEN(e), NAME(SO(SIMP(e))) == NAME(SIMP(e))))
        return mk_expr(SIMP(e), spec)

    @contract_fn
    def lower_completely(ex, fr):
        # contract of Expr.lower_completely (proved by LowerCompletelyDriver)
        ex.assume(fr, z3.And(DEN(LOWC(e)) == DEN(e), lowered(LOWC(e))))
        return mk_expr(LOWC(e), spec)

    @contract_fn
    def rewrite(ex, fr, kind=None):
        if kind != "tune":
            from vf.pyvc.exec import Unsupported

            raise Unsupported(f"rewrite(kind={kind!r}) has no contract here")
        ex.assume(fr, DEN(TUNE(e)) == DEN(e))
        return mk_expr(TUNE(e), spec)

    return Obj(f"expr<{e}>", {"eid": e, "_name": NAME(e), "simplify_once": simplify_once, "lower_once": lower_once, "simplify": simplify,
                              "lower_completely": lower_completely, "rewrite": rewrite}, cls=("Expr",))


class _Driver(Spec):
    assumptions = [PASS_ASSUMPTION, "partial correctness: termination of the loop is not proved (C19 claims no unbounded termination result)"]

    def havoc(self, ex, fr, name, old):
        if isinstance(old, Obj) and "eid" in old.attrs:
            return mk_expr(fresh_int(name), self)
        if isinstance(old, SetVal):
            f = z3.Function(f"{name}_member_{fresh_int('s')}", z3.IntSort(), z3.BoolSort())
            return SetVal(lambda x, f=f: f(x))
        return NotImplemented

    def call(self, ex, fr, name, args, kwargs):
        if name == "collect_dependents":
            return Opaque("dependents")
        return NotImplemented

    def concrete_env(self, inputs):
        return None

    def _programs(self):
        import pandas as pd

        import dask_expr as dx

        pdf = pd.DataFrame({"a": [1, 2, 3, 4, 5, 6, 7, 8], "b": [1.0, None, 3.0, 4.0, 5.0, 6.0, 7.0, 8.0], "u": range(8)})
        df = dx.from_pandas(pdf, npartitions=3)
        return {
            "proj_filter": lambda: df[df.a > 2][["a", "b"]],
            "assign_sum": lambda: df.assign(z=df.a + df.u).z.sum(),
            "groupby": lambda: df.groupby("a").u.sum(),
            "merge_head": lambda: df.merge(df, on="a")[["u_x"]].head(3, compute=False),
            "sort_tail": lambda: (df.sort_values("u") + 1).tail(2, compute=False),
            "repart": lambda: df.repartition(npartitions=5).b.cumsum(),
        }

    def concrete_inputs(self):
        return [{"program": k} for k in self._programs()]


class SimplifyDriver(_Driver):
    file, qualname, props = "dask_expr/_core.py", "Expr.simplify", ["C19", "C01"]

    def make_inputs(self, ex, sym, fr):
        e0 = sym.int("self_id")
        return {"self": mk_expr(e0, self), "e0": e0}

    @property
    def invariants(self):
        return {0: lambda c, env: DEN(env["expr"].attrs["eid"]) == DEN(env["self"].attrs["eid"]) if c.symbolic else True}

    def may_raise(self, c, env, exc):
        # the driver may give up with RuntimeError("Optimizer does not converge") - it never returns a non-fixed point
        return exc == "RuntimeError"

    def ensures(self):
        def fixed_point(c, env, r):
            if c.symbolic:
                return NAME(SO(r.attrs["eid"])) == NAME(r.attrs["eid"])
            from dask_expr._core import collect_dependents

            return r.simplify_once(dependents=collect_dependents(r), simplified={})._name == r._name

        def same_den(c, env, r):
            if c.symbolic:
                return DEN(r.attrs["eid"]) == DEN(env["e0"])
            return True  # values are compared by the C01 stage contract (tier R); nothing to evaluate here

        return {"result-is-a-fixed-point-of-simplify_once": fixed_point, "result-denotes-what-self-denotes": same_den}

    def run_concrete(self, inputs):
        q = self._programs()[inputs["program"]]().expr
        return {"self": q}, q.simplify()


class LowerCompletelyDriver(_Driver):
    file, qualname, props = "dask_expr/_core.py", "Expr.lower_completely", ["C19", "C01"]

    def make_inputs(self, ex, sym, fr):
        e0 = sym.int("self_id")
        return {"self": mk_expr(e0, self), "e0": e0}

    @property
    def invariants(self):
        return {0: lambda c, env: DEN(env["expr"].attrs["eid"]) == DEN(env["self"].attrs["eid"]) if c.symbolic else True}

    def ensures(self):
        def fixed_point(c, env, r):
            if c.symbolic:
                return lowered(r.attrs["eid"])
            return r.lower_once()._name == r._name

        def same_den(c, env, r):
            return DEN(r.attrs["eid"]) == DEN(env["e0"]) if c.symbolic else True

        return {"result-is-a-fixed-point-of-lower_once": fixed_point, "result-denotes-what-self-denotes": same_den}

    def run_concrete(self, inputs):
        q = self._programs()[inputs["program"]]().expr
        return {"self": q}, q.lower_completely()


STAGES = ("logical", "simplified-logical", "tuned-logical", "physical", "simplified-physical", "fused")


class OptimizeUntil(_Driver):
    """The stage pipeline.  Callee contracts used (never their bodies): Expr.simplify and Expr.lower_completely as
    proved above, rewrite(kind="tune") and optimize_blockwise_fusion as assumed passes.  optimize_blockwise_fusion
    REQUIRES a fully lowered plan: fused groups capture the names of their members' dependencies, and graph
    construction lowers whatever is still abstract afterwards - behind the groups' back (the defect repaired by
    'optimize lowers again after the second simplify pass')."""

    file, qualname, props = "dask_expr/_expr.py", "optimize_until", ["C01", "C14", "C19"]
    case = {"stage": "fused"}

    def cases(self):
        for s in STAGES:
            yield {"stage": s}

    def make_inputs(self, ex, sym, fr):
        e0 = sym.int("expr_id")
        return {"expr": mk_expr(e0, self), "stage": self.case["stage"], "e0": e0}

    def call(self, ex, fr, name, args, kwargs):
        if name == "optimize_blockwise_fusion":
            (x,) = args
            e = x.attrs["eid"]
            ex.oblige("pre:optimize_blockwise_fusion:plan-is-fully-lowered", fr, lowered(e))
            ex.assume(fr, DEN(FUSE(e)) == DEN(e))
            return mk_expr(FUSE(e), self)
        return super().call(ex, fr, name, args, kwargs)

    def may_raise(self, c, env, exc):
        return exc == "ValueError" and self.case["stage"] not in STAGES

    def ensures(self):
        stage = self.case["stage"]

        def same_den(c, env, r):
            return DEN(r.attrs["eid"]) == DEN(env["e0"]) if c.symbolic else True

        def is_lowered(c, env, r):
            if stage not in ("physical", "simplified-physical"):
                return True
            if c.symbolic:
                return lowered(r.attrs["eid"])
            return r.lower_once()._name == r._name

        def logical_untouched(c, env, r):
            if stage != "logical":
                return True
            return r is env["expr"]

        def known_stage(c, env, r):
            return stage in STAGES

        return {"result-denotes-what-the-input-denotes": same_den, "physical-stages-return-fully-lowered-plans": is_lowered,
                "logical-stage-returns-the-input": logical_untouched, "only-known-stages-return": known_stage}

    def concrete_inputs(self):
        return [{"program": k, "stage": s} for k in self._programs() for s in STAGES]

    def run_concrete(self, inputs):
        from dask_expr._expr import optimize_until

        self.case = {"stage": inputs["stage"]}
        q = self._programs()[inputs["program"]]().expr
        return {"expr": q}, optimize_until(q, inputs["stage"])


SPECS = [SimplifyDriver(), LowerCompletelyDriver(), OptimizeUntil()]
