"""Contracts for the statistics -> divisions kernels of dask_expr/io/parquet.py (C18, C06)."""
from __future__ import annotations

import itertools

import z3

from vf.pyvc.spec import Spec
from vf.pyvc.values import Opaque, Seq, fresh_fun, zint

F = "dask_expr/io/parquet.py"


class DivisionsFromStatistics(Spec):
    """_divisions_from_statistics, the deciding loop (`for file_min, file_max in sorted_minmax:` to the end): given the
    (min, max) index statistics of the files in sorted order, either the divisions are reported unknown, or they are
    min_0, min_1, ..., min_{n-1}, max_{n-1} AND no two files share an index value (max_k < min_{k+1}), so that every
    file's rows lie inside its own half-open range.  Known divisions are reported whenever the ranges are separated."""

    file, qualname, props = F, "_divisions_from_statistics", ["C18", "C06"]
    scenario = "decide-from-sorted-statistics"
    body_from = "for file_min, file_max in sorted_minmax"
    assumptions = [
        "statement slice: the extraction of (min, max) pairs from the statistics dicts and the pandas argsort before the loop are outside tier P; the entry state is abstract: sorted_minmax = any sequence of n >= 1 pairs with min <= max, last_max = None, divisions = []",
        "index statistics are modelled as integers (a total order is all the loop uses)",
    ]

    def make_inputs(self, ex, sym, fr):
        n = sym.int("n")
        mn = fresh_fun("mn", z3.IntSort(), z3.IntSort())
        mx = fresh_fun("mx", z3.IntSort(), z3.IntSort())
        self._mn, self._mx = mn, mx
        pairs = Seq(n, lambda k, mn=mn, mx=mx: (mn(zint(k)), mx(zint(k))))
        stats = Seq(n, lambda k: Opaque("file-statistics"))
        return {
            "aggregated_stats": stats, "sorted_minmax": pairs, "last_max": None, "divisions": ex.new_list(fr, Seq(0, lambda k: 0)), "argsort": Opaque("argsort"), "index_name": Opaque("index_name"),
            "n": n, "_mn": lambda k, mn=mn: mn(zint(k)), "_mx": lambda k, mx=mx: mx(zint(k)),
        }

    def requires(self):
        return {
            "n>=1": lambda c, e: e["n"] >= 1,
            "min<=max": lambda c, e: c.forall(0, e["n"], lambda k: e["_mn"](k) <= e["_mx"](k)),
        }

    invariants = {
        0: lambda c, e: c.And(
            c.eq(c.is_none(e["last_max"]), e["_i"] == 0) if c.symbolic else (e["last_max"] is None) == (e["_i"] == 0),
            c.Implies(e["_i"] > 0, c.Not(c.is_none(e["last_max"]))),
            c.Implies(e["_i"] > 0, c.eq(e["last_max"], e["_mx"](e["_i"] - 1))),
            c.eq(c.len(e["_acc"][0]), e["_i"]),
            c.forall(0, e["_i"], lambda k: c.eq(c.at(e["_acc"][0], k), e["_mn"](k))),
            c.forall(0, e["_i"] - 1, lambda k: e["_mx"](k) < e["_mn"](k + 1)),
        ),
    }

    def ensures(self):
        def separated(c, e):
            return c.forall(0, e["n"] - 1, lambda k: e["_mx"](k) < e["_mn"](k + 1))

        def known(c, e, r):
            return c.Not(c.is_none(r[1]))

        def truthful(c, e, r):
            d = r[0]
            return c.Implies(
                known(c, e, r),
                c.And(
                    c.eq(c.len(d), e["n"] + 1),
                    c.forall(0, e["n"], lambda k: c.eq(c.at(d, k), e["_mn"](k))),
                    c.eq(c.at(d, e["n"]), e["_mx"](e["n"] - 1)),
                    separated(c, e),
                ),
            )

        def unknown_shape(c, e, r):
            return c.Implies(c.Not(known(c, e, r)), c.And(c.eq(c.len(r[0]), e["n"] + 1), c.forall(0, e["n"] + 1, lambda k: c.is_none(c.at(r[0], k)))))

        def complete(c, e, r):
            return c.Implies(separated(c, e), known(c, e, r))

        return {"known-divisions-are-truthful": truthful, "unknown-divisions-are-all-None": unknown_shape, "separated-ranges-give-known-divisions": complete}

    # ---- concrete
    def concrete_globals(self):
        import dask_expr.io.parquet as m

        return vars(m)

    def concrete_inputs(self):
        vals = range(0, 4)
        for n in (1, 2, 3):
            for flat in itertools.product(vals, repeat=2 * n):
                pairs = [(flat[2 * k], flat[2 * k + 1]) for k in range(n)]
                if all(a <= b for a, b in pairs) and pairs == sorted(pairs):
                    yield {"pairs": pairs}

    def concrete_env(self, inputs):
        return None

    def run_concrete(self, inputs):
        from dask_expr.io.parquet import _divisions_from_statistics as f

        pairs = inputs["pairs"]
        stats = [{"columns": [{"path_in_schema": "other", "statistics": {"min": 0, "max": 0}}, {"path_in_schema": "ix", "statistics": {"min": a, "max": b}}]} for a, b in pairs]
        env = {"n": len(pairs), "_mn": lambda k: pairs[k][0], "_mx": lambda k: pairs[k][1]}
        d, order = f(stats, "ix")
        return env, (list(d), order)

    def inputs_from_model(self, model, sz, sym):
        n = sym.read_int(model, "n")
        if n is None or not (1 <= n <= 12):
            return None
        try:
            pairs = [(model.eval(self._mn(z3.IntVal(k)), model_completion=True).as_long(), model.eval(self._mx(z3.IntVal(k)), model_completion=True).as_long()) for k in range(n)]
        except Exception:
            return None
        if pairs != sorted(pairs):
            return None
        return {"pairs": pairs}


SPECS = [DivisionsFromStatistics()]
