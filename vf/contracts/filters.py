"""Contracts for filter pushdown through joins (C03, C01): the join-type legality table.

Property statement (C03): a filter is pushed into a join input only if that input's rows cannot be re-introduced by
the join type.  For `Filter(Merge(left, right, how), p)` the rule `Merge._simplify_up` filters input S with p iff
    G_S := p mentions at least one column, every column it mentions is a column of S, and none of them is one that the
           join renames with S's suffix (the plain name then denotes the OTHER input's column).
The legality table, taken from the property (not from the code):
    left  may be filtered  iff how in {inner, left, leftsemi}                 (the join cannot bring a left row back)
    right may be filtered  iff how in {inner, right}
    both  may be filtered  iff one of them may and the predicate qualifies for BOTH inputs (G_left and G_right: the
                               predicate is about join keys shared by both inputs - removing the partner rows of removed rows)
    `outer` never; a predicate that qualifies for no input stays above the join.

Three functions are under contract, callers against callee CONTRACTS only:
  `Merge._renamed_by_suffix`             result == (suffix != "" and some column c: c+suffix in self.columns and c in other.columns)
  `Merge._filter_passthrough_available`  result ==> the predicate is a conjunction (then only its first conjunct is split off, nothing is
                                         pushed into an input yet), or LEGAL(G_left, G_right) holds for the columns of its first conjunct
  `Merge._simplify_up` (Filter branch)   the rebuilt Merge has input S replaced by S[p] only where LEGAL allows it, and exactly the inputs
                                         with G_S are replaced.
Object model: column labels are an uninterpreted sort; column lists are sequences of unknown length; `f"{col}{suffix}"` is an
uninterpreted function of the label per (concrete) suffix; predicates are abstract identities with `is_and`, `left`, and the column
set `_predicate_columns` returns for them (None or a sequence); `is_filter_pushdown_available` is an unconstrained boolean.
The same clauses are evaluated concretely on real Merge / Filter objects (tier S) with G_S decided by pandas itself (marker merge).
"""
from __future__ import annotations

import itertools

import z3

from vf.pyvc.spec import Spec, SkipInput, attr_fn, contract_fn
from vf.pyvc.values import Ite, Lab, Obj, Opaque, Seq, Term, fresh_bool, fresh_int, zbool, zint

HOWS = ("inner", "left", "right", "outer", "leftsemi")
LEFT_OK = ("inner", "left", "leftsemi")
RIGHT_OK = ("inner", "right")
SUFFIXES = (("_x", "_y"), ("", "_y"), ("_x", ""))

IS_AND = z3.Function("is_and", z3.IntSort(), z3.BoolSort())
LEFT_OF = z3.Function("left_of", z3.IntSort(), z3.IntSort())
RIGHT_OF = z3.Function("right_of", z3.IntSort(), z3.IntSort())
LEAF = z3.Function("first_conjunct", z3.IntSort(), z3.IntSort())
PC_NONE = z3.Function("pcols_is_none", z3.IntSort(), z3.BoolSort())
PC_LEN = z3.Function("pcols_len", z3.IntSort(), z3.IntSort())
PC_AT = z3.Function("pcols_at", z3.IntSort(), z3.IntSort(), Lab)
SFX = {s: z3.Function(f"with_suffix{s!r}", Lab, Lab) for s in ("_x", "_y")}


def _in(seq, x):
    j = fresh_int("j")
    return z3.Exists([j], z3.And(j >= 0, j < zint(seq.length), seq.get(j) == x))


def _pcols(p):
    return Seq(PC_LEN(p), lambda k, p=p: PC_AT(p, zint(k)), "set")


def renamed(pc, suffix, cols, other_cols):
    if suffix == "":
        return z3.BoolVal(False)
    k = fresh_int("k")
    return z3.Exists([k], z3.And(k >= 0, k < zint(pc.length), _in(cols, SFX[suffix](pc.get(k))), _in(other_cols, pc.get(k))))


def goes(pc, side_cols, suffix, cols, other_cols):
    """G_S for the columns `pc` of a predicate."""
    k = fresh_int("k")
    sub = z3.ForAll([k], z3.Implies(z3.And(k >= 0, k < zint(pc.length)), _in(side_cols, pc.get(k))))
    return z3.And(zint(pc.length) > 0, sub, z3.Not(renamed(pc, suffix, cols, other_cols)))


def legal(how, fl, fr, gl, gr):
    lo, ro = how in LEFT_OK, how in RIGHT_OK
    both = z3.And(gl, gr)
    return z3.And(
        z3.Implies(fl, z3.Or(lo, z3.And(fr, ro, both))),
        z3.Implies(fr, z3.Or(ro, z3.And(fl, lo, both))),
        z3.Implies(fl, gl),
        z3.Implies(fr, gr),
    )


def mk_pred(p, ex=None, fr=None):
    """Abstract predicate expression with identity p."""
    if ex is not None:
        # definition of the first conjunct, instantiated at p
        ex.assume(fr, z3.And(z3.Implies(IS_AND(p), LEAF(p) == LEAF(LEFT_OF(p))), z3.Implies(z3.Not(IS_AND(p)), LEAF(p) == p), PC_LEN(p) >= 0))

    @attr_fn
    def left(ex_, fr_):
        return mk_pred(LEFT_OF(p), ex_, fr_)

    @attr_fn
    def right(ex_, fr_):
        return mk_pred(RIGHT_OF(p), ex_, fr_)

    return Obj(f"pred<{p}>", {"pid": p, "left": left, "right": right, "substitute": contract_fn(lambda e, f, a, b: Obj(f"subst<{p}>", {"pid": p}, cls=("Expr",)))}, cls=("Expr", "_pred"))


class _MergeBase(Spec):
    case = {"how": "inner", "suffixes": ("_x", "_y")}
    assumptions = ["object model of Merge: left.columns / right.columns / self.columns are label sequences; f'{col}{suffix}' is an uninterpreted function of the label",
                   "is_filter_pushdown_available (a walk over live consumers) is an unconstrained boolean here; it is exercised by the run-time contract C03.R.filter"]

    def cases(self):
        for how, sfx in itertools.product(HOWS, SUFFIXES):
            yield {"how": how, "suffixes": sfx}

    def model(self, sym):
        L, R, C = sym.seq("left_columns", Lab), sym.seq("right_columns", Lab), sym.seq("merge_columns", Lab)
        me = {}

        @contract_fn
        def predicate_columns(ex, fr, pred):
            p = pred.attrs["pid"]
            return Ite(PC_NONE(p), None, _pcols(p))

        @contract_fn
        def renamed_by_suffix(ex, fr, columns, side):
            sfx = self.case["suffixes"][0 if side == "left" else 1]
            return renamed(columns, sfx, C, R if side == "left" else L)

        me.update({"how": self.case["how"], "suffixes": self.case["suffixes"], "left": Obj("left", {"columns": L}, cls=("Expr",)), "right": Obj("right", {"columns": R}, cls=("Expr",)),
                   "columns": C, "_predicate_columns": predicate_columns, "_renamed_by_suffix": renamed_by_suffix, "_name": Opaque("self._name"), "operands": Opaque("self.operands")})
        return Obj("self", me, cls=("Merge", "Expr")), L, R, C

    # hooks shared by the three contracts
    def method(self, ex, fr, base, name, args, kwargs):
        if isinstance(base, Seq) and name == "issubset" and len(args) == 1:
            other = ex.seq_of(args[0], fr)
            k = fresh_int("k")
            return z3.ForAll([k], z3.Implies(z3.And(k >= 0, k < zint(base.length)), _in(other, base.get(k))))
        return NotImplemented

    def fstring(self, ex, fr, parts):
        if len(parts) == 2 and isinstance(parts[1], str) and z3.is_expr(parts[0]) and parts[0].sort() == Lab:
            return parts[0] if parts[1] == "" else SFX[parts[1]](parts[0])
        return NotImplemented

    def isinstance_hook(self, ex, fr, v, tname):
        if isinstance(v, Obj) and "_pred" in (v.cls or ()) and tname == "And":
            return IS_AND(v.attrs["pid"])
        return NotImplemented

    def havoc(self, ex, fr, name, old):
        if isinstance(old, Obj) and "_pred" in (old.cls or ()):
            return mk_pred(fresh_int("pid"), ex, fr)
        return NotImplemented

    def G(self, env, pc):
        L, R, C = env["L"], env["R"], env["C"]
        ls, rs = self.case["suffixes"]
        return goes(pc, L, ls, C, R), goes(pc, R, rs, C, L)

    # ---- concrete side: real Merge / Filter objects, G_S decided by pandas (marker merge) -----------------------
    def concrete_env(self, inputs):
        return None

    def concrete_inputs(self):
        keycfg = [("on_k", dict(on="k")), ("lk_rj", dict(left_on="k", right_on="j")), ("l_index", dict(left_index=True, right_on="j")), ("two_keys", dict(left_on=["k", "b"], right_on=["j", "b"]))]
        for how, sfx, (kname, kw) in itertools.product(HOWS, SUFFIXES, keycfg):
            for pred in ("k", "j", "b", "b_x", "b_y", "lv", "rv", "k&lv", "rv&k", "lv|rv", "k+j"):
                yield {"how": how, "suffixes": sfx, "keys": kname, "kw": kw, "pred": pred}

    def _build(self, inputs):
        import pandas as pd

        import dask_expr as dx

        lp = pd.DataFrame({"k": [1, 2, 3, 4, 5, 6], "b": [1, 1, 2, 2, 3, 3], "lv": [10, 20, 30, 40, 50, 60]})
        rp = pd.DataFrame({"j": [4, 5, 6, 7, 8, 9], "b": [2, 2, 3, 3, 4, 4], "rv": [1, 2, 3, 4, 5, 6]})
        if inputs["keys"] == "on_k":
            rp = rp.rename(columns={"j": "k"})
        if inputs["keys"] == "l_index":
            lp = lp.set_index("k")
        left, right = dx.from_pandas(lp, npartitions=2), dx.from_pandas(rp, npartitions=2)
        try:
            m = left.merge(right, how=inputs["how"], suffixes=inputs["suffixes"], **inputs["kw"])
            pm = lp.merge(rp, how=inputs["how"] if inputs["how"] != "leftsemi" else "inner", suffixes=inputs["suffixes"], **inputs["kw"])
        except Exception:
            raise SkipInput()
        cols = list(m.columns)
        names = {"k&lv": ("k", "lv"), "rv&k": ("rv", "k"), "lv|rv": ("lv", "rv"), "k+j": ("k", "j")}.get(inputs["pred"], (inputs["pred"],))
        if any(n not in cols for n in names):
            raise SkipInput()
        p = inputs["pred"]
        if p == "k&lv":
            q = m[(m.k > 2) & (m.lv > 10)]
        elif p == "rv&k":
            q = m[(m.rv > 1) & (m.k > 2)]
        elif p == "lv|rv":
            q = m[(m.lv > 10) | (m.rv > 1)]
        elif p == "k+j":
            q = m[(m.k + m.j) > 9]
        else:
            q = m[m[p] > 2]
        return m.expr, q.expr, lp, rp, names

    @staticmethod
    def _origin(merge, name):
        """Which inputs the result column `name` of the REAL Merge expression takes its values from, decided by pandas:
        the inputs are computed, one side's non-key values are perturbed, and the merged column is compared."""
        from dask_expr._collection import new_collection

        def aslist(x):
            return [] if x is None else (list(x) if isinstance(x, (list, tuple)) else [x])

        lp, rp = new_collection(merge.left).compute(), new_collection(merge.right).compute()
        kw = {k: v for k, v in merge.kwargs.items() if k not in ("how", "indicator")}
        lkeys = [] if kw.get("left_index") else aslist(kw.get("left_on"))
        rkeys = [] if kw.get("right_index") else aslist(kw.get("right_on"))
        out = set()
        if merge.how == "leftsemi":
            # the result of a leftsemi join has the LEFT input's columns only; a key named alike in both key lists is the shared key
            if name in lp.columns:
                out.add("left")
                if name in lkeys and name in rkeys:
                    out.add("right")
            return out
        base = lp.merge(rp, how="inner", **kw)
        if name not in base.columns:
            return out
        for side, frame, keys in (("left", lp, lkeys), ("right", rp, rkeys)):
            pert = frame.copy()
            for c in pert.columns:
                if c not in keys:
                    pert[c] = pert[c] + 1000
            other = lp.merge(pert, how="inner", **kw) if side == "right" else pert.merge(rp, how="inner", **kw)
            if not other[name].reset_index(drop=True).equals(base[name].reset_index(drop=True)):
                out.add(side)
        if not out:  # a key column: it belongs to the side(s) whose key list names it
            if name in lkeys:
                out.add("left")
            if name in rkeys:
                out.add("right")
        return out

    def _sides(self, merge, out):
        from dask_expr._expr import Filter

        if out is None or not isinstance(out, type(merge)):
            return None
        return (out.left is not merge.left and isinstance(out.left, Filter), out.right is not merge.right and isinstance(out.right, Filter))


def _legal_concrete(how, fl, fr, origins):
    """LEGAL for a concrete case: `origins` = for each predicate column the set of inputs it comes from."""
    gl = all("left" in o for o in origins) and bool(origins)
    gr = all("right" in o for o in origins) and bool(origins)
    lo, ro = how in LEFT_OK, how in RIGHT_OK
    both = gl and gr
    return (not fl or lo or (fr and ro and both)) and (not fr or ro or (fl and lo and both)) and (not fl or gl) and (not fr or gr)


class RenamedBySuffix(_MergeBase):
    file, qualname, props = "dask_expr/_merge.py", "Merge._renamed_by_suffix", ["C03", "C01"]
    case = {"how": "inner", "suffixes": ("_x", "_y"), "side": "left"}

    def cases(self):
        for sfx, side in itertools.product(SUFFIXES, ("left", "right")):
            yield {"how": "inner", "suffixes": sfx, "side": side}

    def make_inputs(self, ex, sym, fr):
        me, L, R, C = self.model(sym)
        cols = sym.seq("columns", Lab)
        return {"self": me, "columns": cols, "side": self.case["side"], "L": L, "R": R, "C": C}

    def ensures(self):
        side = self.case["side"]
        sfx = self.case["suffixes"][0 if side == "left" else 1]

        def post(c, env, r):
            if not c.symbolic:
                m, col = env["merge"], env["col"]
                other = m.right if side == "left" else m.left
                return bool(r) == (sfx != "" and f"{col}{sfx}" in m.columns and col in other.columns)
            return zbool(c.truth(r)) == renamed(env["columns"], sfx, env["C"], env["R"] if side == "left" else env["L"])

        return {"true-iff-a-column-carries-this-input's-suffix-in-the-result": post}

    def concrete_inputs(self):
        for sfx, side, keys, col in itertools.product(SUFFIXES, ("left", "right"), (("on_k", dict(on="k")), ("lk_rj", dict(left_on="k", right_on="j"))), ("k", "j", "b", "lv", "rv")):
            yield {"how": "inner", "suffixes": sfx, "side": side, "keys": keys[0], "kw": keys[1], "pred": "k", "col": col}

    def run_concrete(self, inputs):
        self.case = {"how": "inner", "suffixes": inputs["suffixes"], "side": inputs["side"]}
        merge, filt, lp, rp, names = self._build(inputs)
        return {"merge": merge, "col": inputs["col"]}, merge._renamed_by_suffix({inputs["col"]}, inputs["side"])


class FilterPassthroughAvailable(_MergeBase):
    file, qualname, props = "dask_expr/_merge.py", "Merge._filter_passthrough_available", ["C03", "C01", "C19"]
    invariants = {0: lambda c, env: (LEAF(env["predicate"].attrs["pid"]) == LEAF(env["p0"])) if c.symbolic else True}
    sizes = {"left_columns": range(1, 3), "right_columns": range(1, 3), "merge_columns": range(1, 4)}

    def make_inputs(self, ex, sym, fr):
        me, L, R, C = self.model(sym)
        p0 = sym.int("predicate_id")
        parent = Obj("parent", {"predicate": mk_pred(p0, ex, fr)}, cls=("Filter", "Expr"))
        self._avail = sym.bool("is_filter_pushdown_available")
        return {"self": me, "parent": parent, "dependents": Opaque("dependents"), "L": L, "R": R, "C": C, "p0": p0}

    def call(self, ex, fr, name, args, kwargs):
        if name == "is_filter_pushdown_available":
            return self._avail
        if name == "Filter":
            from vf.pyvc.values import fresh_lab

            return Obj("split-off-filter", {"_name": fresh_lab("name")}, cls=("Filter", "Expr"))
        return NotImplemented

    def subscript(self, ex, fr, base, idx):
        if isinstance(base, Opaque) and base.name == "dependents":
            return Seq(fresh_int("ndeps"), lambda k: Obj("weakref", {}), "list")
        return NotImplemented

    def filter_comp(self, ex, fr, e, g, it, elt_eval):
        # {x()._name for x in dependents[self._name] if x() is not None}: the names of the live consumers - unconstrained
        from vf.pyvc.values import fresh_fun

        f = fresh_fun("consumer_name", z3.IntSort(), Lab)
        return Seq(fresh_int("nlive"), lambda k, f=f: f(zint(k)), "list")

    def ensures(self):
        how = self.case["how"]

        def post(c, env, r):
            if not c.symbolic:
                return (not r) or env["sides"] is None or _legal_concrete(env["how"], env["sides"][0], env["sides"][1], env["origins"])
            leaf = LEAF(env["p0"])
            gl, gr = self.G(env, _pcols(leaf))
            return z3.Implies(zbool(c.truth(r)), z3.Or(IS_AND(env["p0"]), z3.And(z3.Not(PC_NONE(leaf)), legal(how, gl, gr, gl, gr))))

        return {"available-only-if-the-join-type-allows-every-input-the-filter-would-go-to": post}

    def concrete_inputs(self):
        return list(super().concrete_inputs())

    def run_concrete(self, inputs):
        from dask_expr._core import collect_dependents

        self.case = {"how": inputs["how"], "suffixes": inputs["suffixes"]}
        merge, filt, lp, rp, names = self._build(inputs)
        deps = collect_dependents(filt)
        r = merge._filter_passthrough_available(filt, deps)
        out = merge._simplify_up(filt, deps) if r else None
        return {"merge": merge, "filter": filt, "origins": [self._origin(merge, n) for n in names], "how": inputs["how"], "out": out, "sides": self._sides(merge, out)}, r


class MergeFilterPushdown(_MergeBase):
    """Merge._simplify_up, Filter branch (the function is verified with `parent` a Filter; its projection branch is
    outside this contract).  Callee contracts: _filter_passthrough_available as proved above."""

    file, qualname, props = "dask_expr/_merge.py", "Merge._simplify_up", ["C03", "C01"]
    sizes = {"left_columns": range(1, 3), "right_columns": range(1, 3), "merge_columns": range(1, 4)}

    def make_inputs(self, ex, sym, fr):
        me, L, R, C = self.model(sym)
        p0 = sym.int("predicate_id")
        how = self.case["how"]
        env = {"L": L, "R": R, "C": C, "p0": p0}

        @contract_fn
        def available(ex_, fr_, parent, dependents):
            r = fresh_bool("available")
            leaf = LEAF(p0)
            gl, gr = self.G(env, _pcols(leaf))
            ex_.assume(fr_, z3.Implies(r, z3.Or(IS_AND(p0), z3.And(z3.Not(PC_NONE(leaf)), legal(how, gl, gr, gl, gr)))))
            return r

        me.attrs["_filter_passthrough_available"] = available
        parent = Obj("parent", {"predicate": mk_pred(p0, ex, fr)}, cls=("Filter", "Expr"))
        env.update({"self": me, "parent": parent, "dependents": Opaque("dependents")})
        return env

    def call(self, ex, fr, name, args, kwargs):
        if name == "Filter":
            return Term("Filter", args)
        return NotImplemented

    def subscript(self, ex, fr, base, idx):
        if isinstance(base, Obj) and base.name in ("left", "right"):
            return Term("Filter", (base, idx))
        return NotImplemented

    def star_call(self, ex, fr, e):
        import ast

        if ast.unparse(e.func) == "type(self)" and len(e.args) == 3:
            return Term("Merge", (ex.eval(e.args[0], fr), ex.eval(e.args[1], fr)))
        return NotImplemented

    def isinstance_hook(self, ex, fr, v, tname):
        r = super().isinstance_hook(ex, fr, v, tname)
        if r is not NotImplemented:
            return r
        if isinstance(v, Obj) and tname in ("Filter", "Projection", "Index"):
            return tname in (v.cls or ())
        return NotImplemented

    def ensures(self):
        how = self.case["how"]

        def post(c, env, r):
            if not c.symbolic:
                sides = env["sides"]
                if sides is None:
                    return True
                return _legal_concrete(env["how"], sides[0], sides[1], env["origins"])
            if r is None or (isinstance(r, Term) and r.cls == "Filter"):
                return True  # the Filter stays above the join (possibly split into two filters)
            me = env["self"]
            fl, fr_ = r.args[0] is not me.attrs["left"], r.args[1] is not me.attrs["right"]
            gl, gr = self.G(env, _pcols(env["p0"]))
            return z3.And(z3.Not(IS_AND(env["p0"])), legal(how, z3.BoolVal(fl), z3.BoolVal(fr_), gl, gr))

        def shape(c, env, r):
            if not c.symbolic:
                return True
            return r is None or (isinstance(r, Term) and r.cls in ("Filter", "Merge"))

        return {"an-input-is-filtered-only-where-the-join-type-allows-it": post, "result-is-none-a-split-filter-or-a-rebuilt-merge": shape}

    def run_concrete(self, inputs):
        from dask_expr._core import collect_dependents

        self.case = {"how": inputs["how"], "suffixes": inputs["suffixes"]}
        merge, filt, lp, rp, names = self._build(inputs)
        deps = collect_dependents(filt)
        out = merge._simplify_up(filt, deps)
        return {"how": inputs["how"], "origins": [self._origin(merge, n) for n in names], "sides": self._sides(merge, out)}, out


SPECS = [RenamedBySuffix(), FilterPassthroughAvailable(), MergeFilterPushdown()]


class SetIndexFilterPassthrough(Spec):
    """SetIndex._filter_passthrough_available: a filter may move below set_index only if (a) the new index is a column of the
    frame (a separate series would have to be filtered along with the frame), (b) the generic consumer analysis allows it,
    and (c) NO node of the predicate is an `Index` expression: the index the predicate talks about is the one set_index
    creates, it does not exist below."""

    file, qualname, props = "dask_expr/_shuffle.py", "SetIndex._filter_passthrough_available", ["C03", "C01"]
    case = {"other_is_expr": False}
    assumptions = ["`p.walk()` enumerates every node of the predicate (dask_expr._core.Expr.walk: assumed); is_filter_pushdown_available is an unconstrained boolean here"]

    def cases(self):
        yield {"other_is_expr": False}
        yield {"other_is_expr": True}

    def make_inputs(self, ex, sym, fr):
        n = sym.int("n_predicate_nodes", lo=1)
        is_index = z3.Function("node_is_an_Index_expression", z3.IntSort(), z3.BoolSort())
        nodes = Seq(n, lambda k: Obj(f"node[{k}]", {"k": zint(k)}, cls=None), "list")
        pred = Obj("predicate", {"walk": contract_fn(lambda e, f: nodes)}, cls=("Expr",))
        other = Obj("other-series", {}, cls=("Expr",)) if self.case["other_is_expr"] else z3.Const("index_column", Lab)
        self._avail = sym.bool("is_filter_pushdown_available")
        self._is_index = is_index
        return {"self": Obj("self", {"_other": other}, cls=("Expr", "SetIndex")), "parent": Obj("parent", {"predicate": pred}, cls=("Expr", "Filter")), "dependents": Opaque("dependents"), "n": n}

    def call(self, ex, fr, name, args, kwargs):
        if name == "is_filter_pushdown_available":
            return self._avail
        return NotImplemented

    def isinstance_hook(self, ex, fr, v, tname):
        if isinstance(v, Obj) and "k" in v.attrs and tname == "Index":
            return self._is_index(v.attrs["k"])
        if isinstance(v, Obj) and v.cls is not None:
            return tname in v.cls
        return NotImplemented

    def ensures(self):
        other_expr = self.case["other_is_expr"]

        def post(c, env, r):
            if not c.symbolic:
                return bool(r) == env["expected"]
            k = fresh_int("k")
            mentions = z3.Exists([k], z3.And(k >= 0, k < env["n"], self._is_index(k)))
            return zbool(c.truth(r)) == z3.And(z3.BoolVal(not other_expr), self._avail, z3.Not(mentions))

        return {"available-iff-index-is-a-column-and-predicate-does-not-mention-the-index": post}

    def concrete_env(self, inputs):
        return None

    def concrete_inputs(self):
        for other in ("column", "series"):
            for pred in ("col", "index", "col&index"):
                yield {"other": other, "pred": pred}

    def run_concrete(self, inputs):
        import pandas as pd

        import dask_expr as dx
        from dask_expr._core import collect_dependents

        self.case = {"other_is_expr": inputs["other"] == "series"}
        pdf = pd.DataFrame({"a": [3, 1, 2, 5, 4, 6], "b": [1, 2, 3, 4, 5, 6]})
        df = dx.from_pandas(pdf, npartitions=2)
        x = df.set_index("a") if inputs["other"] == "column" else df.set_index(7 - df.a)
        q = {"col": lambda: x[x.b > 2], "index": lambda: x[x.index.to_series() > 2], "col&index": lambda: x[(x.b > 2) & (x.index.to_series() > 1)]}[inputs["pred"]]()
        r = x.expr._filter_passthrough_available(q.expr, collect_dependents(q.expr))
        return {"expected": inputs["other"] == "column" and inputs["pred"] == "col"}, r


SPECS.append(SetIndexFilterPassthrough())
