"""Contracts for what is shipped to another process (C16): the `__reduce__` methods.

A collection survives pickling iff what `__reduce__` hands to pickle determines the expression:
  `Expr.__reduce__`          returns (type(self), tuple of ALL operands, in order)  - `Expr.__new__` applied to them in the
                             receiving process rebuilds an expression whose `_name` is a function of class and operands
                             (C08 contracts in vf/contracts/names.py), hence the same `_name`;
                             raises only when the `dask-expr-no-serialize` switch is on;
  `FrameBase.__reduce__`     returns (new_collection, (the expression,));
  `_BackendData.__reduce__`  returns (type(self), (the wrapped data,)) - the per-process division cache is NOT shipped.
Coverage guard: every `__reduce__ / __getstate__ / __setstate__ / __reduce_ex__` defined in the package must be in the
table below; a new definition (e.g. a class that starts pickling only part of its operands) is reported as an
undecided obligation until it is put under contract.  `FragmentWrapper.__reduce__` (pyarrow fragment packing) is
outside the subset: it is listed, exercised by the run-time round-trip contract only, and reported as an assumption.
"""
from __future__ import annotations

import ast
import os

import z3

from vf.pyvc.spec import REPO, Spec
from vf.pyvc.values import Lab, Obj, Opaque, Seq

UNDER_CONTRACT = {("dask_expr/_core.py", "Expr.__reduce__"), ("dask_expr/_collection.py", "FrameBase.__reduce__"), ("dask_expr/_util.py", "_BackendData.__reduce__")}
LISTED_ONLY = {("dask_expr/io/parquet.py", "FragmentWrapper.__reduce__"): "pyarrow fragment packing: outside the subset; exercised by C16.roundtrip on arrow-reader collections only"}
PICKLE_HOOKS = ("__reduce__", "__reduce_ex__", "__getstate__", "__setstate__", "__getnewargs__", "__getnewargs_ex__", "__copy__", "__deepcopy__")


def pickle_hook_definitions(repo=None):
    out = []
    root = os.path.join(repo or REPO, "dask_expr")
    for dp, dn, fn in os.walk(root):
        if "tests" in dp.split(os.sep):
            continue
        for f in fn:
            if not f.endswith(".py"):
                continue
            rel = os.path.relpath(os.path.join(dp, f), repo or REPO)
            tree = ast.parse(open(os.path.join(dp, f)).read())
            for cls in ast.walk(tree):
                if isinstance(cls, ast.ClassDef):
                    for ch in cls.body:
                        if isinstance(ch, ast.FunctionDef) and ch.name in PICKLE_HOOKS:
                            out.append((rel, f"{cls.name}.{ch.name}"))
    return sorted(out)


class ExprReduce(Spec):
    file, qualname, props = "dask_expr/_core.py", "Expr.__reduce__", ["C16"]
    assumptions = ["Expr.__new__ is the inverse on the receiving side: class + operands determine `_name` (C08 name contracts); operands themselves are pickled by pickle (pandas / numpy objects: trusted)"]

    def make_inputs(self, ex, sym, fr):
        ops = sym.seq("operands", Lab, kind="list")
        self._off = sym.bool("serialization_switched_off")
        return {"self": Obj("self", {"operands": ops}, cls=("Expr",)), "ops": ops, "off": self._off}

    def call(self, ex, fr, name, args, kwargs):
        if name == "dask.config.get":
            if args[0] != "dask-expr-no-serialize" or args[1] is not False:
                from vf.pyvc.exec import Unsupported

                raise Unsupported("another configuration switch decides about serialization")
            return self._off
        if name == "builtin:type":
            return Opaque("type(self)")
        return NotImplemented

    def may_raise(self, c, env, exc):
        return env["off"] if exc == "RuntimeError" else False

    def ensures(self):
        def post(c, env, r):
            if not c.symbolic:
                return r[0] is type(env["self"]) and isinstance(r[1], tuple) and len(r[1]) == len(env["self"].operands) and all(a is b for a, b in zip(r[1], env["self"].operands))
            cls, ops = r
            return c.And(cls == Opaque("type(self)"), c.eq(c.len(ops), c.len(env["ops"])), c.forall(0, c.len(env["ops"]), lambda k: c.eq(c.at(ops, k), c.at(env["ops"], k))))

        return {"class-and-all-operands-in-order": post, "never-returns-when-serialization-is-switched-off": lambda c, env, r: c.Not(env["off"]) if c.symbolic else True}

    def concrete_env(self, inputs):
        return None

    def concrete_inputs(self):
        return [{"program": k} for k in ("frame", "filter", "merge", "groupby", "from_map")]

    def _expr(self, name):
        import pandas as pd

        import dask_expr as dx

        pdf = pd.DataFrame({"a": [1, 2, 3, 4], "b": [1.0, 2.0, 3.0, 4.0]})
        df = dx.from_pandas(pdf, npartitions=2)
        return {"frame": lambda: df, "filter": lambda: df[df.a > 1], "merge": lambda: df.merge(df, on="a"), "groupby": lambda: df.groupby("a").b.sum(),
                "from_map": lambda: dx.from_map(lambda i: pdf.iloc[i : i + 2], [0, 2])}[name]()

    def run_concrete(self, inputs):
        e = self._expr(inputs["program"]).expr
        return {"self": e}, e.__reduce__()


class FrameBaseReduce(Spec):
    file, qualname, props = "dask_expr/_collection.py", "FrameBase.__reduce__", ["C16"]

    def make_inputs(self, ex, sym, fr):
        e = Obj("the-expression", {}, cls=("Expr",))
        return {"self": Obj("self", {"_expr": e, "expr": e}, cls=("FrameBase",)), "e": e}

    def ensures(self):
        def post(c, env, r):
            if not c.symbolic:
                from dask_expr._collection import new_collection

                return r[0] is new_collection and len(r[1]) == 1 and r[1][0] is env["self"].expr
            fn, args = r
            return fn == Opaque("new_collection") and len(args) == 1 and args[0] is env["e"]

        return {"rebuilt-by-new_collection-from-the-expression": post}

    def concrete_env(self, inputs):
        return None

    def concrete_inputs(self):
        return [{"program": k} for k in ("frame", "filter", "groupby")]

    def run_concrete(self, inputs):
        q = ExprReduce()._expr(inputs["program"])
        return {"self": q}, q.__reduce__()


class BackendDataReduce(Spec):
    file, qualname, props = "dask_expr/_util.py", "_BackendData.__reduce__", ["C16", "C15"]

    def make_inputs(self, ex, sym, fr):
        d = Obj("the-data", {})
        return {"self": Obj("self", {"_data": d, "_division_info": Obj("per-process-cache", {})}, cls=("_BackendData",)), "d": d}

    def call(self, ex, fr, name, args, kwargs):
        if name == "builtin:type":
            return Opaque("type(self)")
        return NotImplemented

    def ensures(self):
        def post(c, env, r):
            if not c.symbolic:
                return r[0] is type(env["self"]) and len(r[1]) == 1 and r[1][0] is env["self"]._data
            cls, args = r
            return cls == Opaque("type(self)") and len(args) == 1 and args[0] is env["d"]

        return {"only-the-data-is-shipped-not-the-division-cache": post}

    def concrete_env(self, inputs):
        return None

    def concrete_inputs(self):
        return [{}]

    def run_concrete(self, inputs):
        import pandas as pd

        from dask_expr._util import _BackendData

        b = _BackendData(pd.DataFrame({"a": [1, 2]}))
        return {"self": b}, b.__reduce__()


SPECS = [ExprReduce(), FrameBaseReduce(), BackendDataReduce()]


def coverage_guard(run):
    """Every pickling hook defined in the package is under contract or listed; reports through `run`."""
    defs = set(pickle_hook_definitions())
    known = UNDER_CONTRACT | set(LISTED_ONLY)

    def add(d, status, detail):
        o = {"name": f"{d[0]}::{d[1]}#contract:pickling-hook-under-contract", "status": status, "backends": ["ast-scan"], "seconds": 0.0, "instances": 1, "detail": detail}
        run.obligations.append(o)
        if status != "discharged":
            run.undecided.append(f"{o['name']}: {status} {detail}")

    for d in sorted(defs - known):
        add(d, "unsupported", "a pickling hook that no contract covers: what it ships to the other process is not specified")
    for d in sorted(defs & known):
        add(d, "discharged", LISTED_ONLY.get(d, ""))
    for d in sorted(known - defs):
        add(d, "unsupported", "the function under contract no longer exists")
    for d, why in LISTED_ONLY.items():
        run.assume(f"{d[0]}::{d[1]}: {why}")
