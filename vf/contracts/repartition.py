"""Contracts for dask_expr/_repartition.py (C13, C06, C09)."""
from __future__ import annotations

import itertools

import z3

from vf.pyvc.exec import NameStr
from vf.pyvc.spec import Spec, as_attr, as_callee, contract_fn
from vf.pyvc.values import Obj, Opaque, Seq, Term, fresh_fun, fresh_int, zint
from vf.rt.stub import stub_frame

F = "dask_expr/_repartition.py"


def sorted_(c, s, lo=0, hi=None):
    """Pairwise form of `non-decreasing` (adjacent form needs induction to be useful to the solver)."""
    hi = c.len(s) if hi is None else hi
    return c.forall(lo, hi, lambda i: c.forall(i, hi, lambda j: c.at(s, i) <= c.at(s, j)))


def _fresh_list(ex, fr, name):
    f = fresh_fun(name, z3.IntSort(), z3.IntSort())
    n = fresh_int(name + "_len")
    fr.pc.append(n >= 0)
    return ex.new_list(fr, Seq(n, lambda k, f=f: f(zint(k))))


# ---------------------------------------------------------------------------------------------
class CleanBoundaries(Spec):
    """_clean_new_division_boundaries(b, n): force b to start at 0 and end at n."""

    file, qualname, props = F, "_clean_new_division_boundaries", ["C13"]
    sizes = {"b": range(1, 4)}

    def make_inputs(self, ex, sym, fr):
        b = sym.seq("b", kind="list", min_len=1)
        n = sym.int("n")
        return {"new_partitions_boundaries": ex.new_list(fr, b), "frame_npartitions": n, "_b0": b}

    def bind_call(self, ex, fr, env):
        env = dict(env)
        env["_b0"] = ex.seq_of(env["new_partitions_boundaries"], fr)
        return env

    def requires(self):
        return {
            # call sites: RepartitionToFewer passes n_out+1 >= 2 boundaries starting at 0;
            # RepartitionSize passes a cumulative sum of positive chunk counts (first element > 0)
            "nonempty": lambda c, e: c.Or(c.len(e["_b0"]) >= 2, c.And(c.len(e["_b0"]) >= 1, c.at(e["_b0"], 0) > 0)),
            "monotone": lambda c, e: sorted_(c, e["_b0"]),
            "lower": lambda c, e: c.at(e["_b0"], 0) >= 0,
            "upper": lambda c, e: c.forall(0, c.len(e["_b0"]), lambda k: c.at(e["_b0"], k) <= e["frame_npartitions"]),
        }

    def ensures(self):
        def off(c, e):
            return c.ite(c.at(e["_b0"], 0) > 0, 1, 0)

        return {
            "starts-at-0": lambda c, e, r: c.eq(c.at(r, 0), 0),
            "ends-at-n": lambda c, e, r: c.eq(c.at(r, c.len(r) - 1), e["frame_npartitions"]),
            "monotone": lambda c, e, r: sorted_(c, r),
            "in-range": lambda c, e, r: c.forall(0, c.len(r), lambda k: c.And(c.at(r, k) >= 0, c.at(r, k) <= e["frame_npartitions"])),
            "length": lambda c, e, r: c.eq(c.len(r), c.len(e["_b0"]) + off(c, e)),
            "interior-kept": lambda c, e, r: c.forall(
                0, c.len(e["_b0"]) - 1, lambda k: c.eq(c.at(r, k + off(c, e)), c.at(e["_b0"], k))
            ),
        }

    def fresh_result(self, ex, fr, env):
        return _fresh_list(ex, fr, "clean")

    # concrete
    def concrete_inputs(self):
        for n in range(0, 5):
            for ln in range(1, 4):
                for b in itertools.combinations_with_replacement(range(0, n + 1), ln):
                    yield {"b": list(b), "n": n}

    def concrete_env(self, inputs):
        return {"new_partitions_boundaries": list(inputs["b"]), "frame_npartitions": inputs["n"], "_b0": list(inputs["b"])}

    def run_concrete(self, inputs):
        from dask_expr._repartition import _clean_new_division_boundaries as f

        b = list(inputs["b"])
        r = f(b, inputs["n"])
        return {"new_partitions_boundaries": b, "frame_npartitions": inputs["n"], "_b0": list(inputs["b"])}, r

    def inputs_from_model(self, model, sz, sym):
        b = sym.read_seq(model, "b")
        return None if b is None else {"b": b, "n": sym.read_int(model, "n")}


# ---------------------------------------------------------------------------------------------
def _self_fewer(n_in, n_out, extra=None):
    frame = Obj("self.frame", {"npartitions": n_in, "_name": NameStr("", "self.frame")}, cls=("Expr",))
    attrs = {"new_partitions": n_out, "frame": frame, "_name": NameStr("", "self")}
    attrs.update(extra or {})
    return Obj("self", attrs, cls=("RepartitionToFewer", "Repartition", "Expr")), frame


class FewerBoundaries(Spec):
    """RepartitionToFewer._partitions_boundaries: n_out+1 monotone boundaries from 0 to n_in."""

    file, qualname, props = F, "RepartitionToFewer._partitions_boundaries", ["C13", "C06"]
    callees = {"_clean_new_division_boundaries": as_callee(CleanBoundaries(), ["new_partitions_boundaries", "frame_npartitions"])}
    assumptions = ["A2-floats-as-reals: n_in / n_out and int(i * ratio) are evaluated over the reals"]

    def make_inputs(self, ex, sym, fr):
        n_in, n_out = sym.int("n_in"), sym.int("n_out")
        s, _ = _self_fewer(n_in, n_out)
        return {"self": s, "n_in": n_in, "n_out": n_out}

    def bind_call(self, ex, fr, env):
        s = env["self"]
        return {"self": s, "n_in": s.attrs["frame"].attrs["npartitions"], "n_out": s.attrs["new_partitions"]}

    def requires(self):
        # call sites: Repartition._lower builds RepartitionToFewer only when new_partitions < frame.npartitions;
        # new_partitions >= 1 is checked by the collection API
        return {"n_out>=1": lambda c, e: e["n_out"] >= 1, "fewer": lambda c, e: e["n_in"] > e["n_out"]}

    def ensures(self):
        return {
            "length": lambda c, e, r: c.eq(c.len(r), e["n_out"] + 1),
            "starts-at-0": lambda c, e, r: c.eq(c.at(r, 0), 0),
            "ends-at-n_in": lambda c, e, r: c.eq(c.at(r, c.len(r) - 1), e["n_in"]),
            "monotone": lambda c, e, r: sorted_(c, r),
            "in-range": lambda c, e, r: c.forall(0, c.len(r), lambda k: c.And(c.at(r, k) >= 0, c.at(r, k) <= e["n_in"])),
        }

    def fresh_result(self, ex, fr, env):
        return _fresh_list(ex, fr, "bounds")

    def concrete_inputs(self):
        for n_in in range(2, 40):
            for n_out in range(1, n_in):
                yield {"n_in": n_in, "n_out": n_out}
        for n_in, n_out in [(1000, 3), (997, 991), (4096, 7), (123457, 1000), (10**6, 999)]:
            yield {"n_in": n_in, "n_out": n_out}

    def _real(self, inputs):
        from dask_expr._repartition import RepartitionToFewer

        fr = stub_frame(npartitions=inputs["n_in"], divisions=inputs.get("divs"))
        return RepartitionToFewer(fr, inputs["n_out"]), fr

    def run_concrete(self, inputs):
        obj, _ = self._real(inputs)
        return {"self": obj, "n_in": inputs["n_in"], "n_out": inputs["n_out"]}, obj._partitions_boundaries

    def inputs_from_model(self, model, sz, sym):
        return {"n_in": sym.read_int(model, "n_in"), "n_out": sym.read_int(model, "n_out")}


class FewerLayer(Spec):
    """RepartitionToFewer._layer: output i concatenates inputs b[i] .. b[i+1]-1, in order (K1-K3)."""

    file, qualname, props = F, "RepartitionToFewer._layer", ["C13", "C09", "C06"]

    def make_inputs(self, ex, sym, fr):
        n_in, n_out = sym.int("n_in"), sym.int("n_out")
        s, _ = _self_fewer(n_in, n_out, {"_partitions_boundaries": as_attr(FewerBoundaries())})
        return {"self": s, "n_in": n_in, "n_out": n_out}

    def requires(self):
        return FewerBoundaries().requires()

    def ensures(self):
        def keys_are_outputs(c, e, r):
            # K3 + nothing but output keys: every key is (self._name, i) with 0 <= i < n_out
            return c.forall_entries(r, lambda k, v: c.And(len(k) == 2, c.eq(k[0], c.attr(e["self"], "_name")), k[1] >= 0, k[1] < e["n_out"]))

        def k1(c, e, r):
            return c.forall(0, e["n_out"], lambda i: c.defined(r, (c.attr(e["self"], "_name"), i)))

        def dataflow(c, e, r):
            b = c.attr(e["self"], "_partitions_boundaries")
            fname = c.attr(e["self"], "frame._name")

            def one(k, v):
                i = k[1]
                lo, hi = c.at(b, i), c.at(b, i + 1)
                parts = v[1]
                return c.And(
                    len(v) == 2,
                    c.eq(v[0], c.fn("_concat")),
                    c.eq(c.len(parts), hi - lo),
                    c.forall(0, hi - lo, lambda j: c.eq(c.at(parts, j), (fname, lo + j))),
                )

            return c.forall_entries(r, one)

        def k2(c, e, r):
            # every referenced key is an input partition in bounds
            fname = c.attr(e["self"], "frame._name")
            return c.forall_entries(
                r,
                lambda k, v: c.forall(0, c.len(v[1]), lambda j: c.And(c.eq(c.at(v[1], j)[0], fname), c.at(v[1], j)[1] >= 0, c.at(v[1], j)[1] < e["n_in"])),
            )

        return {"K1-outputs-defined": k1, "K3-only-own-keys": keys_are_outputs, "dataflow-concat-range": dataflow, "K2-deps-in-bounds": k2}

    def concrete_globals(self):
        import dask_expr._repartition as m

        return vars(m)

    def concrete_inputs(self):
        for n_in in range(2, 14):
            for n_out in range(1, n_in):
                yield {"n_in": n_in, "n_out": n_out}

    def run_concrete(self, inputs):
        obj, _ = FewerBoundaries()._real(inputs)
        return {"self": obj, "n_in": inputs["n_in"], "n_out": inputs["n_out"]}, obj._layer()

    def inputs_from_model(self, model, sz, sym):
        return {"n_in": sym.read_int(model, "n_in"), "n_out": sym.read_int(model, "n_out")}


class FewerDivisions(Spec):
    """RepartitionToFewer._divisions: the input divisions at the boundaries."""

    file, qualname, props = F, "RepartitionToFewer._divisions", ["C06", "C13"]

    def make_inputs(self, ex, sym, fr):
        n_in, n_out = sym.int("n_in"), sym.int("n_out")
        divs = sym.seq("divs", kind="tuple")
        s, frame = _self_fewer(n_in, n_out, {"_partitions_boundaries": as_attr(FewerBoundaries())})
        frame.attrs["divisions"] = divs
        return {"self": s, "n_in": n_in, "n_out": n_out, "divs": divs}

    def requires(self):
        r = dict(FewerBoundaries().requires())
        r["divisions-shape"] = lambda c, e: c.eq(c.len(e["divs"]), e["n_in"] + 1)
        r["divisions-sorted"] = lambda c, e: sorted_(c, e["divs"])
        return r

    def ensures(self):
        return {
            "length": lambda c, e, r: c.eq(c.len(r), e["n_out"] + 1),
            "same-ends": lambda c, e, r: c.And(c.eq(c.at(r, 0), c.at(e["divs"], 0)), c.eq(c.at(r, c.len(r) - 1), c.at(e["divs"], e["n_in"]))),
            "sorted": lambda c, e, r: sorted_(c, r),
            "subsequence-at-boundaries": lambda c, e, r: c.forall(
                0, c.len(r), lambda k: c.eq(c.at(r, k), c.at(e["divs"], c.at(c.attr(e["self"], "_partitions_boundaries"), k)))
            ),
        }

    def concrete_inputs(self):
        for n_in in range(2, 10):
            for n_out in range(1, n_in):
                yield {"n_in": n_in, "n_out": n_out, "divs": tuple(range(0, 3 * (n_in + 1), 3))}

    def run_concrete(self, inputs):
        obj, _ = FewerBoundaries()._real(inputs)
        return {"self": obj, "n_in": inputs["n_in"], "n_out": inputs["n_out"], "divs": tuple(inputs["divs"])}, tuple(obj._divisions())

    def inputs_from_model(self, model, sz, sym):
        n_in = sym.read_int(model, "n_in")
        return {"n_in": n_in, "n_out": sym.read_int(model, "n_out"), "divs": tuple(range(n_in + 1))}


SPECS = [CleanBoundaries(), FewerBoundaries(), FewerLayer(), FewerDivisions()]


# ---------------------------------------------------------------------------------------------------------------------
# Repartition._lower: which physical repartitioning a request is dispatched to
# ---------------------------------------------------------------------------------------------------------------------
class RepartitionLowerDispatch(Spec):
    """Repartition._lower (the dispatch only; the interpolation of new divisions for frames with KNOWN numeric / datetime
    divisions - numpy / pandas - is outside the subset and stays with C13's run-time contract):
      npartitions=k on a frame with n partitions and unknown divisions:  k < n -> RepartitionToFewer(frame, k);  k == n -> the frame
      itself;  k > n -> RepartitionToMore(frame, k) - the requested count is passed on unchanged;
      divisions=d:  d equal to the frame's divisions -> the frame itself;  unknown divisions -> ValueError (a request that cannot be
      honoured is rejected, not silently changed);  otherwise RepartitionDivisions(frame, d, force);
      partition_size=s -> RepartitionSize(frame, partition_size=s);  no request -> NotImplementedError."""

    file, qualname, props = "dask_expr/_repartition.py", "Repartition._lower", ["C13", "C06"]
    case = {"request": "npartitions", "known": False}
    assumptions = ["object model: `type(self)` is Repartition (subclasses return None at once: first statement); frame.divisions has npartitions + 1 entries, all None iff not known_divisions"]

    def cases(self):
        yield {"request": "npartitions", "known": False}
        yield {"request": "divisions", "known": True}
        yield {"request": "divisions", "known": False}
        yield {"request": "partition_size", "known": False}
        yield {"request": "none", "known": False}

    def make_inputs(self, ex, sym, fr):
        from vf.pyvc.values import Ite

        k = self.case
        n = sym.int("frame_npartitions", lo=1)
        new = sym.int("new_partitions", lo=1)
        if k["known"]:
            divs = sym.seq("frame_divisions", kind="tuple")
            sym.pc.append(zint(divs.length) == n + 1)
        else:
            divs = Seq(n + 1, lambda j: None, "tuple")
        nd = sym.seq("new_divisions", kind="list", min_len=2) if k["request"] == "divisions" else None
        frame = Obj("frame", {"npartitions": n, "divisions": divs, "known_divisions": k["known"]}, cls=("Expr",))
        ps = Opaque("the-partition-size") if k["request"] == "partition_size" else None
        ops = {"new_partitions": new if k["request"] == "npartitions" else None}
        me = Obj("self", {"frame": frame, "new_partitions": ops["new_partitions"], "new_divisions": nd, "partition_size": ps, "force": Opaque("self.force"),
                          "operand": contract_fn(lambda e, f, name: ops[name])}, cls=("Expr", "Repartition"))
        return {"self": me, "frame": frame, "n": n, "new": new, "nd": nd, "divs": divs}

    def call(self, ex, fr, name, args, kwargs):
        if name == "builtin:type":
            return Opaque("Repartition")
        if name in ("RepartitionToFewer", "RepartitionToMore", "RepartitionDivisions", "RepartitionSize"):
            return Term(name, args, kwargs)
        if name == "pd.Series":
            return Obj("series", {"drop_duplicates": contract_fn(lambda e, f: Obj("deduplicated", {"dtype": Opaque("dtype")}))})
        return NotImplemented

    def only_raises(self):
        k = self.case
        return k["request"] == "none" or (k["request"] == "divisions" and not k["known"])

    def may_raise(self, c, env, exc):
        k = self.case
        if exc == "NotImplementedError":
            return k["request"] == "none"
        if exc == "ValueError":
            return k["request"] == "divisions" and not k["known"]
        return False

    def ensures(self):
        k = self.case

        def post(c, env, r):
            if not c.symbolic:
                return True
            fr_, n, new = env["frame"], env["n"], env["new"]
            if k["request"] == "npartitions":
                if r is fr_:
                    return new == n
                if isinstance(r, Term) and r.cls == "RepartitionToFewer":
                    return c.And(new < n, r.args[0] is fr_, c.eq(r.args[1], new))
                if isinstance(r, Term) and r.cls == "RepartitionToMore":
                    return c.And(new > n, r.args[0] is fr_, c.eq(r.args[1], new))
                return False
            if k["request"] == "divisions":
                if r is fr_:
                    return c.ex.equal(env["nd"], env["divs"], c.fr)
                return isinstance(r, Term) and r.cls == "RepartitionDivisions" and r.args[0] is fr_ and r.args[1] is env["self"].attrs["new_divisions"] and r.args[2] == Opaque("self.force") and k["known"]
            if k["request"] == "partition_size":
                return isinstance(r, Term) and r.cls == "RepartitionSize" and r.args[0] is fr_ and r.kwargs.get("partition_size") == Opaque("the-partition-size")
            return False

        return {"request-dispatched-unchanged-to-the-matching-algorithm": post}

    def concrete_inputs(self):
        return []


SPECS.append(RepartitionLowerDispatch())
