"""Contracts for hand-written multi-key graph layers (C09 K1-K3, plus the dataflow each property needs):
_cumulative.py CumulativeFinalize._layer (C02/C09), io/io.py FromGraph._layer (C17/C09),
_repartition.py RepartitionToMore._nsplits/_divisions/_layer (C13/C09/C06),
_shuffle.py SimpleShuffle._layer (C12/C09/C11).

K1: every output key (self._name, i), 0 <= i < npartitions, is defined.
K2: every key a task refers to is either defined in the same layer or is a partition (dep._name, j) of a
    dependency with j in bounds.
K3: every key the layer defines starts with a name derived from self._name (own name, or own name with a
    fixed prefix / suffix), so two expressions can only clash if their names clash (C08).
"""
from __future__ import annotations

import z3

from vf.pyvc.exec import NameStr
from vf.pyvc.spec import Spec, as_attr
from vf.pyvc.values import Obj, Opaque, Seq, fresh_fun, fresh_int, zint
from vf.rt.stub import stub_frame


def _dep(name, n=None, **extra):
    attrs = {"_name": NameStr("", name)}
    if n is not None:
        attrs["npartitions"] = n
    attrs.update(extra)
    return Obj(name, attrs, cls=("Expr",))


# ---------------------------------------------------------------------------------------------
class CumulativeFinalizeLayer(Spec):
    """CumulativeFinalize._layer: partition i of a cumulative op = aggregate(chunk i, carry i) where
    carry 1 = last(0) and carry i = aggregate(carry i-1, last(i-1))."""

    file, qualname, props = "dask_expr/_cumulative.py", "CumulativeFinalize._layer", ["C09", "C02"]

    def make_inputs(self, ex, sym, fr):
        n = sym.int("n", lo=1)
        frame = _dep("self.frame", n)
        prev = _dep("self.previous_partitions", n)
        s = Obj(
            "self",
            {"frame": frame, "previous_partitions": prev, "aggregator": Opaque("aggregator"), "_name": NameStr("", "self")},
            cls=("CumulativeFinalize", "Expr"),
        )
        return {"self": s, "n": n}

    def ensures(self):
        def names(c, e):
            own = c.attr(e["self"], "_name")
            return own, NameStr(own.prefix, own.atom, own.suffix + "-intermediate") if isinstance(own, NameStr) else own + "-intermediate"

        def k1(c, e, r):
            own, _ = names(c, e)
            return c.forall(0, e["n"], lambda i: c.defined(r, (own, i)))

        def k3(c, e, r):
            own, mid = names(c, e)
            return c.forall_entries(
                r, lambda k, v: c.And(len(k) == 2, c.Or(c.And(c.eq(k[0], own), k[1] >= 0, k[1] < e["n"]), c.And(c.eq(k[0], mid), k[1] >= 1, k[1] < e["n"])))
            )

        def first(c, e, r):
            own, _ = names(c, e)
            return c.eq(c.lookup(r, (own, 0)), (c.attr(e["self"], "frame._name"), 0))

        def outputs(c, e, r):
            own, mid = names(c, e)
            fn_, agg = c.fn("_cum_aggregate"), c.attr(e["self"], "aggregator")
            fname = c.attr(e["self"], "frame._name")
            return c.forall(1, e["n"], lambda i: c.eq(c.lookup(r, (own, i)), (fn_, agg, (fname, i), (mid, i))))

        def carries(c, e, r):
            own, mid = names(c, e)
            fn_, agg = c.fn("_cum_aggregate"), c.attr(e["self"], "aggregator")
            pname = c.attr(e["self"], "previous_partitions._name")
            return c.And(
                c.forall(1, c.min(2, e["n"]), lambda i: c.eq(c.lookup(r, (mid, i)), (pname, i - 1))),
                c.forall(2, e["n"], lambda i: c.eq(c.lookup(r, (mid, i)), (fn_, agg, (mid, i - 1), (pname, i - 1)))),
            )

        def k2(c, e, r):
            # every intermediate key an output or a carry refers to is defined
            _, mid = names(c, e)
            return c.forall(1, e["n"], lambda i: c.defined(r, (mid, i)))

        return {"K1-outputs-defined": k1, "K3-only-own-keys": k3, "first-partition-passthrough": first, "outputs-aggregate-chunk-with-carry": outputs, "carry-recurrence": carries, "K2-carries-defined": k2}

    def concrete_globals(self):
        import dask_expr._cumulative as m

        return vars(m)

    def concrete_inputs(self):
        for n in range(1, 9):
            yield {"n": n}

    def run_concrete(self, inputs):
        from dask_expr._cumulative import CumulativeFinalize

        fr = stub_frame(npartitions=inputs["n"])
        prev = stub_frame(npartitions=inputs["n"], tag="prev")
        obj = CumulativeFinalize(fr, prev, "aggregator-token")
        return {"self": obj, "n": inputs["n"]}, obj._layer()

    def inputs_from_model(self, model, sz, sym):
        return {"n": sym.read_int(model, "n")}


# ---------------------------------------------------------------------------------------------
class FromGraphLayer(Spec):
    """FromGraph._layer (persist / legacy import, C17): the imported layer is kept as it is, and output key
    (self._name, part) is an alias of the part-th imported key, in the order of the `keys` operand."""

    file, qualname, props = "dask_expr/io/io.py", "FromGraph._layer", ["C17", "C09"]

    def make_inputs(self, ex, sym, fr):
        from vf.pyvc.spec import contract_fn
        from vf.pyvc.values import Lab

        keys = sym.seq("keys", sort=Lab, kind="list")
        layer = Opaque("imported-layer")

        @contract_fn
        def operand(ex_, fr_, name):
            return {"layer": layer, "keys": keys}[name]

        s = Obj("self", {"operand": operand, "_name": NameStr("", "self")}, cls=("FromGraph", "Expr"))
        return {"self": s, "keys": keys, "layer": layer}

    def ensures(self):
        def own(c, e):
            return c.attr(e["self"], "_name")

        return {
            "K1-outputs-defined": lambda c, e, r: c.forall(0, c.len(e["keys"]), lambda i: c.defined(r, (own(c, e), i))),
            "alias-in-key-order": lambda c, e, r: c.forall(0, c.len(e["keys"]), lambda i: c.eq(c.lookup(r, (own(c, e), i)), c.at(e["keys"], i))),
            "imported-layer-kept-K3": lambda c, e, r: c.dict_rest_is(
                r, e["layer"], lambda k: len(k) == 2 and c.And(c.eq(k[0], own(c, e)), k[1] >= 0, k[1] < c.len(e["keys"]))
            ),
        }

    def concrete_inputs(self):
        for n in range(0, 5):
            yield {"n": n, "perm": list(range(n))}
        yield {"n": 3, "perm": [2, 0, 1]}
        yield {"n": 4, "perm": [3, 3, 0, 1]}

    def run_concrete(self, inputs):
        import pandas as pd

        from dask_expr.io.io import FromGraph

        layer = {("imported", j): ("task", j) for j in range(inputs["n"])}
        layer["helper"] = "x"
        keys = [("imported", j) for j in inputs["perm"]]
        obj = FromGraph(layer, pd.DataFrame({"a": []}), (None,) * (len(keys) + 1), keys, "from-graph")
        return {"self": obj, "keys": keys, "layer": layer}, obj._layer()

    def inputs_from_model(self, model, sz, sym):
        return None


# ---------------------------------------------------------------------------------------------
def _self_more(n_in, n_new, extra=None):
    frame = _dep("self.frame", n_in)
    attrs = {"frame": frame, "new_partitions": n_new, "_name": NameStr("", "self")}
    attrs.update(extra or {})
    return Obj("self", attrs, cls=("RepartitionToMore", "Repartition", "Expr")), frame


class MoreNSplits(Spec):
    """RepartitionToMore._nsplits: one positive split count per input partition, summing to new_partitions."""

    file, qualname, props = "dask_expr/_repartition.py", "RepartitionToMore._nsplits", ["C13", "C06"]
    may_raise = staticmethod(lambda c, e, exc: False)

    def make_inputs(self, ex, sym, fr):
        n_in, n_new = sym.int("n_in"), sym.int("n_new")
        s, _ = _self_more(n_in, n_new)
        return {"self": s, "n_in": n_in, "n_new": n_new}

    def bind_call(self, ex, fr, env):
        s = env["self"]
        return {"self": s, "n_in": s.attrs["frame"].attrs["npartitions"], "n_new": s.attrs["new_partitions"]}

    def requires(self):
        # Repartition._lower builds RepartitionToMore only when new_partitions > frame.npartitions (>= 1)
        return {"n_in>=1": lambda c, e: e["n_in"] >= 1, "more": lambda c, e: e["n_new"] > e["n_in"]}

    def ensures(self):
        # q, r with n_new = q * n_in + r, 0 <= r < n_in, stated without division: the first n_in - 1 entries are
        # equal (q), the last is q + r, and (n_in - 1) * q + last = n_new
        return {
            "length": lambda c, e, r: c.eq(c.len(r), e["n_in"]),
            "all-but-last-equal": lambda c, e, r: c.forall(0, e["n_in"] - 1, lambda k: c.eq(c.at(r, k), c.at(r, 0))),
            "positive": lambda c, e, r: c.forall(0, e["n_in"], lambda k: c.at(r, k) >= 1),
            "last-takes-remainder": lambda c, e, r: c.And(c.at(r, e["n_in"] - 1) >= c.at(r, 0), c.at(r, e["n_in"] - 1) < c.at(r, 0) + e["n_in"]),
            "sums-to-new-partitions": lambda c, e, r: c.eq(_closed_sum(c, r, e["n_in"]), e["n_new"]),
        }

    def fresh_result(self, ex, fr, env):
        f = fresh_fun("nsplits", z3.IntSort(), z3.IntSort())
        return ex.new_list(fr, Seq(env["n_in"], lambda k, f=f: f(zint(k))))

    def concrete_inputs(self):
        for n_in in range(1, 9):
            for n_new in range(n_in + 1, 3 * n_in + 3):
                yield {"n_in": n_in, "n_new": n_new}
        yield {"n_in": 7, "n_new": 1000}

    def _real(self, inputs):
        from dask_expr._repartition import RepartitionToMore

        return RepartitionToMore(stub_frame(npartitions=inputs["n_in"]), inputs["n_new"])

    def run_concrete(self, inputs):
        obj = self._real(inputs)
        return {"self": obj, "n_in": inputs["n_in"], "n_new": inputs["n_new"]}, obj._nsplits

    def inputs_from_model(self, model, sz, sym):
        return {"n_in": sym.read_int(model, "n_in"), "n_new": sym.read_int(model, "n_new")}


def _closed_sum(c, r, n):
    """sum of a list whose first n-1 entries are equal: (n-1) * r[0] + r[n-1]  (exact under `all-but-last-equal`;
    concretely the real sum is used, so the clause also checks the closed form)."""
    if not c.symbolic:
        return sum(r)
    return (n - 1) * c.at(r, 0) + c.at(r, n - 1)


class MoreDivisions(Spec):
    """RepartitionToMore._divisions: new_partitions + 1 unknown divisions."""

    file, qualname, props = "dask_expr/_repartition.py", "RepartitionToMore._divisions", ["C06", "C13"]

    def make_inputs(self, ex, sym, fr):
        n_in, n_new = sym.int("n_in"), sym.int("n_new")
        s, _ = _self_more(n_in, n_new, {"_nsplits": as_attr(MoreNSplits())})
        return {"self": s, "n_in": n_in, "n_new": n_new}

    def requires(self):
        return MoreNSplits().requires()

    def sum_hook(self, ex, fr, s):
        # sum(self._nsplits): closed form justified by the callee's all-but-last-equal clause
        n = s.length
        ex.assumptions.add("A-sum-closed-form: sum of a list whose first n-1 entries are equal is (n-1)*x[0] + x[n-1] (arithmetic identity, not re-proved by induction)")
        return (zint(n) - 1) * s.get(0) + s.get(z3.simplify(zint(n) - 1))

    def ensures(self):
        return {
            "length-new+1": lambda c, e, r: c.eq(c.len(r), e["n_new"] + 1),
            "all-unknown": lambda c, e, r: c.forall(0, c.len(r), lambda k: c.is_none(c.at(r, k))),
        }

    def concrete_inputs(self):
        return MoreNSplits().concrete_inputs()

    def run_concrete(self, inputs):
        obj = MoreNSplits()._real(inputs)
        return {"self": obj, "n_in": inputs["n_in"], "n_new": inputs["n_new"]}, tuple(obj._divisions())

    def inputs_from_model(self, model, sz, sym):
        return MoreNSplits().inputs_from_model(model, sz, sym)


class MoreLayer(Spec):
    """RepartitionToMore._layer: input partition i is split evenly into nsplits[i] consecutive output partitions
    S(i) .. S(i+1)-1 (S = prefix sums of nsplits), or passed through when nsplits[i] == 1: every output is defined
    exactly once, in input order."""

    file, qualname, props = "dask_expr/_repartition.py", "RepartitionToMore._layer", ["C13", "C09", "C06"]
    lemmas = ["PrefixSums"]
    assumptions = [
        "callee contract assumed: RepartitionToMore._nsplits (verified separately as MoreNSplits) - positive entries, one per input partition",
        "L4-prefix-sums (lemma, proved in lemmas/PrefixSums.lean): for S(0)=0, S(i+1)=S(i)+x(i), x(i)>=1: S is monotone, and every 0 <= m < S(n) lies in exactly one [S(i), S(i+1)) with i < n",
    ]

    def make_inputs(self, ex, sym, fr):
        n_in = sym.int("n_in")
        ns = sym.seq("ns", kind="list")
        S = fresh_fun("S", z3.IntSort(), z3.IntSort())
        w = fresh_fun("w", z3.IntSort(), z3.IntSort())
        i, m, a, b = z3.Ints("ax_i ax_m ax_a ax_b")
        x = lambda k: ns.get(k)
        sym.pc += [
            S(0) == 0,
            z3.ForAll([i], z3.Implies(z3.And(i >= 0, i < n_in), S(i + 1) == S(i) + x(i))),
        ]
        # L4 (assumed here, proved in Lean): monotone + cover with witness function w
        self._lemma = [
            z3.ForAll([a, b], z3.Implies(z3.And(0 <= a, a <= b, b <= n_in), S(a) <= S(b))),
            z3.ForAll([m], z3.Implies(z3.And(0 <= m, m < S(n_in)), z3.And(0 <= w(m), w(m) < n_in, S(w(m)) <= m, m < S(w(m) + 1)))),
        ]
        s, _ = _self_more(n_in, sym.int("n_new"), {"_nsplits": ns})
        return {"self": s, "n_in": n_in, "ns": ns, "_S": lambda k, S=S: S(zint(k)), "_w": lambda m, w=w: w(zint(m)), "_lemma": self._lemma}

    def requires(self):
        return {
            "n_in>=1": lambda c, e: e["n_in"] >= 1,
            "nsplits-length": lambda c, e: c.eq(c.len(e["ns"]), e["n_in"]),
            "nsplits-positive": lambda c, e: c.forall(0, e["n_in"], lambda k: c.at(e["ns"], k) >= 1),
            "L4": lambda c, e: c.And(*e["_lemma"]) if c.symbolic else True,
        }

    invariants = {
        0: lambda c, e: c.eq(e["j"], e["_S"](e["_i"])),
        1: lambda c, e: c.eq(e["j"], e["_S"](e["_outer"][0]) + e["_i"]),
    }

    def ensures(self):
        def names(c, e):
            own = c.attr(e["self"], "_name")
            split = NameStr("split-" + own.prefix, own.atom, own.suffix) if isinstance(own, NameStr) else "split-" + own
            return own, split, c.attr(e["self"], "frame._name")

        def k1(c, e, r):
            own, _, _ = names(c, e)
            W = e.get("_w")
            return c.forall(0, e["_S"](e["n_in"]), lambda m: c.defined(r, (own, m), witness=[W(m), m - e["_S"](W(m))] if W else None))

        def k3(c, e, r):
            own, split, _ = names(c, e)
            return c.forall_entries(
                r,
                lambda k, v: len(k) == 2
                and c.Or(c.And(c.eq(k[0], own), k[1] >= 0, k[1] < e["_S"](e["n_in"])), c.And(c.eq(k[0], split), k[1] >= 0, k[1] < e["n_in"])),
            )

        def dataflow(c, e, r):
            own, split, fname = names(c, e)
            S, ns = e["_S"], e["ns"]

            def one(k, v):
                if c.eq(k[0], split) is True or (not c.symbolic and k[0] == split):
                    # split task of input partition i
                    return c.And(len(v) == 3, c.eq(v[0], c.fn("split_evenly")), c.eq(v[1], (fname, k[1])), c.eq(v[2], c.at(ns, k[1])), c.at(ns, k[1]) != 1)
                if len(v) == 2:
                    # pass-through of an unsplit input partition
                    return c.And(c.eq(v[0], fname), v[1] >= 0, v[1] < e["n_in"], c.eq(c.at(ns, v[1]), 1), c.eq(k[1], S(v[1])))
                i = v[1][1]
                return c.And(len(v) == 3, c.eq(v[0], c.fn("getitem")), c.eq(v[1][0], split), i >= 0, i < e["n_in"], v[2] >= 0, v[2] < c.at(ns, i), c.eq(k[1], S(i) + v[2]))

            return c.forall_entries(r, one)

        def k2(c, e, r):
            own, split, fname = names(c, e)
            return c.forall_entries(r, lambda k, v: True if (len(v) != 3 or c.eq(k[0], split) is True or (not c.symbolic and k[0] == split)) else c.defined(r, v[1]))

        return {"K1-outputs-defined": k1, "K3-only-own-keys": k3, "dataflow-split-in-order": dataflow, "K2-split-keys-defined": k2}

    def concrete_globals(self):
        import dask_expr._repartition as m

        return vars(m)

    def concrete_inputs(self):
        return MoreNSplits().concrete_inputs()

    def concrete_env(self, inputs):
        return None

    def run_concrete(self, inputs):
        obj = MoreNSplits()._real(inputs)
        ns = list(obj._nsplits)
        return {"self": obj, "n_in": inputs["n_in"], "ns": ns, "_S": lambda k, ns=ns: sum(ns[:k]), "_lemma": []}, obj._layer()

    def inputs_from_model(self, model, sz, sym):
        return None


# ---------------------------------------------------------------------------------------------
class SizeLayer(Spec):
    """RepartitionSize._layer (repartition(partition_size=...)).  When some input partition is too large, input
    partition i becomes the nsplits[i] consecutive intermediate partitions S(i) .. S(i+1)-1 (passed through when
    nsplits[i] == 1, split evenly otherwise; S = prefix sums of nsplits); otherwise the intermediates ARE the input
    partitions.  Output i concatenates intermediates b[i] .. b[i+1]-1 in order, b = self._partition_boundaries.
    Every output is defined, every referenced key is defined in this layer or is an input partition in range."""

    file, qualname, props = "dask_expr/_repartition.py", "RepartitionSize._layer", ["C09", "C13", "C06"]
    lemmas = ["PrefixSums"]
    assumptions = [
        "callee contract assumed: RepartitionSize._nsplits - one positive entry per input partition (1 + mem_usage // size on non-negative usages; numpy, outside tier P; checked at run time by the concrete cross-check and C13 tier R)",
        "callee contract assumed: RepartitionSize._partition_boundaries - starts at 0, non-decreasing, ends at the number of intermediate partitions (sum of nsplits when something is split, frame.npartitions otherwise); pandas/numpy/iter_chunks, outside tier P; checked at run time by the concrete cross-check",
        "numpy semantics assumed: np.any(self._nsplits > 1) is true iff some entry exceeds 1 (only used to choose the branch; both branches are verified)",
        "L4-prefix-sums (lemma, proved in lemmas/PrefixSums.lean)",
    ]

    def make_inputs(self, ex, sym, fr):
        n_in = sym.int("n_in")
        ns = sym.seq("ns", kind="list")
        b = sym.seq("b", kind="list", min_len=2)
        anys = z3.Bool("any_split")
        S = fresh_fun("S", z3.IntSort(), z3.IntSort())
        w = fresh_fun("w", z3.IntSort(), z3.IntSort())
        i, m, a, b_ = z3.Ints("ax_i ax_m ax_a ax_b")
        sym.pc += [S(0) == 0, z3.ForAll([i], z3.Implies(z3.And(i >= 0, i < n_in), S(i + 1) == S(i) + ns.get(i)))]
        self._lemma = [
            z3.ForAll([a, b_], z3.Implies(z3.And(0 <= a, a <= b_, b_ <= n_in), S(a) <= S(b_))),
            z3.ForAll([m], z3.Implies(z3.And(0 <= m, m < S(n_in)), z3.And(0 <= w(m), w(m) < n_in, S(w(m)) <= m, m < S(w(m) + 1)))),
        ]
        frame = _dep("self.frame", n_in)
        s = Obj("self", {"frame": frame, "_name": NameStr("", "self"), "_nsplits": ns, "_partition_boundaries": b, "_size": Opaque("size")}, cls=("RepartitionSize", "Repartition", "Expr"))
        self._anys = anys
        return {"self": s, "n_in": n_in, "ns": ns, "b": b, "anys": anys, "_split_name": NameStr("split-", "tok2"), "_mid_name": NameStr("repartition-split-", "size+tok1"), "_S": lambda k, S=S: S(zint(k)), "_w": lambda m, w=w: w(zint(m)), "_lemma": self._lemma}

    # numpy / tokenize vocabulary of the function
    def compare(self, ex, fr, op, a, b):
        return Opaque("nsplits>1")  # elementwise comparison of the nsplits array; only np.any consumes it

    def call(self, ex, fr, name, args, kwargs):
        if name == "np.any":
            return self._anys
        if name == "tokenize":
            return NameStr("", "tok%d" % len(args))
        return NotImplemented

    def fstring(self, ex, fr, parts):
        if parts and parts[0] == "repartition-split-":
            return NameStr("repartition-split-", "size+tok1")
        return NotImplemented

    def requires(self):
        total = lambda c, e: c.ite(e["anys"], e["_S"](e["n_in"]), e["n_in"])
        return {
            "n_in>=1": lambda c, e: e["n_in"] >= 1,
            "nsplits-length": lambda c, e: c.eq(c.len(e["ns"]), e["n_in"]),
            "nsplits-positive": lambda c, e: c.forall(0, e["n_in"], lambda k: c.at(e["ns"], k) >= 1),
            "boundaries-start-at-0": lambda c, e: c.And(c.len(e["b"]) >= 2, c.eq(c.at(e["b"], 0), 0)),
            "boundaries-monotone": lambda c, e: c.forall(0, c.len(e["b"]), lambda i: c.forall(i, c.len(e["b"]), lambda j: c.at(e["b"], i) <= c.at(e["b"], j))),
            "boundaries-end-at-total": lambda c, e: c.eq(c.at(e["b"], c.len(e["b"]) - 1), total(c, e)),
            "L4": lambda c, e: c.And(*e["_lemma"]) if c.symbolic else True,
        }

    invariants = {
        0: lambda c, e: c.eq(e["j"], e["_S"](e["_i"])),
        1: lambda c, e: c.eq(e["j"], e["_S"](e["_outer"][0]) + e["_i"]),
    }

    def ensures(self):
        def names(c, e):
            own = c.attr(e["self"], "_name")
            fname = c.attr(e["self"], "frame._name")
            return own, fname, e["_split_name"], e["_mid_name"]

        def is_(c, a, b):
            return (c.eq(a, b) is True) if c.symbolic else a == b

        def k1(c, e, r):
            own = names(c, e)[0]
            return c.forall(0, c.len(e["b"]) - 1, lambda i: c.holds_at(
                r, (own, i),
                lambda v: len(v) == 2 and c.And(
                    c.eq(v[0], c.fn("methods.concat")),
                    c.eq(c.len(v[1]), c.at(e["b"], i + 1) - c.at(e["b"], i)),
                    c.forall(0, c.at(e["b"], i + 1) - c.at(e["b"], i), lambda j: c.eq(c.at(v[1], j), (c.ite(e["anys"], e["_mid_name"], names(c, e)[1]), c.at(e["b"], i) + j))),
                ),
            ))

        def mids(c, e, r):
            # every intermediate partition that an output concatenates is defined (split scenario)
            own, fname, split, mid = names(c, e)
            W = e.get("_w")
            return c.Implies(e["anys"], c.forall(0, e["_S"](e["n_in"]), lambda m: c.defined(r, (mid, m), witness=[W(m), m - e["_S"](W(m))] if W else None)))

        def dataflow(c, e, r):
            own, fname, split, mid = names(c, e)
            S, ns = e["_S"], e["ns"]

            def one(k, v):
                if is_(c, k[0], own):
                    return True
                if is_(c, k[0], split):
                    return c.And(len(v) == 3, c.eq(v[0], c.fn("split_evenly")), c.eq(v[1], (fname, k[1])), k[1] >= 0, k[1] < e["n_in"], c.eq(v[2], c.at(ns, k[1])), c.at(ns, k[1]) != 1)
                if len(v) == 2:
                    return c.And(is_(c, k[0], mid), c.eq(v[0], fname), v[1] >= 0, v[1] < e["n_in"], c.eq(c.at(ns, v[1]), 1), c.eq(k[1], S(v[1])))
                i = v[1][1]
                return c.And(is_(c, k[0], mid), len(v) == 3, c.eq(v[0], c.fn("getitem")), c.eq(v[1][0], split), i >= 0, i < e["n_in"], c.at(ns, i) != 1, v[2] >= 0, v[2] < c.at(ns, i), c.eq(k[1], S(i) + v[2]))

            return c.forall_entries(r, one)

        def k2(c, e, r):
            own, fname, split, mid = names(c, e)
            return c.forall_entries(r, lambda k, v: c.defined(r, v[1]) if (len(v) == 3 and is_(c, k[0], mid)) else True)

        def deps_in_range(c, e, r):
            # no split: the concatenated keys are input partitions in range
            return c.Implies(c.Not(e["anys"]), c.eq(c.at(e["b"], c.len(e["b"]) - 1), e["n_in"]))

        return {"K1-outputs-concat-range": k1, "K1-intermediates-defined": mids, "dataflow-split-in-order": dataflow, "K2-split-keys-defined": k2, "K2-unsplit-deps-in-range": deps_in_range}

    def concrete_globals(self):
        import dask_expr._repartition as m

        return vars(m)

    def concrete_inputs(self):
        for sizes in ((1, 1, 1), (5, 1, 1), (1, 5, 1), (1, 1, 5), (3, 1, 7, 1), (1, 2, 1, 2, 1), (4,), (2, 9, 2, 2, 9)):
            for size in (2, 3, 16):
                yield {"sizes": sizes, "size": size}

    def concrete_env(self, inputs):
        return None

    def run_concrete(self, inputs):
        import dask
        import numpy as np
        import pandas as pd
        from dask.base import tokenize

        import dask_expr as dx
        from dask_expr._repartition import RepartitionSize

        from vf.pyvc.ctx import ConcCtx

        unit = 1000
        rows = inputs["sizes"]
        pdf = pd.DataFrame({"x": np.arange(sum(rows) * unit, dtype="int64")})
        cut = [0] + [int(v) * unit for v in np.cumsum(rows)]
        df = dx.from_delayed([dask.delayed(pdf.iloc[lo:hi]) for lo, hi in zip(cut, cut[1:])], meta=pdf.iloc[:0])
        plan = df.repartition(partition_size=inputs["size"] * unit * 8).expr.lower_completely()
        obj = [x for x in plan.walk() if isinstance(x, RepartitionSize)][0]
        ns = [int(v) for v in obj._nsplits]
        env = {
            "self": obj, "n_in": obj.frame.npartitions, "ns": ns, "b": [int(v) for v in obj._partition_boundaries], "anys": any(v > 1 for v in ns),
            "_S": lambda k, ns=ns: sum(ns[:k]), "_lemma": [],
            "_split_name": f"split-{tokenize(obj.frame, obj._nsplits)}", "_mid_name": f"repartition-split-{obj._size}-{tokenize(obj.frame)}",
        }
        # the ASSUMED callee contracts (_nsplits, _partition_boundaries) are checked on the real object here
        cx = ConcCtx(self.concrete_globals())
        for label, clause in self.requires().items():
            if not clause(cx, env):
                raise AssertionError(f"assumed callee contract {label!r} is false on the real object: nsplits={ns} boundaries={env['b']}")
        return env, obj._layer()

    def inputs_from_model(self, model, sz, sym):
        # a real frame whose partition i needs exactly ns[i] pieces at partition_size = 2 units (the boundaries are
        # then whatever the real _partition_boundaries computes, not the model's)
        ns = sym.read_seq(model, "ns")
        if not ns or any(k < 1 or k > 40 for k in ns) or len(ns) > 40:
            return None
        return {"sizes": tuple(max(1, 2 * (k - 1)) for k in ns), "size": 2}


# ---------------------------------------------------------------------------------------------
class SimpleShuffleLayer(Spec):
    """SimpleShuffle._layer (single-stage task shuffle): every input partition i is grouped once by the
    partitioning index into npartitions_out pieces; output g concatenates piece P[g] of every input partition,
    in input order.  P = self._partitions (all outputs, or the selected subset)."""

    file, qualname, props = "dask_expr/_shuffle.py", "SimpleShuffle._layer", ["C12", "C09", "C11"]

    def make_inputs(self, ex, sym, fr):
        n_in, n_out = sym.int("n_in", lo=0), sym.int("n_out", lo=1)
        P = sym.seq("P", kind="list")
        filtered = sym.bool("filtered")
        frame = _dep("self.frame", n_in)
        s = Obj(
            "self",
            {
                "frame": frame, "_name": NameStr("", "self"), "npartitions_out": n_out, "_partitions": P, "_filtered": filtered,
                "ignore_index": Opaque("ignore_index"), "partitioning_index": Opaque("partitioning_index"), "_shuffle_group": Opaque("self._shuffle_group"),
            },
            cls=("SimpleShuffle", "Expr"),
        )
        return {"self": s, "n_in": n_in, "n_out": n_out, "P": P, "filtered": filtered}

    def requires(self):
        # PartitionsFiltered._partitions: the selected output partitions, each in range (contract PFDivisions / Partitions rules)
        return {"selection-in-range": lambda c, e: c.forall(0, c.len(e["P"]), lambda g: c.And(c.at(e["P"], g) >= 0, c.at(e["P"], g) < e["n_out"]))}

    def ensures(self):
        def names(c, e):
            own = c.attr(e["self"], "_name")
            if isinstance(own, NameStr):
                return own, NameStr("split-" + own.prefix, own.atom, own.suffix), NameStr("group-" + own.prefix, own.atom, own.suffix)
            return own, "split-" + own, "group-" + own

        def is_(c, a, b):
            return (c.eq(a, b) is True) if c.symbolic else a == b

        def k1(c, e, r):
            own, _, _ = names(c, e)
            return c.forall(0, c.len(e["P"]), lambda g: c.defined(r, (own, g)))

        def outputs(c, e, r):
            own, split, _ = names(c, e)

            def one(g):
                return c.holds_at(
                    r,
                    (own, g),
                    lambda v: len(v) == 3
                    and c.And(
                        c.eq(v[0], c.fn("_concat")), c.eq(v[2], c.attr(e["self"], "ignore_index")), c.eq(c.len(v[1]), e["n_in"]),
                        c.forall(0, e["n_in"], lambda i: c.eq(c.at(v[1], i), (split, c.at(e["P"], g), i))),
                    ),
                )

            return c.forall(0, c.len(e["P"]), one)

        def pieces(c, e, r):
            own, split, group = names(c, e)

            def one(k, v):
                if len(k) == 3 and is_(c, k[0], split):
                    return c.And(len(v) == 3, c.eq(v[0], c.fn("operator.getitem")), c.eq(v[1], (group, k[2])), c.eq(v[2], k[1]), k[2] >= 0, k[2] < e["n_in"], k[1] >= 0, k[1] < e["n_out"])
                if len(k) == 2 and is_(c, k[0], group):
                    n = e["n_out"]
                    filt = c.ite(e["filtered"], e["P"], None) if c.symbolic else (e["P"] if e["filtered"] else None)
                    return c.And(
                        len(v) == 9, c.eq(v[0], c.attr(e["self"], "_shuffle_group")), c.eq(v[1], (c.attr(e["self"], "frame._name"), k[1])), k[1] >= 0, k[1] < e["n_in"],
                        c.eq(v[2], filt), c.eq(v[3], c.attr(e["self"], "partitioning_index")), c.eq(v[4], 0), c.eq(v[5], n), c.eq(v[6], n), c.eq(v[8], n),
                    )
                return len(k) == 2 and c.And(c.eq(k[0], own), k[1] >= 0, k[1] < c.len(e["P"]))

            return c.forall_entries(r, one)

        def k2(c, e, r):
            own, split, group = names(c, e)
            return c.And(
                c.forall(0, c.len(e["P"]), lambda g: c.forall(0, e["n_in"], lambda i: c.defined(r, (split, c.at(e["P"], g), i), witness=[g, i]))),
                c.Implies(c.len(e["P"]) >= 1, c.forall(0, e["n_in"], lambda i: c.defined(r, (group, i), witness=[0, i]))),
            )

        return {"K1-outputs-defined": k1, "outputs-concat-piece-of-every-input": outputs, "K3-pieces-and-groups": pieces, "K2-referenced-keys-defined": k2}

    def concrete_globals(self):
        import dask_expr._shuffle as m

        return vars(m)

    def concrete_inputs(self):
        for n_in in range(0, 4):
            for n_out in range(1, 4):
                yield {"n_in": n_in, "n_out": n_out, "P": None}
                for P in ([0], [n_out - 1], list(range(n_out))[::-1], [0, 0]):
                    yield {"n_in": n_in, "n_out": n_out, "P": P}

    def concrete_env(self, inputs):
        return None

    def run_concrete(self, inputs):
        from dask_expr._shuffle import SimpleShuffle

        if inputs["n_in"] == 0:
            inputs = dict(inputs, n_in=1)
        fr = stub_frame(npartitions=inputs["n_in"])
        obj = SimpleShuffle(fr, "x", inputs["n_out"], False, {}, inputs["P"])
        P = list(obj._partitions)
        return {"self": obj, "n_in": inputs["n_in"], "n_out": inputs["n_out"], "P": P, "filtered": obj._filtered}, obj._layer()

    def inputs_from_model(self, model, sz, sym):
        return None


# ---------------------------------------------------------------------------------------------
class DiskShuffleLayer(Spec):
    """DiskShuffle._layer: one on-disk store p; every input partition i is grouped into the store by one task
    (name, i); a barrier task depends on ALL of these; output j collects group P[j] from the store and depends on the
    barrier - so no output is read before every input partition has been written, and output j holds group P[j]."""

    file, qualname, props = "dask_expr/_shuffle.py", "DiskShuffle._layer", ["C12", "C09", "C11", "C05"]  # C05: the barrier waits for EVERY writer - the only ordering the disk shuffle relies on is in the graph
    assumptions = [
        "uuid.uuid1().hex is a token no other name contains (A-names); partd_encode_dispatch / maybe_buffered_partd are opaque constructors",
        "toolz.merge(d1, ..., dk) is modelled as successive dict.update (later mappings win), its documented meaning",
        "Expr.__dask_keys__ of the input frame is [(frame._name, i) for i < frame.npartitions] (assumed callee contract; C09's run-time contract checks it on every corpus graph)",
    ]

    def make_inputs(self, ex, sym, fr):
        n_in = sym.int("n_in", lo=0)
        n_out = sym.int("n_out", lo=1)
        P = sym.seq("P", kind="list")
        frame = _dep("self.frame", n_in)
        frame.attrs["_meta"] = Opaque("frame-meta")

        def dask_keys(ex_, fr_, frame=frame, n_in=n_in):
            # Expr.__dask_keys__: [(self._name, i) for i in range(self.npartitions)]  (assumed; checked by C09's run-time contract)
            return Seq(n_in, lambda k, fname=frame.attrs["_name"]: (fname, k), "list")

        dask_keys._is_contract_fn = True
        frame.attrs["__dask_keys__"] = dask_keys
        s = Obj(
            "self",
            {"frame": frame, "_name": NameStr("", "self"), "npartitions_out": n_out, "_partitions": P, "partitioning_index": Opaque("partitioning_index"), "_shuffle_group": Opaque("self._shuffle_group")},
            cls=("DiskShuffle", "SimpleShuffle", "Expr"),
        )
        return {"self": s, "n_in": n_in, "n_out": n_out, "P": P, "_tok": NameStr("", "uuid")}

    def call(self, ex, fr, name, args, kwargs):
        if name == "uuid.uuid1":
            return Obj("uuid", {"hex": NameStr("", "uuid")}, cls=("UUID",))
        if name == "partd_encode_dispatch":
            return Opaque("encode_cls")
        if name == "maybe_buffered_partd":
            return Opaque("partd-factory")
        if name == "toolz.merge":
            out = ex.new_dict(fr)
            for a in args:
                fr.heap[out.oid] = fr.heap[out.oid].extend(fr.heap[a.oid].entries)
            return out
        return NotImplemented

    def requires(self):
        return {"selection-in-range": lambda c, e: c.forall(0, c.len(e["P"]), lambda g: c.And(c.at(e["P"], g) >= 0, c.at(e["P"], g) < e["n_out"]))}

    def ensures(self):
        def names(c, e):
            t = e["_tok"]
            if isinstance(t, NameStr):
                mk = lambda pre: NameStr(pre + t.prefix, t.atom, t.suffix)
            else:
                mk = lambda pre: pre + t
            return c.attr(e["self"], "_name"), (mk("zpartd-"),), mk("shuffle-partition-"), (mk("barrier-"),)

        def is_(c, a, b):
            return (c.eq(a, b) is True) if c.symbolic else a == b

        def outputs(c, e, r):
            own, store, part, bar = names(c, e)
            return c.forall(
                0, c.len(e["P"]),
                lambda j: c.holds_at(r, (own, j), lambda v: len(v) == 5 and c.And(c.eq(v[0], c.fn("collect")), c.eq(v[1], store), c.eq(v[2], c.at(e["P"], j)), c.eq(v[3], c.attr(e["self"], "frame._meta")), c.eq(v[4], bar))),
            )

        def writes(c, e, r):
            own, store, part, bar = names(c, e)
            return c.forall(
                0, e["n_in"],
                lambda i: c.holds_at(
                    r, (part, i),
                    lambda v: len(v) == 5 and c.And(c.eq(v[0], c.attr(e["self"], "_shuffle_group")), c.eq(v[1], (c.attr(e["self"], "frame._name"), i)), c.eq(v[2], c.attr(e["self"], "partitioning_index")), c.eq(v[3], e["P"]), c.eq(v[4], store)),
                ),
            )

        def barrier(c, e, r):
            own, store, part, bar = names(c, e)
            if not c.symbolic:
                # concretely the clause is stated semantically: every write task is a (transitive) dependency of the barrier key
                # inside the layer - a barrier built in stages is fine as long as it still waits for EVERY writer
                from dask.core import get_dependencies

                seen, todo = set(), [bar]
                while todo:
                    k = todo.pop()
                    if k in seen or k not in r:
                        continue
                    seen.add(k)
                    todo.extend(get_dependencies(r, k))
                return all((part, i) in seen for i in range(e["n_in"]))
            return c.holds_at(r, bar, lambda v: len(v) == 2 and c.And(c.eq(v[0], c.fn("barrier")), c.eq(c.len(v[1]), e["n_in"]), c.forall(0, e["n_in"], lambda i: c.eq(c.at(v[1], i), (part, i)))))

        def store_defined(c, e, r):
            own, store, part, bar = names(c, e)
            return c.defined(r, store)

        def k3(c, e, r):
            own, store, part, bar = names(c, e)

            def one(k, v):
                if len(k) == 1:
                    return c.Or(c.eq(k, store), c.eq(k, bar))
                if len(k) != 2:
                    return False
                if is_(c, k[0], own):
                    return c.And(k[1] >= 0, k[1] < c.len(e["P"]))
                return c.And(c.eq(k[0], part), k[1] >= 0, k[1] < e["n_in"])

            return c.forall_entries(r, one)

        return {"K1-outputs-collect-their-group-after-the-barrier": outputs, "every-input-partition-is-written": writes, "barrier-waits-for-every-write": barrier, "K2-store-defined": store_defined, "K3-only-own-keys": k3}

    def concrete_globals(self):
        import dask_expr._shuffle as m

        return vars(m)

    def concrete_inputs(self):
        for n_in in range(1, 4):
            for n_out in range(1, 4):
                yield {"n_in": n_in, "n_out": n_out, "P": None}
                for P in ([0], [n_out - 1], list(range(n_out))[::-1]):
                    yield {"n_in": n_in, "n_out": n_out, "P": P}
        # the options a user can pass through shuffle(..., max_branch=k) reach this class as well: more inputs than the fan-in, not a multiple of it
        for n_in in (3, 5, 7):
            for mb in (2, 3):
                yield {"n_in": n_in, "n_out": 2, "P": None, "options": {"max_branch": mb}}

    def concrete_env(self, inputs):
        return None

    def run_concrete(self, inputs):
        from dask_expr._shuffle import DiskShuffle

        fr = stub_frame(npartitions=inputs["n_in"])
        obj = DiskShuffle(fr, "x", inputs["n_out"], False, inputs.get("options", {}), inputs["P"])
        layer = obj._layer()
        tok = [k[0] for k in layer if len(k) == 1 and k[0].startswith("zpartd-")][0][len("zpartd-"):]
        return {"self": obj, "n_in": inputs["n_in"], "n_out": inputs["n_out"], "P": obj._partitions, "_tok": tok}, layer

    def inputs_from_model(self, model, sz, sym):
        n_in, n_out, P = sym.read_int(model, "n_in"), sym.read_int(model, "n_out"), sym.read_seq(model, "P")
        if n_in is None or n_out is None or P is None or not (0 <= n_in <= 30 and 1 <= n_out <= 30 and len(P) <= 30):
            return None
        return {"n_in": max(1, n_in), "n_out": n_out, "P": list(P)}


# ---------------------------------------------------------------------------------------------
class TreeReduceLayer(Spec):
    """TreeReduce._layer: the input keys are combined level by level in consecutive batches of `split_every` until at
    most `split_every` keys remain (no combine level at all for split_every=False); the final task aggregates the keys of
    the last level.  Level L has N(L) keys, N(0) = frame.npartitions, N(L+1) = ceil(N(L) / split_every); batch i of level
    L+1 combines keys i*s .. min((i+1)*s, N(L))-1 of level L in order.  Hence every key of every level is consumed by
    exactly one task of the next level, every referenced key is an input partition in range or defined in this layer,
    and the knob split_every only chooses the tree shape."""

    file, qualname, props = "dask_expr/_reductions.py", "TreeReduce._layer", ["C09", "C10", "C02"]
    case = {"split_every": 2, "combine_kwargs": False}
    assumptions = [
        "toolz.partition_all(n, seq) yields consecutive slices of width n (the last one shorter), assumed; the concrete cross-check runs the real function",
        "Expr.__dask_keys__ of the input frame is [(frame._name, i) for i < frame.npartitions] (assumed callee contract; C09's run-time contract checks it on every corpus graph)",
        "split_every is an integer >= 2 or False (ApplyConcatApply / TreeReduce callers validate it: 'split_every must be greater than 1 or False'); enumerated values 2, 3, 4, 8, 32 and False, the partition count stays symbolic",
    ]

    def cases(self):
        for se in (False, 2, 3, 4, 8, 32):
            for kw in (False, True):
                yield {"split_every": se, "combine_kwargs": kw}

    def make_inputs(self, ex, sym, fr):
        se, kw = self.case["split_every"], self.case["combine_kwargs"]
        n_in = sym.int("n_in", lo=1)
        N = fresh_fun("N", z3.IntSort(), z3.IntSort())
        L = z3.Int("ax_L")
        sym.pc += [N(0) == n_in]
        if se is not False:
            sym.pc += [z3.ForAll([L], z3.Implies(L >= 0, N(L + 1) == (N(L) + se - 1) / se))]
        frame = _dep("self.frame", n_in)
        fname = frame.attrs["_name"]
        own = NameStr("", "self")

        def dask_keys(ex_, fr_):
            return Seq(n_in, lambda k: (fname, k), "list")

        dask_keys._is_contract_fn = True
        frame.attrs["__dask_keys__"] = dask_keys
        s = Obj(
            "self",
            {"frame": frame, "_name": own, "split_every": se, "combine": Opaque("self.combine"), "combine_kwargs": ({"k": 1} if kw else {}), "aggregate": Opaque("self.aggregate"), "aggregate_kwargs": Opaque("self.aggregate_kwargs")},
            cls=("TreeReduce", "Expr"),
        )
        self._N, self._own, self._fname = N, own, fname
        return {"self": s, "n_in": n_in, "_N": lambda l, N=N: N(zint(l)), "_se": se}

    # closed forms: `keys` after _i levels; `new_keys` after _i batches of the current level
    while_closed = {0: {"keys": lambda ex, fr, env: ex.spec._keys_at(env["_i"])}}
    acc_closed = {1: {0: lambda ex, fr, env: Seq(env["_i"], lambda k, j=env["j"], own=ex.spec._own: (own, j, k), "list")}}
    invariants = {0: lambda c, e: c.And(c.eq(e["j"], e["_i"] + 1), e["_N"](e["_i"]) >= 1)}

    def _keys_at(self, lvl):
        N, own, fname = self._N, self._own, self._fname
        lvl_ = simp_int_(lvl)
        if isinstance(lvl_, int) and lvl_ == 0:
            return Seq(N(z3.IntVal(0)), lambda k: (fname, k), "list")
        return Seq(N(zint(lvl)), lambda k, lvl=lvl: _ite_key(zint(lvl) == 0, (fname, k), (own, lvl, k)), "list")

    def call(self, ex, fr, name, args, kwargs):
        if name == "toolz.partition_all":
            n, seq = args
            if not isinstance(n, int) or isinstance(n, bool) or n < 1:
                return NotImplemented
            sq = ex.seq_of(seq, fr)
            ln = zint(sq.length)
            return Seq(z3.simplify((ln + n - 1) / n), lambda i, sq=sq, n=n, ln=ln: Seq(z3.simplify(z3.If(ln - zint(i) * n < n, ln - zint(i) * n, z3.IntVal(n))), lambda k, i=i: sq.get(z3.simplify(zint(i) * n + zint(k))), "tuple"))
        return NotImplemented

    def ensures(self):
        def is_(c, a, b):
            return (c.eq(a, b) is True) if c.symbolic else a == b

        def T_of(c, e):
            return c.fr.env["_T"] if c.symbolic else e["_T"]

        def level_key(c, e, lvl, k):
            own, fname = c.attr(e["self"], "_name"), c.attr(e["self"], "frame._name")
            if c.symbolic:
                return _ite_key(zint(lvl) == 0, (fname, k), (own, lvl, k))
            return (fname, k) if lvl == 0 else (own, lvl, k)

        def final(c, e, r):
            own = c.attr(e["self"], "_name")
            T = T_of(c, e)
            se = e["_se"]
            shape = lambda v: len(v) == 4 and c.And(
                c.eq(v[0], c.fn("apply")), c.eq(v[1], c.attr(e["self"], "aggregate")), c.eq(v[3], c.attr(e["self"], "aggregate_kwargs")), c.eq(c.len(v[2]), 1),
                c.eq(c.len(c.at(v[2], 0)), e["_N"](T)),
                c.forall(0, e["_N"](T), lambda k: c.eq(c.at(c.at(v[2], 0), k), level_key(c, e, T, k))),
                True if se is False else (e["_N"](T) <= se),
                (c.eq(T, 0) if se is False else True),
            )
            return c.holds_at(r, (own, 0), shape)

        def levels(c, e, r):
            own, fname = c.attr(e["self"], "_name"), c.attr(e["self"], "frame._name")
            se = e["_se"]

            def one(k, v):
                if len(k) == 2:
                    return c.And(c.eq(k[0], own), c.eq(k[1], 0))
                if len(k) != 3 or se is False:
                    return False
                lvl, i = k[1], k[2]
                batch = v[1] if len(v) == 2 else c.at(v[2], 0)
                head = c.eq(v[0], c.attr(e["self"], "combine")) if len(v) == 2 else c.And(len(v) == 4, c.eq(v[0], c.fn("apply")), c.eq(v[1], c.attr(e["self"], "combine")), c.eq(c.len(v[2]), 1), c.eq(v[3], c.attr(e["self"], "combine_kwargs")))
                prev = e["_N"](lvl - 1)
                width = c.min(se, prev - i * se)
                return c.And(
                    c.eq(k[0], own), lvl >= 1, i >= 0, i < e["_N"](lvl), head,
                    c.eq(c.len(batch), width), width >= 1,
                    c.forall(0, width, lambda m: c.And(c.eq(c.at(batch, m), level_key(c, e, lvl - 1, i * se + m)), i * se + m < prev)),
                )

            return c.forall_entries(r, one)

        def every_level_defined(c, e, r):
            own = c.attr(e["self"], "_name")
            T = T_of(c, e)
            return c.forall(1, T + 1, lambda lvl: c.forall(0, e["_N"](lvl), lambda i: c.defined(r, (own, lvl, i), witness=[lvl - 1, i])))

        return {"final-aggregates-the-last-level": final, "each-batch-combines-consecutive-keys-of-the-previous-level": levels, "K2-every-level-key-defined": every_level_defined}

    def concrete_globals(self):
        import dask_expr._reductions as m

        return vars(m)

    def concrete_inputs(self):
        for se in (False, 2, 3, 4, 8):
            for kw in (False, True):
                for n in (1, 2, 3, 4, 5, 7, 8, 9, 17, 33):
                    yield {"n_in": n, "split_every": se, "combine_kwargs": kw}

    def concrete_env(self, inputs):
        return None

    def run_concrete(self, inputs):
        from dask_expr._reductions import TreeReduce

        from vf.pyvc.spec import SkipInput

        fr = stub_frame(npartitions=inputs["n_in"])
        se = inputs["split_every"]
        obj = TreeReduce(fr, "sum", fr._meta, _tr_combine, _tr_aggregate, ({"k": 1} if inputs["combine_kwargs"] else None), {"z": 2}, se)
        layer = obj._layer()
        n = inputs["n_in"]
        Ns = [n]
        while se is not False and Ns[-1] > se:
            Ns.append(-(-Ns[-1] // se))
        return {"self": obj, "n_in": n, "_N": lambda l, Ns=Ns: Ns[l] if 0 <= l < len(Ns) else -1, "_se": se, "_T": len(Ns) - 1}, layer

    def inputs_from_model(self, model, sz, sym):
        n = sym.read_int(model, "n_in")
        if n is None or not (1 <= n <= 2000):
            return None
        return {"n_in": n, "split_every": self.case["split_every"], "combine_kwargs": self.case["combine_kwargs"]}


def _tr_combine(xs, **kw):
    return xs


def _tr_aggregate(xs, **kw):
    return xs


def simp_int_(v):
    from vf.pyvc.values import simp_int

    return simp_int(v)


def _ite_key(cond, a, b):
    """A key that is `a` (input partition, 2 components) at level 0 and `b` (own key, 3 components) above."""
    from vf.pyvc.values import Ite, ite

    cond = z3.simplify(cond)
    if z3.is_true(cond):
        return a
    if z3.is_false(cond):
        return b
    return Ite(cond, a, b)


# ---------------------------------------------------------------------------------------------
class TaskShuffleTail(Spec):
    """TaskShuffle._layer, final block (`if npartitions != npartitions_input:`): after the staged shuffle into
    npartitions_input partitions named `name`, stage partition q is regrouped by the final partition number
    (shuffle_group_2) and output i of the selection P takes group P[i] of stage partition P[i] % npartitions_input."""

    file, qualname, props = "dask_expr/_shuffle.py", "TaskShuffle._layer", ["C12", "C11", "C09"]
    scenario = "regroup-tail"
    body_from = "if npartitions != npartitions_input"
    assumptions = ["statement slice: the staged part of TaskShuffle._layer (digits / insert plan) is outside tier P (tier S checks it); the entry state of the slice is abstract: dsk = any mapping, name = the last stage's name"]

    def make_inputs(self, ex, sym, fr):
        from vf.pyvc.values import DictState

        n_in, n_out = sym.int("n_in"), sym.int("n_out")
        P = sym.seq("P", kind="list")
        base = Opaque("staged-layer")
        dsk = ex.new_dict(fr, DictState((), base=base))
        s = Obj(
            "self",
            {"_name": NameStr("", "self"), "_partitions": P, "ignore_index": Opaque("ignore_index"), "partitioning_index": Opaque("partitioning_index")},
            cls=("TaskShuffle", "SimpleShuffle", "Expr"),
        )
        return {"self": s, "dsk": dsk, "name": NameStr("stage-", "self"), "npartitions": n_out, "npartitions_input": n_in, "P": P, "_base": base, "n_in": n_in, "n_out": n_out}

    def requires(self):
        return {
            "staged-only-for-many-inputs": lambda c, e: e["n_in"] >= 2,  # the staged path needs npartitions_input > max_branch >= 1
            "n_out>=1": lambda c, e: e["n_out"] >= 1,
            "selection-in-range": lambda c, e: c.forall(0, c.len(e["P"]), lambda g: c.And(c.at(e["P"], g) >= 0, c.at(e["P"], g) < e["n_out"])),
        }

    def ensures(self):
        def names(c, e):
            own = c.attr(e["self"], "_name")
            st = e["name"]
            rg = NameStr("repartition-group-" + st.prefix, st.atom, st.suffix) if isinstance(st, NameStr) else "repartition-group-" + st
            return own, st, rg

        def is_(c, a, b):
            return (c.eq(a, b) is True) if c.symbolic else a == b

        differ = lambda c, e: c.Not(c.eq(e["n_out"], e["n_in"]))

        def outputs(c, e, r):
            own, st, rg = names(c, e)
            return c.Implies(
                differ(c, e),
                c.forall(
                    0, c.len(e["P"]),
                    lambda i: c.holds_at(r, (own, i), lambda v: len(v) == 3 and c.And(c.eq(v[0], c.fn("shuffle_group_get")), c.eq(v[1], (rg, c.at(e["P"], i) % e["n_in"])), c.eq(v[2], c.at(e["P"], i)))),
                ),
            )

        def regroup(c, e, r):
            own, st, rg = names(c, e)
            return c.Implies(
                differ(c, e),
                c.forall(
                    0, e["n_in"],
                    lambda q: c.holds_at(
                        r, (rg, q),
                        lambda v: len(v) == 5 and c.And(c.eq(v[0], c.fn("shuffle_group_2")), c.eq(v[1], (st, q)), c.eq(v[2], c.attr(e["self"], "partitioning_index")), c.eq(v[4], e["n_out"])),
                    ),
                ),
            )

        def rest(c, e, r):
            own, st, rg = names(c, e)

            def mine(k):
                if len(k) != 2:
                    return False
                if is_(c, k[0], own):
                    return c.And(k[1] >= 0, k[1] < c.len(e["P"]))
                if is_(c, k[0], rg):
                    return c.And(k[1] >= 0, k[1] < e["n_in"])
                return False

            return c.dict_rest_is(r, e["_base"], mine)

        return {"outputs-pick-final-group-of-stage-partition": outputs, "regroup-every-stage-partition": regroup, "staged-part-untouched-K3": rest}

    def concrete_globals(self):
        import dask_expr._shuffle as m

        return vars(m)

    def concrete_inputs(self):
        for n_in, n_out in ((3, 5), (3, 2), (4, 7), (5, 5)):
            for P in (None, [0], [n_out - 1, 0], [1, 1]):
                yield {"n_in": n_in, "n_out": n_out, "P": P}

    def concrete_env(self, inputs):
        return None

    def run_concrete(self, inputs):
        from dask_expr._shuffle import TaskShuffle

        fr = stub_frame(npartitions=inputs["n_in"])
        obj = TaskShuffle(fr, "x", inputs["n_out"], False, {"max_branch": 2}, inputs["P"])
        P = list(obj._partitions)
        layer = obj._layer()
        staged = len(P) > 2 and inputs["n_in"] > 2
        own = obj._name
        # the name of the last stage is recovered from the real layer (any key that is not one of the tail's)
        if inputs["n_in"] != inputs["n_out"] and staged:
            rg = [k[0] for k in layer if isinstance(k[0], str) and k[0].startswith("repartition-group-")][0]
            st = rg[len("repartition-group-"):]
            base = {k: v for k, v in layer.items() if k[0] not in (own, rg)}
        else:
            # unstaged path (SimpleShuffle._layer ran instead), or equal counts (the block is skipped): nothing to check
            raise _skip()
        return {"self": obj, "name": st, "P": P, "_base": base, "n_in": inputs["n_in"], "n_out": inputs["n_out"]}, layer

    def inputs_from_model(self, model, sz, sym):
        return None


def _skip():
    from vf.pyvc.spec import SkipInput

    return SkipInput("input outside the slice")


def _concat_list_closed(n, part_out):
    return Seq(n, lambda k: (NameStr("inter-", "self"), part_out, k), "list")


# ---------------------------------------------------------------------------------------------
class BroadcastJoinLayerBase(Spec):
    """BroadcastJoin._layer: output i merges partition P[i] of the non-broadcast side with EVERY partition of the
    broadcast side (pre-split by hash unless how='inner') and concatenates the results; the broadcast frame's piece
    is the LEFT merge argument exactly when the broadcast side is the left input."""

    file, qualname, props = "dask_expr/_merge.py", "BroadcastJoin._layer", ["C09", "C10", "C11", "C02", "C01"]
    how, side = "inner", "left"

    acc_closed = {
        # _concat_list after t inner iterations: [(inter_name, part_out, 0) .. (inter_name, part_out, t-1)]
        # (stated over the contract's own vocabulary, not the function's local names: part_out is P[outer index])
        1: {0: lambda ex, fr, env: _concat_list_closed(env["_i"], ex.seq_of(env["self"].attrs["_partitions"], fr).get(env["_outer"][0]))},
    }

    def make_inputs(self, ex, sym, fr):
        nl, nr = sym.int("n_left", lo=1), sym.int("n_right", lo=1)
        P = sym.seq("P", kind="list")
        left, right = _dep("self.left", nl), _dep("self.right", nr)
        attrs = {
            "left": left, "right": right, "_name": NameStr("", "self"), "_partitions": P, "how": self.how, "broadcast_side": self.side,
        }
        for a in ("indicator", "left_index", "right_index", "suffixes", "_meta", "left_on", "right_on"):
            attrs[a] = Opaque("self." + a)
        s = Obj("self", attrs, cls=("BroadcastJoin", "Merge", "Expr"))
        return {"self": s, "P": P, "n_left": nl, "n_right": nr}

    def ensures(self):
        side, how = self.side, self.how

        def parts(c, e):
            own = c.attr(e["self"], "_name")
            if isinstance(own, NameStr):
                split, inter = NameStr("split-" + own.prefix, own.atom, own.suffix), NameStr("inter-" + own.prefix, own.atom, own.suffix)
            else:
                split, inter = "split-" + own, "inter-" + own
            bc, ot = ("left", "right") if side == "left" else ("right", "left")
            return own, split, inter, c.attr(e["self"], bc + "._name"), c.attr(e["self"], ot + "._name"), (e["n_left"] if side == "left" else e["n_right"]), c.attr(e["self"], ot + "_on")

        def is_(c, a, b):
            return (c.eq(a, b) is True) if c.symbolic else a == b

        def outputs(c, e, r):
            own, split, inter, bname, oname, bsize, _ = parts(c, e)
            return c.forall(
                0, c.len(e["P"]),
                lambda i: c.holds_at(
                    r, (own, i),
                    lambda v: len(v) == 2 and c.And(c.eq(v[0], c.fn("_concat_wrapper")), c.eq(c.len(v[1]), bsize), c.forall(0, bsize, lambda j: c.eq(c.at(v[1], j), (inter, c.at(e["P"], i), j)))),
                ),
            )

        def entries(c, e, r):
            own, split, inter, bname, oname, bsize, other_on = parts(c, e)

            def one(k, v):
                if len(k) == 3 and is_(c, k[0], inter):
                    po, j = k[1], k[2]
                    piece = (oname, po) if how == "inner" else (c.fn("operator.getitem"), (split, po), j)
                    bc = (bname, j)
                    args = [bc, piece] if side == "left" else [piece, bc]
                    return c.And(len(v) == 4, c.eq(v[0], c.fn("apply")), c.eq(v[1], c.fn("_merge_chunk_wrapper")), c.eq(c.len(v[2]), 2), c.eq(c.at(v[2], 0), args[0]), c.eq(c.at(v[2], 1), args[1]), j >= 0, j < bsize)
                if len(k) == 2 and is_(c, k[0], split):
                    return how != "inner" and c.And(len(v) == 4, c.eq(v[0], c.fn("_split_partition")), c.eq(v[1], (oname, k[1])), c.eq(v[2], other_on), c.eq(v[3], bsize))
                return len(k) == 2 and c.And(c.eq(k[0], own), k[1] >= 0, k[1] < c.len(e["P"]))

            return c.forall_entries(r, one)

        def k2(c, e, r):
            own, split, inter, bname, oname, bsize, _ = parts(c, e)
            refs = c.forall(0, c.len(e["P"]), lambda i: c.forall(0, bsize, lambda j: c.defined(r, (inter, c.at(e["P"], i), j), witness=[i, j])))
            if how == "inner":
                return refs
            return c.And(refs, c.forall(0, c.len(e["P"]), lambda i: c.defined(r, (split, c.at(e["P"], i)), witness=[i])))

        return {"K1-outputs-concat-all-broadcast-pieces": outputs, "K3-merge-argument-order-and-splits": entries, "K2-referenced-keys-defined": k2}

    def concrete_globals(self):
        import dask_expr._merge as m

        return vars(m)

    def concrete_inputs(self):
        for nb in (1, 2, 3):
            for no in (1, 3):
                for P in (None, [0], [no - 1, 0]):
                    yield {"nb": nb, "no": no, "P": P}

    def concrete_env(self, inputs):
        return None

    def run_concrete(self, inputs):
        from dask_expr._merge import BroadcastJoin

        nl, nr = (inputs["nb"], inputs["no"]) if self.side == "left" else (inputs["no"], inputs["nb"])
        l, r = stub_frame(npartitions=nl, tag="L"), stub_frame(npartitions=nr, tag="R")
        obj = BroadcastJoin(l, r, self.how, "x", "x", False, False, ("_x", "_y"), False, inputs["P"], self.side)
        return {"self": obj, "P": list(obj._partitions), "n_left": nl, "n_right": nr}, obj._layer()

    def inputs_from_model(self, model, sz, sym):
        return None


class BroadcastDep(Spec):
    """Blockwise._broadcast_dep: only a single-partition operand of lower dimensionality is broadcast."""

    file, qualname, props = "dask_expr/_expr.py", "Blockwise._broadcast_dep", ["C02", "C09", "C14"]

    def make_inputs(self, ex, sym, fr):
        np_, nd, snd = sym.int("dep_npartitions", lo=1), sym.int("dep_ndim", lo=0, hi=2), sym.int("self_ndim", lo=0, hi=2)
        dep = Obj("dep", {"npartitions": np_, "ndim": nd, "_name": NameStr("", "dep")}, cls=("Expr",))
        s = Obj("self", {"ndim": snd}, cls=("Blockwise", "Expr"))
        return {"self": s, "dep": dep, "dep_npartitions": np_, "dep_ndim": nd, "self_ndim": snd}

    def bind_call(self, ex, fr, env):
        d = env["dep"]
        return dict(env, dep_npartitions=d.attrs["npartitions"], dep_ndim=d.attrs["ndim"], self_ndim=env["self"].attrs["ndim"])

    def ensures(self):
        return {
            "broadcast-iff-single-partition-of-lower-dim": lambda c, e, r: c.eq(c.truth(r), c.And(c.eq(e["dep_npartitions"], 1), e["dep_ndim"] < e["self_ndim"])),
        }

    def fresh_result(self, ex, fr, env):
        from vf.pyvc.values import fresh_bool

        return fresh_bool("bcast")

    def concrete_inputs(self):
        for n in (1, 2, 5):
            for nd in (0, 1, 2):
                for snd in (1, 2):
                    yield {"n": n, "nd": nd, "snd": snd}

    def _objs(self, inputs):
        import pandas as pd

        from dask_expr._expr import Abs

        metas = {0: 1.5, 1: pd.Series([], dtype="float64", name="x"), 2: pd.DataFrame({"x": pd.Series([], dtype="float64")})}
        dep = stub_frame(npartitions=inputs["n"], meta=metas[inputs["nd"]], tag="dep")
        me = stub_frame(npartitions=max(inputs["n"], 3), meta=metas[inputs["snd"]], tag="me")
        return Abs(me), dep

    def run_concrete(self, inputs):
        obj, dep = self._objs(inputs)
        return {"self": obj, "dep": dep, "dep_npartitions": inputs["n"], "dep_ndim": inputs["nd"], "self_ndim": inputs["snd"]}, obj._broadcast_dep(dep)

    def inputs_from_model(self, model, sz, sym):
        return {"n": sym.read_int(model, "dep_npartitions"), "nd": sym.read_int(model, "dep_ndim"), "snd": max(1, sym.read_int(model, "self_ndim"))}


class BlockwiseArg(Spec):
    """Blockwise._blockwise_arg: an expression operand becomes the key of ITS partition i (or of its only partition
    when it is broadcast) - always a partition that exists (K2); anything else is passed through unchanged."""

    file, qualname, props = "dask_expr/_expr.py", "Blockwise._blockwise_arg", ["C02", "C09", "C05"]
    case = {"kind": "expr"}

    def cases(self):
        return [{"kind": "expr"}, {"kind": "literal"}]

    def make_inputs(self, ex, sym, fr):
        from vf.pyvc.spec import as_callee, contract_fn

        n, np_, nd, snd, i = sym.int("npartitions", lo=1), sym.int("dep_npartitions", lo=1), sym.int("dep_ndim", lo=0, hi=2), sym.int("self_ndim", lo=0, hi=2), sym.int("i")
        arg = Obj("arg", {"npartitions": np_, "ndim": nd, "_name": NameStr("", "arg")}, cls=("Expr",)) if self.case["kind"] == "expr" else Opaque("literal")
        inner = as_callee(BroadcastDep(), ["self", "dep"])

        @contract_fn
        def bdep(ex_, fr_, dep):
            return inner(ex_, fr_, s, dep)

        s = Obj("self", {"ndim": snd, "npartitions": n, "_broadcast_dep": bdep}, cls=("Blockwise", "Expr"))
        return {"self": s, "arg": arg, "i": i, "npartitions": n, "dep_npartitions": np_, "dep_ndim": nd, "self_ndim": snd}

    def requires(self):
        return {
            "index-in-range": lambda c, e: c.And(e["i"] >= 0, e["i"] < e["npartitions"]),
            # Blockwise._divisions asserts that every operand that is not broadcast has the divisions of the
            # reference operand, hence the same number of partitions (expressions are aligned before they are combined)
            "operands-co-aligned": lambda c, e: c.Or(c.And(c.eq(e["dep_npartitions"], 1), e["dep_ndim"] < e["self_ndim"]), c.eq(e["dep_npartitions"], e["npartitions"])),
        }

    def ensures(self):
        if self.case["kind"] == "literal":
            return {"literal-passed-through": lambda c, e, r: r is e["arg"] if c.symbolic else r == e["arg"]}
        name = lambda c, e: c.attr(e["arg"], "_name")
        return {
            "K2-existing-partition-of-the-operand": lambda c, e, r: c.And(len(r) == 2, c.eq(r[0], name(c, e)), r[1] >= 0, r[1] < e["dep_npartitions"]),
            "partition-i-unless-broadcast": lambda c, e, r: c.eq(r[1], c.ite(c.And(c.eq(e["dep_npartitions"], 1), e["dep_ndim"] < e["self_ndim"]), 0, e["i"])),
        }

    def concrete_inputs(self):
        for k in BroadcastDep().concrete_inputs():
            for i in (0, 2):
                yield dict(k, i=i, kind="expr")
        yield {"kind": "literal", "i": 1, "n": 1, "nd": 1, "snd": 1}

    def concrete_env(self, inputs):
        return None

    def run_concrete(self, inputs):
        self.case = {"kind": inputs["kind"]}
        obj, dep = BroadcastDep()._objs(inputs)
        if inputs["kind"] == "literal":
            return {"arg": "lit"}, obj._blockwise_arg("lit", inputs["i"])
        bc = inputs["n"] == 1 and inputs["nd"] < inputs["snd"]
        if not bc and inputs["n"] != obj.npartitions:
            from vf.pyvc.spec import SkipInput

            raise SkipInput("operands not co-aligned")
        return {"arg": dep, "i": inputs["i"], "npartitions": obj.npartitions, "dep_npartitions": inputs["n"], "dep_ndim": inputs["nd"], "self_ndim": inputs["snd"]}, obj._blockwise_arg(dep, inputs["i"])

    def inputs_from_model(self, model, sz, sym):
        return None


class ExprLayer(Spec):
    """Expr._layer (the default layer of every expression that only defines _task): exactly one task per output
    partition, output i holding _task(i) - K1 (all outputs defined) and K3 (only own keys)."""

    file, qualname, props = "dask_expr/_core.py", "Expr._layer", ["C09", "C06", "C14"]

    def make_inputs(self, ex, sym, fr):
        from vf.pyvc.spec import contract_fn

        n = sym.int("npartitions", lo=0)
        task = fresh_fun("task", z3.IntSort(), z3.IntSort())

        @contract_fn
        def _task(ex_, fr_, i):
            return task(zint(i))

        s = Obj("self", {"_name": NameStr("", "self"), "npartitions": n, "_task": _task}, cls=("Expr",))
        return {"self": s, "n": n, "_task": lambda i, task=task: task(zint(i))}

    def ensures(self):
        own = lambda c, e: c.attr(e["self"], "_name")
        return {
            "K1-output-i-is-task-i": lambda c, e, r: c.forall(0, e["n"], lambda i: c.holds_at(r, (own(c, e), i), lambda v: c.eq(v, e["_task"](i)))),
            "K3-only-own-keys": lambda c, e, r: c.forall_entries(r, lambda k, v: len(k) == 2 and c.And(c.eq(k[0], own(c, e)), k[1] >= 0, k[1] < e["n"])),
        }

    def concrete_inputs(self):
        for n in (1, 2, 5):
            yield {"n": n}

    def concrete_env(self, inputs):
        return None

    def run_concrete(self, inputs):
        import pandas as pd

        import dask_expr as dx
        from dask_expr._core import Expr

        obj = (dx.from_pandas(pd.DataFrame({"x": range(10)}), npartitions=inputs["n"]) + 1).expr
        return {"self": obj, "n": obj.npartitions, "_task": lambda i, obj=obj: obj._task(i)}, Expr._layer(obj)

    def inputs_from_model(self, model, sz, sym):
        return None


class BlockwiseTask(Spec):
    """Blockwise._task(index): the operation applied to the arguments _blockwise_arg(op, index) of ALL operands, in
    operand order (as positional arguments, or through apply(...) with the keyword arguments)."""

    file, qualname, props = "dask_expr/_expr.py", "Blockwise._task", ["C02", "C09", "C14", "C05"]
    case = {"kwargs": False}

    def cases(self):
        return [{"kwargs": False}, {"kwargs": True}]

    def make_inputs(self, ex, sym, fr):
        from vf.pyvc.spec import contract_fn

        ops = sym.seq("ops", kind="list")
        index = sym.int("index")
        BA = fresh_fun("blockwise_arg", z3.IntSort(), z3.IntSort(), z3.IntSort())

        @contract_fn
        def barg(ex_, fr_, op, i):
            return BA(zint(op), zint(i))

        kw = {"k": 1} if self.case["kwargs"] else {}
        s = Obj("self", {"_args": ops, "_kwargs": kw, "operation": Opaque("self.operation"), "_blockwise_arg": barg}, cls=("Blockwise", "Expr"))
        return {"self": s, "ops": ops, "index": index, "_BA": lambda op, i, BA=BA: BA(zint(op), zint(i)), "_kw": self.case["kwargs"]}

    def ensures(self):
        def shape(c, e, r):
            n = c.len(e["ops"])
            arg = lambda k: e["_BA"](c.at(e["ops"], k), e["index"])
            if e["_kw"]:
                return c.And(len(r) == 4, c.eq(r[0], c.fn("apply")), c.eq(r[1], c.attr(e["self"], "operation")), c.eq(r[3], c.attr(e["self"], "_kwargs")), c.eq(c.len(r[2]), n), c.forall(0, n, lambda k: c.eq(c.at(r[2], k), arg(k))))
            return c.And(c.eq(c.len(r), n + 1), c.eq(c.at(r, 0), c.attr(e["self"], "operation")), c.forall(0, n, lambda k: c.eq(c.at(r, k + 1), arg(k))))

        return {"operation-applied-to-every-operand-argument-in-order": shape}

    def concrete_globals(self):
        import dask_expr._expr as m

        return vars(m)

    def concrete_inputs(self):
        for kw in (False, True):
            for nops in (1, 2, 3):
                yield {"kwargs": kw, "nops": nops, "index": 1}

    def concrete_env(self, inputs):
        return None

    def run_concrete(self, inputs):
        from dask_expr._expr import Blockwise

        class _B:
            operation = staticmethod(max)

            def __init__(s, ops, kw):
                s._args, s._kwargs = ops, kw

            def _blockwise_arg(s, op, i):
                return ("arg", op, i)

        obj = _B(list(range(10, 10 + inputs["nops"])), {"k": 1} if inputs["kwargs"] else {})
        r = Blockwise._task(obj, inputs["index"])
        return {"self": obj, "ops": obj._args, "index": inputs["index"], "_BA": lambda op, i: ("arg", op, i), "_kw": inputs["kwargs"]}, r

    def inputs_from_model(self, model, sz, sym):
        return None


class EnforceDivisionsTask(Spec):
    """EnforceRuntimeDivisions._task(index): the run-time check of partition `index` is given that partition and ITS
    bounds divisions[index], divisions[index + 1], and is told whether it is the last partition (whose upper bound is
    inclusive)."""

    file, qualname, props = "dask_expr/_expr.py", "EnforceRuntimeDivisions._task", ["C06"]

    def make_inputs(self, ex, sym, fr):
        from vf.pyvc.spec import contract_fn

        ops = sym.seq("ops", kind="list")
        n = sym.int("npartitions", lo=1)
        divs = sym.seq("divs", kind="tuple")
        index = sym.int("index")
        BA = fresh_fun("blockwise_arg", z3.IntSort(), z3.IntSort(), z3.IntSort())

        @contract_fn
        def barg(ex_, fr_, op, i):
            return BA(zint(op), zint(i))

        s = Obj("self", {"_args": ops, "operation": Opaque("self.operation"), "_blockwise_arg": barg, "divisions": divs, "npartitions": n}, cls=("EnforceRuntimeDivisions", "Blockwise", "Expr"))
        return {"self": s, "ops": ops, "index": index, "n": n, "divs": divs, "_BA": lambda op, i, BA=BA: BA(zint(op), zint(i))}

    def requires(self):
        return {"index-in-range": lambda c, e: c.And(e["index"] >= 0, e["index"] < e["n"]), "divisions-length": lambda c, e: c.eq(c.len(e["divs"]), e["n"] + 1)}

    def ensures(self):
        def shape(c, e, r):
            m = c.len(e["ops"])
            return c.And(
                c.eq(c.len(r), m + 5), c.eq(c.at(r, 0), c.attr(e["self"], "operation")),
                c.forall(0, m, lambda k: c.eq(c.at(r, k + 1), e["_BA"](c.at(e["ops"], k), e["index"]))),
                c.eq(c.at(r, m + 1), e["index"]), c.eq(c.at(r, m + 2), c.at(e["divs"], e["index"])), c.eq(c.at(r, m + 3), c.at(e["divs"], e["index"] + 1)),
            )

        def last_flag(c, e, r):
            m = c.len(e["ops"])
            flag = c.at(r, m + 4)
            return (c.truth(flag) == (e["index"] == e["n"] - 1)) if c.symbolic else (flag == (e["index"] == e["n"] - 1))

        return {"partition-checked-against-its-own-bounds": shape, "last-partition-flag": last_flag}

    def concrete_globals(self):
        import dask_expr._expr as m

        return vars(m)

    def concrete_inputs(self):
        for n in (1, 2, 4):
            for index in range(n):
                yield {"n": n, "index": index}

    def concrete_env(self, inputs):
        return None

    def run_concrete(self, inputs):
        from dask_expr._expr import EnforceRuntimeDivisions

        class _B:
            operation = staticmethod(max)

            def __init__(s, n):
                s._args, s.npartitions, s.divisions = [7], n, tuple(range(100, 100 + 10 * (n + 1), 10))

            def _blockwise_arg(s, op, i):
                return ("arg", op, i)

        obj = _B(inputs["n"])
        r = EnforceRuntimeDivisions._task(obj, inputs["index"])
        return {"self": obj, "ops": obj._args, "index": inputs["index"], "n": inputs["n"], "divs": obj.divisions, "_BA": lambda op, i: ("arg", op, i)}, r

    def inputs_from_model(self, model, sz, sym):
        n, index = sym.read_int(model, "npartitions"), sym.read_int(model, "index")
        if n is None or index is None or not (1 <= n <= 50 and 0 <= index < n):
            return None
        return {"n": n, "index": index}


class LengthsLayer(Spec):
    """Lengths._layer (the per-partition row counts behind len()): one `len` task per input partition, and the output
    is the tuple of ALL of them in partition order - no partition is skipped or counted twice."""

    file, qualname, props = "dask_expr/_expr.py", "Lengths._layer", ["C06", "C09"]

    def make_inputs(self, ex, sym, fr):
        n = sym.int("n_in", lo=0)
        frame = _dep("self.frame", n)
        s = Obj("self", {"frame": frame, "_name": NameStr("", "self")}, cls=("Lengths", "Expr"))
        return {"self": s, "n_in": n}

    def ensures(self):
        def names(c, e):
            own = c.attr(e["self"], "_name")
            part = NameStr("part-" + own.prefix, own.atom, own.suffix) if isinstance(own, NameStr) else "part-" + own
            return own, part, c.attr(e["self"], "frame._name")

        def counts(c, e, r):
            own, part, fname = names(c, e)
            return c.forall(0, e["n_in"], lambda i: c.holds_at(r, (part, i), lambda v: len(v) == 2 and c.And(c.eq(v[0], c.fn("builtin:len")), c.eq(v[1], (fname, i)))))

        def output(c, e, r):
            own, part, fname = names(c, e)
            return c.holds_at(r, (own, 0), lambda v: len(v) == 2 and c.And(c.eq(v[0], c.fn("builtin:tuple")), c.eq(c.len(v[1]), e["n_in"]), c.forall(0, e["n_in"], lambda i: c.eq(c.at(v[1], i), (part, i)))))

        def k3(c, e, r):
            own, part, fname = names(c, e)
            is_ = lambda a, b: (c.eq(a, b) is True) if c.symbolic else a == b
            return c.forall_entries(r, lambda k, v: len(k) == 2 and (c.eq(k[1], 0) if is_(k[0], own) else c.And(c.eq(k[0], part), k[1] >= 0, k[1] < e["n_in"])))

        return {"one-len-task-per-input-partition": counts, "output-is-the-tuple-of-all-counts-in-order": output, "K3-only-own-keys": k3}

    def concrete_globals(self):
        import builtins

        return {"builtin:len": builtins.len, "builtin:tuple": builtins.tuple}

    def concrete_inputs(self):
        for n in (1, 2, 5):
            yield {"n": n}

    def concrete_env(self, inputs):
        return None

    def run_concrete(self, inputs):
        from dask_expr._expr import Lengths

        fr = stub_frame(npartitions=inputs["n"])
        obj = Lengths(fr)
        return {"self": obj, "n_in": inputs["n"]}, obj._layer()

    def inputs_from_model(self, model, sz, sym):
        n = sym.read_int(model, "n_in")
        return None if n is None or not (1 <= n <= 60) else {"n": n}


class StackPartitionLayer(Spec):
    """StackPartition._layer (concat along the rows, no interleaving): the partitions of the frames are stacked in frame
    order - output S(f) + i is partition i of frame f (S = prefix sums of the frames' partition counts), passed through
    when the frame's schema matches the result's, re-concatenated with the result's empty schema otherwise.  Every
    output below S(F) is defined exactly this way; no partition is skipped, repeated or reordered."""

    file, qualname, props = "dask_expr/_concat.py", "StackPartition._layer", ["C02", "C09", "C06", "C13"]
    lemmas = ["PrefixSums"]
    assumptions = [
        "check_meta(df._meta, self._meta) raises (ValueError / TypeError) iff the two schemas differ: modelled as an uninterpreted predicate of the frame's schema; both outcomes are verified",
        "every frame has at least one partition (Expr.npartitions >= 1)",
        "L4-prefix-sums (lemma, proved in lemmas/PrefixSums.lean)",
    ]

    def make_inputs(self, ex, sym, fr):
        F = sym.int("F", lo=1)
        NP = fresh_fun("np", z3.IntSort(), z3.IntSort())
        NM = fresh_fun("name", z3.IntSort(), z3.IntSort())
        MT = fresh_fun("meta", z3.IntSort(), z3.IntSort())
        RAISE = fresh_fun("schema_differs", z3.IntSort(), z3.BoolSort())
        S = fresh_fun("S", z3.IntSort(), z3.IntSort())
        w = fresh_fun("w", z3.IntSort(), z3.IntSort())
        i, m, a, b = z3.Ints("ax_i ax_m ax_a ax_b")
        sym.pc += [S(0) == 0, z3.ForAll([i], z3.Implies(z3.And(i >= 0, i < F), S(i + 1) == S(i) + NP(i)))]
        self._lemma = [
            z3.ForAll([a, b], z3.Implies(z3.And(0 <= a, a <= b, b <= F), S(a) <= S(b))),
            z3.ForAll([m], z3.Implies(z3.And(0 <= m, m < S(F)), z3.And(0 <= w(m), w(m) < F, S(w(m)) <= m, m < S(w(m) + 1)))),
        ]
        self._RAISE = RAISE
        frames = Seq(F, lambda k: Obj("df", {"npartitions": NP(zint(k)), "_name": NM(zint(k)), "_meta": MT(zint(k))}, cls=("Expr",)), "list")
        s = Obj(
            "self",
            {"_frames": frames, "_name": NameStr("", "self"), "_meta": Opaque("self._meta"), "_kwargs": ex.new_dict(fr), "ignore_order": Opaque("ignore_order"), "axis": Opaque("axis"), "join": Opaque("join")},
            cls=("StackPartition", "Concat", "Expr"),
        )
        fn = lambda f_: (lambda k, f_=f_: f_(zint(k)))
        return {"self": s, "F": F, "_NP": fn(NP), "_NM": fn(NM), "_MT": fn(MT), "_differs": fn(RAISE), "_S": fn(S), "_w": fn(w), "_lemma": self._lemma, "_meta0": Opaque("meta-stripped")}

    def call(self, ex, fr, name, args, kwargs):
        if name == "strip_unknown_categories":
            return Opaque("meta-stripped")
        return NotImplemented

    def raises(self, ex, fr, call):
        import ast as _ast

        if isinstance(call.func, _ast.Name) and call.func.id == "check_meta":
            return self._RAISE(zint(ex.eval(call.args[0], fr)))
        return NotImplemented

    def requires(self):
        return {
            "frames-have-partitions": lambda c, e: c.forall(0, e["F"], lambda k: e["_NP"](k) >= 1),
            "L4": lambda c, e: c.And(*e["_lemma"]) if c.symbolic else True,
        }

    invariants = {
        0: lambda c, e: c.eq(e["ctr"], e["_S"](e["_i"])),
        1: lambda c, e: c.eq(e["ctr"], e["_S"](e["_outer"][0]) + e["_i"]),
    }

    def ensures(self):
        own = lambda c, e: c.attr(e["self"], "_name")

        def k1(c, e, r):
            W = e.get("_w")
            return c.forall(0, e["_S"](e["F"]), lambda m: c.defined(r, (own(c, e), m), witness=[W(m), m - e["_S"](W(m))] if W else None))

        def dataflow(c, e, r):
            S = e["_S"]

            def one(k, v):
                if len(k) != 2:
                    return False
                if len(v) == 2:
                    f, i = None, v[1]
                    return c.And(c.eq(k[0], own(c, e)), c.exists(0, e["F"], lambda f: c.And(c.eq(v[0], e["_NM"](f)), i >= 0, i < e["_NP"](f), c.eq(k[1], S(f) + i), c.Not(e["_differs"](e["_MT"](f))))))
                if len(v) != 4:
                    return False
                parts = c.at(v[2], 0)
                ref = c.at(parts, 1)
                i = ref[1]
                return c.And(
                    c.eq(k[0], own(c, e)), c.eq(v[0], c.fn("apply")), c.eq(v[1], c.fn("methods.concat")), c.eq(c.len(v[2]), 5), c.eq(c.len(parts), 2), c.eq(e["_meta0"], c.at(parts, 0)),
                    c.eq(c.at(v[2], 1), c.attr(e["self"], "axis")), c.eq(c.at(v[2], 2), c.attr(e["self"], "join")),
                    c.exists(0, e["F"], lambda f: c.And(c.eq(ref[0], e["_NM"](f)), i >= 0, i < e["_NP"](f), c.eq(k[1], S(f) + i), e["_differs"](e["_MT"](f)))),
                )

            return c.forall_entries(r, one)

        return {"K1-every-stacked-partition-defined": k1, "dataflow-frames-stacked-in-order": dataflow}

    def concrete_globals(self):
        import dask_expr._concat as m

        return vars(m)

    def concrete_inputs(self):
        for counts in ((1,), (2,), (1, 1), (2, 3), (3, 1, 2)):
            for differ in (False, True):
                yield {"counts": counts, "differ": differ}

    def concrete_env(self, inputs):
        return None

    def run_concrete(self, inputs):
        import pandas as pd

        import dask_expr as dx
        from dask.dataframe.utils import check_meta, strip_unknown_categories
        from dask_expr._concat import StackPartition

        frames = []
        for k, n in enumerate(inputs["counts"]):
            cols = {"x": range(6), "y": [1.5] * 6}
            if inputs["differ"] and k % 2 == 1:
                cols = {"x": range(6)}
            frames.append(dx.from_pandas(pd.DataFrame(cols, index=range(10 * k, 10 * k + 6)), npartitions=n).expr)
        plan = dx.concat([dx.new_collection(f) for f in frames]).expr.lower_completely() if len(frames) > 1 else None
        objs = [x for x in plan.walk() if type(x) is StackPartition] if plan is not None else []
        if not objs:
            from vf.pyvc.spec import SkipInput

            raise SkipInput()
        obj = objs[0]
        fs = obj._frames

        def differs(mt):
            try:
                check_meta(mt, obj._meta)
                return False
            except (ValueError, TypeError):
                return True

        S = [0]
        for f in fs:
            S.append(S[-1] + f.npartitions)
        env = {
            "self": obj, "F": len(fs), "_NP": lambda k: fs[k].npartitions, "_NM": lambda k: fs[k]._name, "_MT": lambda k: fs[k]._meta, "_differs": differs, "_S": lambda k: S[k], "_lemma": [],
            "_meta0": _MetaEq(strip_unknown_categories(obj._meta)),
        }
        return env, obj._layer()

    def inputs_from_model(self, model, sz, sym):
        return None


class StackInterleavedLayer(Spec):
    """StackPartitionInterleaved._layer (concat of frames that were aligned to common divisions): output i concatenates
    partition i of EVERY frame, in frame order."""

    file, qualname, props = "dask_expr/_concat.py", "StackPartitionInterleaved._layer", ["C02", "C09", "C13"]

    def make_inputs(self, ex, sym, fr):
        F = sym.int("F", lo=1)
        n = sym.int("npartitions", lo=0)
        NM = fresh_fun("name", z3.IntSort(), z3.IntSort())
        frames = Seq(F, lambda k: Obj("df", {"npartitions": n, "_name": NM(zint(k))}, cls=("Expr",)), "list")
        s = Obj(
            "self",
            {"_frames": frames, "_name": NameStr("", "self"), "npartitions": n, "_kwargs": ex.new_dict(fr), "ignore_order": Opaque("ignore_order"), "axis": Opaque("axis"), "join": Opaque("join")},
            cls=("StackPartitionInterleaved", "StackPartition", "Concat", "Expr"),
        )
        return {"self": s, "F": F, "n": n, "_NM": lambda k, NM=NM: NM(zint(k))}

    def ensures(self):
        own = lambda c, e: c.attr(e["self"], "_name")

        def outputs(c, e, r):
            def shape(i):
                return lambda v: len(v) == 4 and c.And(
                    c.eq(v[0], c.fn("apply")), c.eq(v[1], c.fn("methods.concat")), c.eq(c.len(v[2]), 5),
                    c.eq(c.len(c.at(v[2], 0)), e["F"]), c.forall(0, e["F"], lambda f: c.eq(c.at(c.at(v[2], 0), f), (e["_NM"](f), i))),
                    c.eq(c.at(v[2], 1), c.attr(e["self"], "axis")), c.eq(c.at(v[2], 2), c.attr(e["self"], "join")),
                )

            return c.forall(0, e["n"], lambda i: c.holds_at(r, (own(c, e), i), shape(i)))

        def k3(c, e, r):
            return c.forall_entries(r, lambda k, v: len(k) == 2 and c.And(c.eq(k[0], own(c, e)), k[1] >= 0, k[1] < e["n"]))

        return {"output-i-concatenates-partition-i-of-every-frame": outputs, "K3-only-own-keys": k3}

    def concrete_globals(self):
        import dask_expr._concat as m

        return vars(m)

    def concrete_inputs(self):
        for nf in (2, 3):
            for n in (1, 3):
                yield {"nf": nf, "n": n}

    def concrete_env(self, inputs):
        return None

    def run_concrete(self, inputs):
        import pandas as pd

        import dask_expr as dx
        from dask_expr._concat import StackPartitionInterleaved

        frames = [dx.from_pandas(pd.DataFrame({"x": range(12)}, index=range(k, 24 + k, 2)), npartitions=inputs["n"]) for k in range(inputs["nf"])]
        plan = dx.concat(frames, interleave_partitions=True).expr.lower_completely()
        objs = [x for x in plan.walk() if type(x) is StackPartitionInterleaved]
        if not objs:
            from vf.pyvc.spec import SkipInput

            raise SkipInput()
        obj = objs[0]
        fs = obj._frames
        return {"self": obj, "F": len(fs), "n": obj.npartitions, "_NM": lambda k: fs[k]._name}, obj._layer()

    def inputs_from_model(self, model, sz, sym):
        return None


def OverlapLayer_names(ex):
    own = ex.spec._own
    mk = lambda pre: NameStr(pre + own.prefix, own.atom, own.suffix)
    return mk("overlap-prepend-"), mk("overlap-append-")


class OverlapLayer(Spec):
    """CreateOverlappingPartitions._layer with integer windows (shift / diff / rolling(n) / ffill / bfill / map_overlap):
    output i combines partition i with the last `before` rows of partition i-1 (nothing for i == 0 or before == 0) and
    the first `after` rows of partition i+1 (nothing for the last partition or after == 0).  Every output is defined,
    the helper tasks read exactly the neighbouring partition, and nothing else is referenced."""

    file, qualname, props = "dask_expr/_expr.py", "CreateOverlappingPartitions._layer", ["C02", "C09", "C05"]
    case = {"before": "int", "after": "int"}
    assumptions = ["time-based windows (before / after given as timedelta) are outside tier P: their branches are not reached by the enumerated cases (integer or zero windows); tier R exercises them"]

    def cases(self):
        for b in ("zero", "int"):
            for a in ("zero", "int"):
                yield {"before": b, "after": a}

    def make_inputs(self, ex, sym, fr):
        n = sym.int("n_in", lo=1)
        before = sym.int("before", lo=1) if self.case["before"] == "int" else 0
        after = sym.int("after", lo=1) if self.case["after"] == "int" else 0
        frame = _dep("self.frame", n)
        s = Obj("self", {"frame": frame, "_name": NameStr("", "self"), "before": before, "after": after}, cls=("CreateOverlappingPartitions", "Expr"))
        self._own = s.attrs["_name"]
        return {"self": s, "n_in": n, "before": before, "after": after}

    def isinstance_hook(self, ex, fr, v, tname):
        if tname in ("numbers.Integral", "datetime.timedelta"):
            return tname == "numbers.Integral"
        return NotImplemented

    @staticmethod
    def _names(own):
        mk = (lambda pre: NameStr(pre + own.prefix, own.atom, own.suffix)) if isinstance(own, NameStr) else (lambda pre: pre + own)
        return mk("overlap-prepend-"), mk("overlap-append-")

    # prevs after _i iterations of the first loop: [None, (prepend, 0), ..., (prepend, _i - 1)]; nexts after _i iterations
    # of the integer `after` loop: [(append, 1), ..., (append, _i)]
    acc_closed = {
        0: {0: lambda ex, fr, env: Seq(z3.simplify(zint(env["_i"]) + 1), lambda k, pre=OverlapLayer_names(ex)[0]: _ite_key(zint(k) == 0, None, (pre, z3.simplify(zint(k) - 1))), "list")},
        4: {0: lambda ex, fr, env: Seq(env["_i"], lambda k, app=OverlapLayer_names(ex)[1]: (app, z3.simplify(zint(k) + 1)), "list")},
    }

    def ensures(self):
        def parts(c, e):
            own = c.attr(e["self"], "_name")
            pre, app = OverlapLayer._names(own)
            return own, pre, app, c.attr(e["self"], "frame._name")

        is_ = lambda c, a, b: (c.eq(a, b) is True) if c.symbolic else a == b
        has_b = lambda e: not (isinstance(e["before"], int) and e["before"] == 0)
        has_a = lambda e: not (isinstance(e["after"], int) and e["after"] == 0)

        def outputs(c, e, r):
            own, pre, app, fname = parts(c, e)
            n = e["n_in"]

            def shape(i):
                def ok(v):
                    if len(v) != 6:
                        return False
                    prev_ok = c.is_none(v[1]) if not has_b(e) else (c.ite(c.eq(i, 0), c.is_none(v[1]), c.eq(v[1], (pre, i - 1))) if c.symbolic else ((v[1] is None) if i == 0 else v[1] == (pre, i - 1)))
                    next_ok = c.is_none(v[3]) if not has_a(e) else (c.ite(c.eq(i, n - 1), c.is_none(v[3]), c.eq(v[3], (app, i + 1))) if c.symbolic else ((v[3] is None) if i == n - 1 else v[3] == (app, i + 1)))
                    return c.And(c.eq(v[0], c.fn("_combined_parts")), prev_ok, c.eq(v[2], (fname, i)), next_ok, c.eq(v[4], e["before"]), c.eq(v[5], e["after"]))

                return ok

            return c.forall(0, n, lambda i: c.holds_at(r, (own, i), shape(i)))

        def helpers(c, e, r):
            own, pre, app, fname = parts(c, e)
            n = e["n_in"]

            def one(k, v):
                if len(k) != 2:
                    return False
                if is_(c, k[0], own):
                    return c.And(k[1] >= 0, k[1] < n)
                if is_(c, k[0], pre):
                    return c.And(has_b(e), k[1] >= 0, k[1] < n - 1, len(v) == 3, c.eq(v[0], c.fn("M.tail")), c.eq(v[1], (fname, k[1])), c.eq(v[2], e["before"]))
                return c.And(has_a(e), c.eq(k[0], app), k[1] >= 1, k[1] < n, len(v) == 3, c.eq(v[0], c.fn("M.head")), c.eq(v[1], (fname, k[1])), c.eq(v[2], e["after"]))

            return c.forall_entries(r, one)

        def k2(c, e, r):
            own, pre, app, fname = parts(c, e)
            n = e["n_in"]
            cl = []
            if has_b(e):
                cl.append(c.forall(0, n - 1, lambda j: c.defined(r, (pre, j))))
            if has_a(e):
                cl.append(c.forall(1, n, lambda j: c.defined(r, (app, j), witness=[j - 1])))
            return c.And(*cl) if cl else True

        return {"K1-output-i-combines-its-neighbours-windows": outputs, "K3-helpers-read-the-neighbouring-partition": helpers, "K2-helper-keys-defined": k2}

    def concrete_globals(self):
        import dask_expr._expr as m

        return vars(m)

    def concrete_inputs(self):
        for n in (1, 2, 4):
            for b in (0, 2):
                for a in (0, 1):
                    yield {"n": n, "before": b, "after": a}

    def concrete_env(self, inputs):
        return None

    def run_concrete(self, inputs):
        from dask_expr._expr import CreateOverlappingPartitions

        fr = stub_frame(npartitions=inputs["n"])
        obj = CreateOverlappingPartitions(fr, inputs["before"], inputs["after"])
        return {"self": obj, "n_in": inputs["n"], "before": inputs["before"], "after": inputs["after"]}, obj._layer()

    def inputs_from_model(self, model, sz, sym):
        n = sym.read_int(model, "n_in")
        if n is None or not (1 <= n <= 40):
            return None
        b = sym.read_int(model, "before") if self.case["before"] == "int" else 0
        a = sym.read_int(model, "after") if self.case["after"] == "int" else 0
        return {"n": n, "before": b or 0, "after": a or 0}


class _MetaEq:
    """An empty frame compared by schema (pandas objects have no boolean ==)."""

    def __init__(self, m):
        self.m = m

    def __eq__(self, other):
        other = other.m if isinstance(other, _MetaEq) else other
        try:
            return list(self.m.columns) == list(other.columns) and list(self.m.dtypes) == list(other.dtypes) and len(other) == 0
        except Exception:
            return False

    __hash__ = None


def _scenarios():
    out = []
    for how in ("inner", "left", "right", "leftsemi"):
        for side in ("left", "right"):
            # Merge.is_broadcast_join (contract in decisions.py) never broadcasts the side whose unmatched rows the join
            # keeps; the layer itself is checked for every combination the constructor accepts
            name = f"BroadcastJoinLayer_{how}_{side}"
            cls = type(name, (BroadcastJoinLayerBase,), {"how": how, "side": side, "scenario": f"how={how},broadcast_side={side}", "__module__": __name__})
            globals()[name] = cls
            out.append(cls())
    return out


SPECS = [CumulativeFinalizeLayer(), FromGraphLayer(), MoreNSplits(), MoreDivisions(), MoreLayer(), SizeLayer(), SimpleShuffleLayer(), DiskShuffleLayer(), TreeReduceLayer(), TaskShuffleTail(), BroadcastDep(), BlockwiseArg(), BlockwiseTask(), EnforceDivisionsTask(), ExprLayer(), LengthsLayer(), StackPartitionLayer(), StackInterleavedLayer(), OverlapLayer()] + _scenarios()
