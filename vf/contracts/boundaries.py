"""Contracts for materialization boundaries (C17, C11): `FromDelayed` (re-import of delayed partitions).

  `FromDelayed.dfs`             the delayed inputs are exactly the operands after the declared parameters, in order
  `FromDelayed._filtered_task`  partition p of the collection reads the single key `(dfs[p]._name, 0)` of the p-th delayed input -
                                whatever `_partitions` selects (the task is a function of p alone) - through `check_meta` iff
                                `verify_meta`, else through the identity
  `FromDelayed._divisions`      the user's divisions if given, else all-None of length len(dfs) + 1
(`FromGraph._layer` is under contract in layers.py.)
"""
from __future__ import annotations

import z3

from vf.pyvc.spec import Spec, contract_fn
from vf.pyvc.values import Lab, Obj, Opaque, Seq, zint

F = "dask_expr/io/_delayed.py"
NAME_OF = z3.Function("delayed_key", z3.IntSort(), Lab)


def _dfs(n):
    return Seq(n, lambda k: Obj(f"delayed[{k}]", {"_name": NAME_OF(zint(k))}, cls=("Expr", "_DelayedExpr")), "list")


class FromDelayedTask(Spec):
    file, qualname, props = F, "FromDelayed._filtered_task", ["C17", "C11", "C09"]
    case = {"verify_meta": True}

    def cases(self):
        yield {"verify_meta": True}
        yield {"verify_meta": False}

    def make_inputs(self, ex, sym, fr):
        n = sym.int("n_delayed", lo=1)
        index = sym.int("index")
        P = sym.seq("selected_partitions", kind="list")  # present in the object, must not matter
        me = Obj("self", {"dfs": _dfs(n), "verify_meta": self.case["verify_meta"], "_meta": Opaque("self._meta"), "_partitions": P}, cls=("Expr", "FromDelayed"))
        return {"self": me, "index": index, "n": n}

    def requires(self):
        return {"index-is-a-partition-of-the-unfiltered-collection": lambda c, e: c.And(e["index"] >= 0, e["index"] < e["n"])}

    def call(self, ex, fr, name, args, kwargs):
        if name == "functools.partial":
            if len(args) == 1 and args[0] == Opaque("check_meta") and kwargs.get("meta") == Opaque("self._meta"):
                return Opaque("check_meta-against-the-declared-meta")
            from vf.pyvc.exec import Unsupported

            raise Unsupported("another partial application")
        return NotImplemented

    def ensures(self):
        vm = self.case["verify_meta"]

        def post(c, e, r):
            if not c.symbolic:
                return isinstance(r, tuple) and len(r) == 2 and r[1] == (e["key"], 0) and (callable(r[0]))
            f, arg = r
            want = Opaque("check_meta-against-the-declared-meta") if vm else Opaque("identity")
            return c.And(f == want, isinstance(arg, tuple) and len(arg) == 2, c.eq(arg[0], NAME_OF(zint(e["index"]))), c.eq(arg[1], 0))

        return {"reads-the-key-of-the-p-th-delayed-input-only": post}

    def concrete_env(self, inputs):
        return None

    def concrete_inputs(self):
        for n in (1, 3):
            for P in (None, [n - 1], list(range(n))[::-1]):
                for vm in (True, False):
                    for i in range(n):
                        yield {"n": n, "P": P, "verify_meta": vm, "index": i}

    def _build(self, inputs):
        import pandas as pd
        from dask import delayed

        from dask_expr.io._delayed import FromDelayed
        from dask_expr._expr import _DelayedExpr

        parts = [delayed(pd.DataFrame)({"a": [k, k + 1]}) for k in range(inputs["n"])]
        meta = pd.DataFrame({"a": pd.Series([], dtype="int64")})
        return FromDelayed(meta, None, inputs["verify_meta"], inputs["P"], None, *[_DelayedExpr(p) for p in parts]), parts

    def run_concrete(self, inputs):
        self.case = {"verify_meta": inputs["verify_meta"]}
        e, parts = self._build(inputs)
        return {"key": parts[inputs["index"]].key}, e._filtered_task(inputs["index"])


class FromDelayedDivisions(Spec):
    file, qualname, props = F, "FromDelayed._divisions", ["C17", "C06"]
    case = {"user": False}

    def cases(self):
        yield {"user": False}
        yield {"user": True}

    def make_inputs(self, ex, sym, fr):
        n = sym.int("n_delayed", lo=1)
        ud = sym.seq("user_divisions", kind="tuple") if self.case["user"] else None
        me = Obj("self", {"dfs": _dfs(n), "operand": contract_fn(lambda e, f, name: ud if name == "user_divisions" else Opaque("self." + name))}, cls=("Expr", "FromDelayed"))
        return {"self": me, "n": n, "ud": ud}

    def ensures(self):
        user = self.case["user"]

        def post(c, e, r):
            if not c.symbolic:
                return tuple(r) == tuple(e["expected"])
            if user:
                return c.eq(r, e["ud"])
            return c.And(c.eq(c.len(r), e["n"] + 1), c.forall(0, e["n"] + 1, lambda k: c.is_none(c.at(r, k))))

        return {"user-divisions-or-all-unknown-of-the-right-length": post}

    def concrete_env(self, inputs):
        return None

    def concrete_inputs(self):
        for n in (1, 3):
            for user in (False, True):
                yield {"n": n, "user": user}

    def run_concrete(self, inputs):
        self.case = {"user": inputs["user"]}
        import pandas as pd
        from dask import delayed

        from dask_expr.io._delayed import FromDelayed
        from dask_expr._expr import _DelayedExpr

        n = inputs["n"]
        parts = [delayed(pd.DataFrame)({"a": [k, k + 1]}) for k in range(n)]
        meta = pd.DataFrame({"a": pd.Series([], dtype="int64")})
        ud = tuple(range(0, 2 * n + 1, 2)) if inputs["user"] else None
        e = FromDelayed(meta, ud, True, None, None, *[_DelayedExpr(p) for p in parts])
        return {"expected": ud if ud is not None else (None,) * (n + 1)}, e._divisions()


class FromDelayedDfs(Spec):
    file, qualname, props = F, "FromDelayed.dfs", ["C17"]

    def make_inputs(self, ex, sym, fr):
        nparams = sym.int("n_parameters", lo=0)
        ops = sym.seq("operands", Lab, kind="list")
        sym.pc.append(zint(ops.length) >= nparams)
        params = Seq(nparams, lambda k: Opaque("parameter"), "list")
        me = Obj("self", {"operands": ops, "_parameters": params}, cls=("Expr", "FromDelayed"))
        return {"self": me, "ops": ops, "np": nparams}

    def ensures(self):
        def post(c, e, r):
            if not c.symbolic:
                return list(r) == list(e["expected"])
            return c.And(c.eq(c.len(r), c.len(e["ops"]) - e["np"]), c.forall(0, c.len(e["ops"]) - e["np"], lambda k: c.eq(c.at(r, k), c.at(e["ops"], k + e["np"]))))

        return {"operands-after-the-declared-parameters-in-order": post}

    def concrete_env(self, inputs):
        return None

    def concrete_inputs(self):
        return [{"n": 1, "P": None, "verify_meta": True, "index": 0}, {"n": 3, "P": None, "verify_meta": True, "index": 0}]

    def run_concrete(self, inputs):
        e, parts = FromDelayedTask()._build(inputs)
        return {"expected": [x for x in e.operands[5:]]}, e.dfs


SPECS = [FromDelayedTask(), FromDelayedDivisions(), FromDelayedDfs()]
