"""Contracts for the partition-selection algebra and the fused multi-file reads
(dask_expr/_expr.py: PartitionsFiltered, Partitions, Head, Tail; dask_expr/io/io.py: FusedIO, FromArray).
Properties C06 (truthful divisions), C11 (selection commutes), C18 (fused reads)."""
from __future__ import annotations

import z3

from vf.pyvc.exec import NameStr
from vf.pyvc.spec import Spec, as_attr, attr_fn, contract_fn
from vf.pyvc.values import Obj, Opaque, Seq, fresh_fun, fresh_int, fresh_real, zint, zreal

E = "dask_expr/_expr.py"
IO = "dask_expr/io/io.py"


def sorted_(c, s, lo=0, hi=None):
    hi = c.len(s) if hi is None else hi
    return c.forall(lo, hi, lambda i: c.forall(i, hi, lambda j: c.at(s, i) <= c.at(s, j)))


def strictly_increasing(c, s):
    return c.forall(0, c.len(s), lambda i: c.forall(i + 1, c.len(s), lambda j: c.at(s, i) < c.at(s, j)))


def _fresh_tuple(ex, fr, name):
    f = fresh_fun(name, z3.IntSort(), z3.IntSort())
    n = fresh_int(name + "_len")
    fr.pc.append(n >= 0)
    return Seq(n, lambda k, f=f: f(zint(k)), "tuple")


# ---------------------------------------------------------------------------------------------
class PFDivisions(Spec):
    """PartitionsFiltered.divisions: divisions of the selected partitions."""

    file, qualname, props = E, "PartitionsFiltered.divisions", ["C06", "C11"]
    sizes = {"P": range(1, 4), "full": range(2, 5)}

    def make_inputs(self, ex, sym, fr):
        full = sym.seq("full", kind="tuple", min_len=2)
        P = sym.seq("P", kind="tuple", min_len=0)
        filt = sym.bool("filtered")
        s = Obj("self", {"_filtered": filt, "_partitions": P, "_full": full}, cls=("PartitionsFiltered", "Expr"))
        self.globals = {"super()": Obj("super()", {"divisions": full})}
        return {"self": s, "full": full, "P": P, "filtered": filt}

    def requires(self):
        return {
            "selection-nonempty": lambda c, e: c.Implies(e["filtered"], c.len(e["P"]) >= 1),
            "selection-in-range": lambda c, e: c.Implies(e["filtered"], c.forall(0, c.len(e["P"]), lambda k: c.And(c.at(e["P"], k) >= 0, c.at(e["P"], k) < c.len(e["full"]) - 1))),
        }

    # accumulator 0 = the list the loop appends to (whatever it is called): after i iterations it holds the
    # divisions of the first i selected partitions
    invariants = {
        0: lambda c, env: c.And(
            c.eq(c.len(env["_acc"][0]), env["_i"]),
            c.forall(0, env["_i"], lambda k: c.eq(c.at(env["_acc"][0], k), c.at(env["self"].attrs["_full"], c.at(env["self"].attrs["_partitions"], k)))),
        )
    }

    def ensures(self):
        def selected(c, e, r):
            if not c.symbolic and not e["filtered"]:
                return True
            n = c.len(e["P"])
            return c.Implies(
                e["filtered"],
                c.And(
                    c.eq(c.len(r), n + 1),
                    c.forall(0, n, lambda k: c.eq(c.at(r, k), c.at(e["full"], c.at(e["P"], k)))),
                    c.eq(c.at(r, n), c.at(e["full"], c.at(e["P"], n - 1) + 1)),
                ),
            )

        def sorted_when_increasing(c, e, r):
            return c.Implies(c.And(e["filtered"], sorted_(c, e["full"]), strictly_increasing(c, e["P"])), sorted_(c, r))

        return {
            "unfiltered-is-identity": lambda c, e, r: c.Implies(c.Not(e["filtered"]), c.eq(r, e["full"])),
            "divisions-of-selected": selected,
            "sorted-when-selection-increasing": sorted_when_increasing,
        }

    def fresh_result(self, ex, fr, env):
        return _fresh_tuple(ex, fr, "pfdiv")

    # concrete
    def concrete_inputs(self):
        import itertools

        for n in (1, 2, 4):
            yield {"n": n, "P": None}
            for ln in (1, 2, 3):
                for P in itertools.product(range(n), repeat=ln):
                    yield {"n": n, "P": list(P)}

    def _obj(self, inputs):
        import pandas as pd

        import dask_expr as dx

        n = inputs["n"]
        pdf = pd.DataFrame({"x": range(4 * n)})
        df = dx.from_pandas(pdf, npartitions=n)
        e = df.expr
        if inputs["P"] is not None:
            e = e.substitute_parameters({"_partitions": list(inputs["P"])})
        return e, df.expr

    def run_concrete(self, inputs):
        e, base = self._obj(inputs)
        full = tuple(base._divisions())
        P = inputs["P"]
        return {"self": e, "full": full, "P": tuple(P) if P is not None else (), "filtered": P is not None}, tuple(e.divisions)

    def inputs_from_model(self, model, sz, sym):
        full = sym.read_seq(model, "full")
        P = sym.read_seq(model, "P")
        filt = sym.read_bool(model, "filtered")
        if full is None or P is None:
            return None
        return {"n": max(len(full) - 1, 1), "P": [p for p in P] if filt else None}


class PFNPartitions(Spec):
    file, qualname, props = E, "PartitionsFiltered.npartitions", ["C06", "C11"]

    def make_inputs(self, ex, sym, fr):
        P = sym.seq("P", kind="tuple")
        filt = sym.bool("filtered")
        n0 = sym.int("n0", lo=0)
        s = Obj("self", {"_filtered": filt, "_partitions": P})
        self.globals = {"super()": Obj("super()", {"npartitions": n0})}
        return {"self": s, "P": P, "filtered": filt, "n0": n0}

    def ensures(self):
        return {"count-of-selection": lambda c, e, r: c.eq(r, c.ite(e["filtered"], c.len(e["P"]), e["n0"]))}

    def fresh_result(self, ex, fr, env):
        return fresh_int("np")

    def concrete_inputs(self):
        for n in (1, 3):
            yield {"n": n, "P": None}
            yield {"n": n, "P": [0]}
            yield {"n": n, "P": [n - 1, 0, 0]}

    def run_concrete(self, inputs):
        e, base = PFDivisions()._obj(inputs)
        P = inputs["P"]
        return {"self": e, "P": tuple(P or ()), "filtered": P is not None, "n0": base.npartitions}, e.npartitions

    def inputs_from_model(self, model, sz, sym):
        return None


class PFTask(Spec):
    """PartitionsFiltered._task(i) is _filtered_task of the i-th SELECTED partition."""

    file, qualname, props = E, "PartitionsFiltered._task", ["C11"]

    def make_inputs(self, ex, sym, fr):
        P = sym.seq("P", kind="tuple", min_len=1)
        index = sym.int("index")
        ft = z3.Function("filtered_task", z3.IntSort(), z3.IntSort())

        @contract_fn
        def filtered_task(ex_, fr_, i):
            return ft(zint(i))

        s = Obj("self", {"_partitions": P, "_filtered_task": filtered_task})
        self._ft = ft
        return {"self": s, "P": P, "index": index}

    def requires(self):
        return {"index-in-range": lambda c, e: c.And(e["index"] >= 0, e["index"] < c.len(e["P"]))}

    def ensures(self):
        return {"task-of-selected-partition": lambda c, e, r: c.eq(r, self._ft(zint(c.at(e["P"], e["index"])))) if c.symbolic else r == e["expected"]}

    def fresh_result(self, ex, fr, env):
        return fresh_int("task")

    def concrete_inputs(self):
        for P in ([0], [2, 0], [1, 1, 2]):
            for i in range(len(P)):
                yield {"n": 3, "P": P, "index": i}

    def run_concrete(self, inputs):
        e, base = PFDivisions()._obj(inputs)
        exp = base._filtered_task(inputs["P"][inputs["index"]])
        got = e._task(inputs["index"])
        return {"self": e, "P": tuple(inputs["P"]), "index": inputs["index"], "expected": _TaskEq(exp)}, _TaskEq(got)

    def inputs_from_model(self, model, sz, sym):
        return None


class _TaskEq:
    """Structural equality of task tuples containing pandas frames."""

    def __init__(self, t):
        self.t = t

    def __eq__(self, other):
        from vf.rt.nodewise import _task_equal

        return _task_equal(self.t, other.t if isinstance(other, _TaskEq) else other)


# ---------------------------------------------------------------------------------------------
class PartitionsDivisions(Spec):
    file, qualname, props = E, "Partitions._divisions", ["C06", "C11"]
    sizes = {"P": range(1, 4), "full": range(2, 5)}

    def make_inputs(self, ex, sym, fr):
        full = sym.seq("full", kind="tuple", min_len=2)
        P = sym.seq("P", kind="list", min_len=1)
        frame = Obj("self.frame", {"divisions": full})
        s = Obj("self", {"partitions": P, "frame": frame})
        return {"self": s, "full": full, "P": P}

    def requires(self):
        return {"selection-in-range": lambda c, e: c.forall(0, c.len(e["P"]), lambda k: c.And(c.at(e["P"], k) >= 0, c.at(e["P"], k) < c.len(e["full"]) - 1))}

    invariants = {
        0: lambda c, env: c.And(
            c.eq(c.len(env["_acc"][0]), env["_i"]),
            c.forall(0, env["_i"], lambda k: c.eq(c.at(env["_acc"][0], k), c.at(env["self"].attrs["frame"].attrs["divisions"], c.at(env["self"].attrs["partitions"], k)))),
        )
    }

    def ensures(self):
        def selected(c, e, r):
            n = c.len(e["P"])
            return c.And(
                c.eq(c.len(r), n + 1),
                c.forall(0, n, lambda k: c.eq(c.at(r, k), c.at(e["full"], c.at(e["P"], k)))),
                c.eq(c.at(r, n), c.at(e["full"], c.at(e["P"], n - 1) + 1)),
            )

        return {
            "divisions-of-selected": selected,
            "sorted-when-selection-increasing": lambda c, e, r: c.Implies(c.And(sorted_(c, e["full"]), strictly_increasing(c, e["P"])), sorted_(c, r)),
        }

    def fresh_result(self, ex, fr, env):
        return _fresh_tuple(ex, fr, "pdiv")

    def concrete_inputs(self):
        import itertools

        for n in (1, 3):
            for ln in (1, 2):
                for P in itertools.product(range(n), repeat=ln):
                    yield {"n": n, "P": list(P)}

    def run_concrete(self, inputs):
        from dask_expr._expr import Partitions

        from vf.rt.stub import stub_frame

        n = inputs["n"]
        fr = stub_frame(divisions=tuple(range(0, 5 * (n + 1), 5)))
        e = Partitions(fr, list(inputs["P"]))
        return {"self": e, "full": tuple(fr.divisions), "P": list(inputs["P"])}, tuple(e._divisions())

    def inputs_from_model(self, model, sz, sym):
        full, P = sym.read_seq(model, "full"), sym.read_seq(model, "P")
        if full is None or P is None:
            return None
        return {"n": len(full) - 1, "P": P}


class PartitionsTask(Spec):
    file, qualname, props = E, "Partitions._task", ["C11", "C09"]

    def make_inputs(self, ex, sym, fr):
        P = sym.seq("P", kind="list", min_len=1)
        index = sym.int("index")
        frame = Obj("self.frame", {"_name": NameStr("", "self.frame")})
        s = Obj("self", {"partitions": P, "frame": frame})
        return {"self": s, "P": P, "index": index}

    def requires(self):
        return {"index-in-range": lambda c, e: c.And(e["index"] >= 0, e["index"] < c.len(e["P"]))}

    def ensures(self):
        return {"alias-of-selected-input-partition": lambda c, e, r: c.eq(r, (c.attr(e["self"], "frame._name"), c.at(e["P"], e["index"])))}

    def fresh_result(self, ex, fr, env):
        return (NameStr("", "self.frame"), fresh_int("p"))

    def concrete_inputs(self):
        for P in ([0], [2, 0], [1, 1, 2]):
            for i in range(len(P)):
                yield {"P": P, "index": i}

    def run_concrete(self, inputs):
        from dask_expr._expr import Partitions

        from vf.rt.stub import stub_frame

        fr = stub_frame(npartitions=3)
        e = Partitions(fr, list(inputs["P"]))
        return {"self": e, "P": list(inputs["P"]), "index": inputs["index"]}, e._task(inputs["index"])

    def inputs_from_model(self, model, sz, sym):
        return None


# ---------------------------------------------------------------------------------------------
class FusionBuckets(Spec):
    """FusedIO._fusion_buckets: consecutive slices of width step >= 1 whose concatenation is the selection."""

    file, qualname, props = IO, "FusedIO._fusion_buckets", ["C11", "C18", "C06"]
    assumptions = ["A2-floats-as-reals: 1 / factor, math.ceil and the comparison with math.sqrt(n) are evaluated over the reals; math.sqrt(n) is only assumed to be >= 1 for n >= 1"]
    sizes = {"P": range(1, 5)}

    def make_inputs(self, ex, sym, fr):
        P = sym.seq("P", kind="list", min_len=1)
        factor = z3.Real("factor")
        sub = Obj("_expr", {"_partitions": P, "_fusion_compression_factor": factor})

        @contract_fn
        def operand(ex_, fr_, name):
            return sub

        s = Obj("self", {"operand": operand})
        self._factor = factor
        return {"self": s, "P": P, "factor": factor}

    def requires(self):
        # ReadParquet._fusion_compression_factor is max(ratio, 0.001) with ratio <= 1; FusedIO is only built when it is < 1
        return {"factor-in-(0,1]": lambda c, e: c.And(e["factor"] > 0, e["factor"] <= 1) if c.symbolic else 0 < e["factor"] <= 1}

    def call(self, ex, fr, name, args, kwargs):
        if name == "math.sqrt":
            r = fresh_real("sqrt")
            fr.pc.append(z3.Implies(zreal(args[0]) >= 1, r >= 1))
            fr.pc.append(r >= 0)
            ex.assumptions.add("A2-sqrt: math.sqrt(n) >= 1 for n >= 1")
            return r
        return NotImplemented

    def ensures(self):
        def step_of(c, e, r):
            # the width of the first bucket is the step (there is at least one bucket)
            return c.len(c.at(r, 0))

        def partition(c, e, r):
            n = c.len(e["P"])
            nb = c.len(r)
            step = step_of(c, e, r)
            return c.And(
                nb >= 1,
                step >= 1,
                # bucket k is P[k*step : min((k+1)*step, n)]
                c.forall(
                    0,
                    nb,
                    lambda k: c.And(
                        c.len(c.at(r, k)) >= 1,
                        c.len(c.at(r, k)) <= step,
                        k * step + c.len(c.at(r, k)) <= n,
                        c.forall(0, c.len(c.at(r, k)), lambda j, k=k: c.eq(c.at(c.at(r, k), j), c.at(e["P"], k * step + j))),
                    ),
                ),
                # all but the last bucket are full, and the last one ends at n: the buckets partition the selection
                c.forall(0, nb - 1, lambda k: c.eq(c.len(c.at(r, k)), step)),
                c.eq((nb - 1) * step + c.len(c.at(r, nb - 1)), n),
            )

        return {"buckets-partition-the-selection": partition}

    def fresh_result(self, ex, fr, env):
        # used by the FusedIO._divisions / _task contracts: a list of buckets described by (nb, step)
        nb, step = fresh_int("nb"), fresh_int("step")
        P = env["P"]
        n = zint(ex.seq_of(P, fr).length)
        fr.pc += [nb >= 1, step >= 1, (nb - 1) * step < n, nb * step >= n]

        def bucket(k):
            lo = zint(k) * step
            hi = z3.If(lo + step < n, lo + step, n)
            return Seq(z3.simplify(hi - lo), lambda j, lo=lo: ex.seq_of(P, fr).get(z3.simplify(lo + zint(j))), "list")

        return Seq(nb, bucket, "list")

    def bind_call(self, ex, fr, env):
        s = env["self"]
        return {"self": s, "P": s.attrs["_sub"].attrs["_partitions"], "factor": s.attrs["_sub"].attrs["_fusion_compression_factor"]}

    def concrete_inputs(self):
        import itertools

        for n in range(1, 8):
            for factor in (1.0, 0.7, 0.5, 0.34, 0.2, 0.001):
                yield {"P": list(range(n)), "factor": factor}
        yield {"P": [3, 1, 4, 1, 5, 9, 2, 6], "factor": 0.3}

    def _obj(self, inputs, divisions=None):
        from dask_expr.io.io import FusedIO

        class _Sub:
            def __init__(s, P, factor, divisions):
                s._partitions, s._fusion_compression_factor, s._d = P, factor, divisions
                s._funcname = "sub"
                s._name = "sub-0"

            def _divisions(s):
                return s._d

            def _filtered_task(s, i):
                return ("task", i)

        sub = _Sub(list(inputs["P"]), inputs["factor"], divisions)
        obj = FusedIO.__new__.__wrapped__(FusedIO) if hasattr(FusedIO.__new__, "__wrapped__") else object.__new__(FusedIO)
        obj.operands = [sub]
        return obj, sub

    def run_concrete(self, inputs):
        obj, sub = self._obj(inputs)
        return {"self": obj, "P": list(inputs["P"]), "factor": inputs["factor"]}, type(obj).__dict__["_fusion_buckets"].func(obj)

    def concrete_env(self, inputs):
        return {"P": list(inputs["P"]), "factor": inputs["factor"]}

    def inputs_from_model(self, model, sz, sym):
        P = sym.read_seq(model, "P")
        if P is None:
            return None
        f = model.eval(self._factor, model_completion=True)
        try:
            fv = float(f.numerator_as_long()) / float(f.denominator_as_long())
        except Exception:
            fv = 0.5
        return {"P": P, "factor": fv}


def _fused_self(ex, sym, fr, with_divs):
    P = sym.seq("P", kind="list", min_len=1)
    factor = z3.Real("factor")
    divs = sym.seq("divs", kind="tuple", min_len=2)
    known = sym.bool("known")
    ft = z3.Function("filtered_task", z3.IntSort(), z3.IntSort())

    @contract_fn
    def _divisions(ex_, fr_):
        return divs

    @contract_fn
    def _filtered_task(ex_, fr_, i):
        return ft(zint(i))

    sub = Obj("_expr", {"_partitions": P, "_fusion_compression_factor": factor, "_divisions": _divisions, "_filtered_task": _filtered_task})

    @contract_fn
    def operand(ex_, fr_, name):
        return sub

    s = Obj("self", {"operand": operand, "_sub": sub, "_fusion_buckets": as_attr(FusionBuckets())})
    return s, P, divs, known, ft


class FusedDivisions(Spec):
    """FusedIO._divisions: first division of every bucket + the division closing the last selected partition."""

    file, qualname, props = IO, "FusedIO._divisions", ["C06", "C18"]
    sizes = {"P": range(1, 4), "divs": range(2, 6)}

    def make_inputs(self, ex, sym, fr):
        s, P, divs, known, ft = _fused_self(ex, sym, fr, True)
        # known divisions are modelled as integers; unknown ones as the distinguished value NONE
        self.globals = {}
        return {"self": s, "P": P, "divs": divs, "known": known}

    def requires(self):
        return {
            "factor": lambda c, e: c.And(c.attr(e["self"], "_sub._fusion_compression_factor") > 0, c.attr(e["self"], "_sub._fusion_compression_factor") <= 1),
            "selection-in-range": lambda c, e: c.forall(0, c.len(e["P"]), lambda k: c.And(c.at(e["P"], k) >= 0, c.at(e["P"], k) < c.len(e["divs"]) - 1)),
        }

    # `new_divisions[0] is None`: known divisions are ints here, so the branch `is None` is the unknown case;
    # the engine decides `x is None` for an integer-sorted x as False: the unknown-divisions branch is covered
    # by the concrete cross-check (inputs with divisions == (None, ...)).
    def ensures(self):
        def fused(c, e, r):
            b = c.attr(e["self"], "_fusion_buckets")
            nb = c.len(b)
            n = c.len(e["P"])
            return c.And(
                c.eq(c.len(r), nb + 1),
                c.forall(0, nb, lambda k: c.eq(c.at(r, k), c.at(e["divs"], c.at(c.at(b, k), 0)))),
                c.eq(c.at(r, nb), c.at(e["divs"], c.at(e["P"], n - 1) + 1)),
            )

        def sorted_out(c, e, r):
            return c.Implies(c.And(sorted_(c, e["divs"]), strictly_increasing(c, e["P"])), sorted_(c, r))

        return {"fused-divisions": fused, "sorted-when-selection-increasing": sorted_out}

    def is_none_hook(self):
        return False

    def fresh_result(self, ex, fr, env):
        return _fresh_tuple(ex, fr, "fdiv")

    def concrete_inputs(self):
        for n in range(1, 7):
            for factor in (0.6, 0.3, 0.05):
                yield {"P": list(range(n)), "factor": factor, "divs": tuple(range(100, 100 + 10 * (n + 1), 10))}
        yield {"P": [2, 3, 4, 5], "factor": 0.3, "divs": tuple(range(0, 80, 10))}
        yield {"P": [0], "factor": 0.3, "divs": (1, 4)}

    def run_concrete(self, inputs):
        obj, sub = FusionBuckets()._obj(inputs, inputs["divs"])
        r = tuple(type(obj).__dict__["_divisions"](obj))
        buckets = type(obj).__dict__["_fusion_buckets"].func(obj)

        class _S:
            pass

        s = _S()
        s._fusion_buckets = buckets
        s._sub = sub
        return {"self": s, "P": list(inputs["P"]), "divs": tuple(inputs["divs"]), "known": True}, r

    def concrete_env(self, inputs):
        class _S:
            pass

        s = _S()
        s._sub = _S()
        s._sub._fusion_compression_factor = inputs["factor"]
        return {"self": s, "P": list(inputs["P"]), "divs": tuple(inputs["divs"]), "known": True}

    def inputs_from_model(self, model, sz, sym):
        P, divs = sym.read_seq(model, "P"), sym.read_seq(model, "divs")
        if P is None or divs is None:
            return None
        return {"P": P, "factor": 0.5, "divs": tuple(divs)}


# ---------------------------------------------------------------------------------------------
class FusedTask(Spec):
    """FusedIO._task(index): the concatenation of the source's tasks for exactly the members of bucket `index`, in
    bucket order.  With FusionBuckets (the buckets are consecutive slices whose concatenation is the selection) this
    gives: the fused read reads every selected partition exactly once, in order."""

    file, qualname, props = IO, "FusedIO._task", ["C18", "C11", "C09", "C14"]
    sizes = {"P": range(1, 4)}

    def make_inputs(self, ex, sym, fr):
        s, P, divs, known, ft = _fused_self(ex, sym, fr, False)
        self._ft = ft
        index = sym.int("index")
        return {"self": s, "P": P, "index": index, "_ft": lambda i, ft=ft: ft(zint(i))}

    def requires(self):
        return {
            "factor": lambda c, e: c.And(c.attr(e["self"], "_sub._fusion_compression_factor") > 0, c.attr(e["self"], "_sub._fusion_compression_factor") <= 1),
            "index-in-range": lambda c, e: c.And(e["index"] >= 0, e["index"] < c.len(c.attr(e["self"], "_fusion_buckets"))),
        }

    def ensures(self):
        def reads_bucket(c, e, r):
            b = c.at(c.attr(e["self"], "_fusion_buckets"), e["index"])
            return c.And(len(r) == 2, c.eq(r[0], c.fn("methods.concat")), c.eq(c.len(r[1]), c.len(b)), c.forall(0, c.len(b), lambda k: c.eq(c.at(r[1], k), e["_ft"](c.at(b, k)))))

        return {"reads-exactly-its-bucket-in-order": reads_bucket}

    def concrete_globals(self):
        import dask_expr.io.io as m

        return vars(m)

    def concrete_inputs(self):
        for n in range(1, 8):
            for factor in (0.6, 0.3, 0.05):
                for index in range(0, n):
                    yield {"P": list(range(n)), "factor": factor, "index": index}
        yield {"P": [2, 3, 4, 5], "factor": 0.3, "index": 1}

    def concrete_env(self, inputs):
        return None

    def run_concrete(self, inputs):
        from vf.pyvc.spec import SkipInput

        obj, sub = FusionBuckets()._obj(inputs)
        buckets = type(obj).__dict__["_fusion_buckets"].func(obj)
        if inputs["index"] >= len(buckets):
            raise SkipInput()

        class _S:
            pass

        s = _S()
        s._fusion_buckets = buckets
        return {"self": s, "P": list(inputs["P"]), "index": inputs["index"], "_ft": lambda i: ("task", i)}, obj._task(inputs["index"])

    def inputs_from_model(self, model, sz, sym):
        P, index = sym.read_seq(model, "P"), sym.read_int(model, "index")
        if P is None or index is None:
            return None
        return {"P": P, "factor": 0.5, "index": index}


# ---------------------------------------------------------------------------------------------
class HeadPartitions(Spec):
    """Head._partitions: the first k partitions of the child (all of them for k == -1)."""

    file, qualname, props = E, "Head._partitions", ["C11"]
    sizes = {"FP": range(1, 4)}

    def make_inputs(self, ex, sym, fr):
        n = sym.int("n", lo=1)
        k = sym.int("k")
        frame = Obj("self.frame", {"npartitions": n})

        @contract_fn
        def operand(ex_, fr_, name):
            return k

        s = Obj("self", {"frame": frame, "operand": operand}, cls=("Head", "Expr"))
        return {"self": s, "n": n, "k": k}

    def requires(self):
        # the collection API passes npartitions == -1 or >= 1; Head._lower rejects k > frame.npartitions
        return {"k": lambda c, e: c.Or(e["k"] == -1, c.And(e["k"] >= 1, e["k"] <= e["n"])) if c.symbolic else (e["k"] == -1 or 1 <= e["k"] <= e["n"])}

    def isinstance_hook(self, ex, fr, v, tname):
        if tname == "PartitionsFiltered":
            return False
        return NotImplemented

    def ensures(self):
        def first_k(c, e, r):
            m = c.ite(e["k"] == -1, e["n"], e["k"])
            return c.And(c.eq(c.len(r), m), c.forall(0, m, lambda i: c.eq(c.at(r, i), i)))

        return {"first-k-partitions": first_k}

    def fresh_result(self, ex, fr, env):
        return _fresh_tuple(ex, fr, "hp")

    def concrete_inputs(self):
        for n in (1, 2, 5):
            for k in [-1] + list(range(1, n + 1)):
                yield {"n": n, "k": k}

    def run_concrete(self, inputs):
        from dask_expr._expr import Head

        from vf.rt.stub import stub_frame

        e = Head(stub_frame(npartitions=inputs["n"]), 5, inputs["k"])
        return {"self": e, "n": inputs["n"], "k": inputs["k"]}, list(e._partitions)

    def concrete_env(self, inputs):
        return {"n": inputs["n"], "k": inputs["k"]}

    def inputs_from_model(self, model, sz, sym):
        return {"n": sym.read_int(model, "n"), "k": sym.read_int(model, "k")}


class HeadDivisions(Spec):
    file, qualname, props = E, "Head._divisions", ["C06"]

    def make_inputs(self, ex, sym, fr):
        divs = sym.seq("divs", kind="tuple", min_len=2)
        k = sym.int("k")
        frame = Obj("self.frame", {"divisions": divs})

        @contract_fn
        def operand(ex_, fr_, name):
            return k

        s = Obj("self", {"frame": frame, "operand": operand})
        return {"self": s, "divs": divs, "k": k}

    def requires(self):
        return {"k": lambda c, e: (c.Or(e["k"] <= -1, c.And(e["k"] >= 1, e["k"] <= c.len(e["divs"]) - 1))) if c.symbolic else (e["k"] <= -1 or 1 <= e["k"] <= len(e["divs"]) - 1)}

    def ensures(self):
        def span(c, e, r):
            last = c.ite(e["k"] <= -1, c.len(e["divs"]) - 1, e["k"])
            return c.And(c.eq(c.len(r), 2), c.eq(c.at(r, 0), c.at(e["divs"], 0)), c.eq(c.at(r, 1), c.at(e["divs"], last)))

        return {
            "span-of-first-k-partitions": span,
            "sorted": lambda c, e, r: c.Implies(sorted_(c, e["divs"]), c.at(r, 0) <= c.at(r, 1)),
        }

    def fresh_result(self, ex, fr, env):
        return _fresh_tuple(ex, fr, "hd")

    def concrete_inputs(self):
        for n in (1, 3):
            for k in [-1] + list(range(1, n + 1)):
                yield {"n": n, "k": k}

    def run_concrete(self, inputs):
        from dask_expr._expr import Head

        from vf.rt.stub import stub_frame

        fr = stub_frame(divisions=tuple(range(0, 7 * (inputs["n"] + 1), 7)))
        e = Head(fr, 5, inputs["k"])
        return {"self": e, "divs": tuple(fr.divisions), "k": inputs["k"]}, tuple(e._divisions())

    def concrete_env(self, inputs):
        return {"divs": tuple(range(0, 7 * (inputs["n"] + 1), 7)), "k": inputs["k"]}

    def inputs_from_model(self, model, sz, sym):
        return None


class TailDivisions(Spec):
    file, qualname, props = E, "Tail._divisions", ["C06"]

    def make_inputs(self, ex, sym, fr):
        divs = sym.seq("divs", kind="tuple", min_len=2)
        frame = Obj("self.frame", {"divisions": divs})
        s = Obj("self", {"frame": frame})
        return {"self": s, "divs": divs}

    def ensures(self):
        return {
            "last-partition-span": lambda c, e, r: c.And(c.eq(c.len(r), 2), c.eq(c.at(r, 0), c.at(e["divs"], c.len(e["divs"]) - 2)), c.eq(c.at(r, 1), c.at(e["divs"], c.len(e["divs"]) - 1))),
            "sorted": lambda c, e, r: c.Implies(sorted_(c, e["divs"]), c.at(r, 0) <= c.at(r, 1)),
        }

    def fresh_result(self, ex, fr, env):
        return _fresh_tuple(ex, fr, "td")

    def concrete_inputs(self):
        for n in (1, 2, 4):
            yield {"n": n}

    def run_concrete(self, inputs):
        from dask_expr._expr import Tail

        from vf.rt.stub import stub_frame

        fr = stub_frame(divisions=tuple(range(0, 7 * (inputs["n"] + 1), 7)))
        e = Tail(fr, 5)
        return {"self": e, "divs": tuple(fr.divisions)}, tuple(e._divisions())

    def inputs_from_model(self, model, sz, sym):
        return None


class FromArrayDivisions(Spec):
    """FromArray._divisions: chunk starts + the last label; sorted, ceil(len/chunk)+1 entries."""

    file, qualname, props = IO, "FromArray._divisions", ["C06"]

    def make_inputs(self, ex, sym, fr):
        n = sym.int("n", lo=1)
        chunk = sym.int("chunk", lo=1)
        frame = Obj("self.frame", {})
        s = Obj("self", {"frame": frame, "chunksize": chunk})
        self._n = n
        return {"self": s, "n": n, "chunk": chunk}

    def len_hook(self, ex, fr, a):
        return self._n

    def ensures(self):
        def shape(c, e, r):
            n, ch = e["n"], e["chunk"]
            nparts = (n + ch - 1) / ch if c.symbolic else -(-n // ch)
            return c.And(
                c.eq(c.len(r), nparts + 1),
                c.forall(0, nparts, lambda k: c.eq(c.at(r, k), k * ch)),
                c.eq(c.at(r, nparts), n - 1),
            )

        return {"chunk-starts-then-last-label": shape, "sorted": lambda c, e, r: sorted_(c, r)}

    def fresh_result(self, ex, fr, env):
        return _fresh_tuple(ex, fr, "fad")

    def concrete_inputs(self):
        for n in (1, 2, 9, 10):
            for ch in (1, 3, 10, 50):
                yield {"n": n, "chunk": ch}

    def run_concrete(self, inputs):
        import numpy as np

        import dask_expr as dx

        e = dx.from_array(np.arange(inputs["n"]), chunksize=inputs["chunk"]).expr
        return {"self": e, "n": inputs["n"], "chunk": inputs["chunk"]}, tuple(e._divisions())

    def inputs_from_model(self, model, sz, sym):
        return {"n": sym.read_int(model, "n"), "chunk": sym.read_int(model, "chunk")}


SPECS = [PFDivisions(), PFNPartitions(), PFTask(), PartitionsDivisions(), PartitionsTask(), FusionBuckets(), FusedDivisions(), FusedTask(), HeadPartitions(), HeadDivisions(), TailDivisions(), FromArrayDivisions()]
