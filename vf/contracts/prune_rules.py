"""Contracts for column-pruning rules of operations with IMPLICIT key columns (C04, C01):
`DropDuplicates._simplify_up` and `DropnaFrame._simplify_up` (both read `subset` columns the consumers never ask for).

From the property, for the rebuilt node `type(parent)(type(self)(self.frame[kept], <the other operands of self>), <the other operands of parent>)`:
  kept-covers-needs-and-implicit-keys   every frame column a live consumer needs AND every frame column named in `subset` is kept
  kept-within-frame                     only columns the frame has, in the frame's order
  none-only-if-nothing-dropped          the rule declines only if every frame column is needed
  same-operation-on-fewer-columns       the node is rebuilt with ALL its other operands unchanged (keep=, ignore_index=, how=, thresh= ...)
                                        and the parent's selection is re-applied unchanged
`determine_column_projection` is an assumed callee contract (its result covers the consumers' needs and the
`additional_columns` it is given); the contract checks that `additional_columns` IS the subset.
"""
from __future__ import annotations

import ast

import z3

from vf.contracts.projection import NEEDED, _in
from vf.pyvc.spec import Spec, SkipInput, contract_fn
from vf.pyvc.values import Lab, Obj, Opaque, Seq, SetVal, Term, fresh_fun, fresh_int, zint


class _SubsetPrune(Spec):
    props = ["C04", "C01"]
    sizes = {"frame_columns": range(1, 4), "union": range(0, 4), "subset": range(1, 3)}
    assumptions = ["assumed contract of determine_column_projection: the returned list contains every column a live consumer needs and every column of `additional_columns`",
                   "object model: frame.columns is a duplicate-free label sequence; type(x)(frame, *x.operands[1:]) rebuilds x on another frame with all other operands unchanged"]

    def make_inputs(self, ex, sym, fr):
        FC = sym.seq("frame_columns", Lab, kind="list")
        SUB = sym.seq("subset", Lab, kind="list")
        U = sym.seq("union", Lab, kind="list")
        frame = Obj("frame", {"columns": FC}, cls=("Expr",))
        me = Obj("self", {"frame": frame, "subset": SUB, "operands": Opaque("self.operands")}, cls=("Expr",))
        parent = Obj("parent", {"operands": Opaque("parent.operands")}, cls=("Expr", "Projection"))
        self._U, self._SUB, self._gave_subset = U, SUB, None
        return {"self": me, "parent": parent, "dependents": Opaque("dependents"), "FC": FC, "SUB": SUB, "U": U, "frame": frame}

    @property
    def callees(self):
        def mk_set(ex, fr, *args):
            seq = ex.seq_of(args[0], fr)
            sv = SetVal(lambda x, seq=seq: _in(seq, x))
            sv.seq = seq
            return sv

        return {"builtin:set": mk_set}

    def call(self, ex, fr, name, args, kwargs):
        if name == "determine_column_projection":
            c = z3.Const("any_label", Lab)
            covers = [z3.ForAll([c], z3.Implies(NEEDED(c), _in(self._U, c)))]
            add = kwargs.get("additional_columns", args[3] if len(args) > 3 else None)
            if add is not None:
                s = ex.seq_of(add, fr)
                covers.append(z3.ForAll([c], z3.Implies(_in(s, c), _in(self._U, c))))
            ex.assume(fr, z3.And(*covers))
            return ex.new_list(fr, self._U)
        if name == "builtin:type":
            return Opaque("type(%s)" % args[0].name)
        return NotImplemented

    def set_compare(self, ex, fr, op, a, b):
        if isinstance(op, ast.Eq) and hasattr(a, "seq") and hasattr(b, "seq"):
            x = z3.Const("x", Lab)
            return z3.ForAll([x], _in(a.seq, x) == _in(b.seq, x))
        if isinstance(op, ast.Lt) and hasattr(a, "seq") and hasattr(b, "seq"):
            from vf.contracts.projection import MergeProjection

            return MergeProjection.set_compare(self, ex, fr, op, a, b)
        from vf.pyvc.exec import Unsupported

        raise Unsupported("set comparison of another shape")

    def filter_comp(self, ex, fr, e, g, it, elt_eval):
        from vf.contracts.projection import PlainColumnProjection

        return PlainColumnProjection.filter_comp(self, ex, fr, e, g, it, elt_eval)

    def subscript(self, ex, fr, base, idx):
        if isinstance(base, Obj) and base.name == "frame":
            return Term("Projection", (base, idx))
        return NotImplemented

    def star_call(self, ex, fr, e):
        f = ast.unparse(e.func)
        if f in ("type(self)", "type(parent)") and len(e.args) == 2 and isinstance(e.args[1], ast.Starred) and not e.keywords:
            rest = ast.unparse(e.args[1].value)
            want = "self.operands[1:]" if f == "type(self)" else "parent.operands[1:]"
            if rest != want:
                return NotImplemented
            return Term("Rebuilt" if f == "type(self)" else "Parent", (ex.eval(e.args[0], fr),))
        return NotImplemented

    def isinstance_hook(self, ex, fr, v, tname):
        if isinstance(v, Obj):
            return tname in (v.cls or ())
        return NotImplemented

    def ensures(self):
        def kept(c, r):
            t = r
            while isinstance(t, Term) and t.cls in ("Parent", "Rebuilt"):
                t = t.args[0]
            if not (isinstance(t, Term) and t.cls == "Projection"):
                return None  # not the expected shape: reported by the shape clause
            return c.ex.seq_of(t.args[1], c.fr)

        def shape(c, env, r):
            if not c.symbolic:
                return env["same_result"]
            return r is None or (isinstance(r, Term) and r.cls == "Parent" and isinstance(r.args[0], Term) and r.args[0].cls == "Rebuilt" and isinstance(r.args[0].args[0], Term) and r.args[0].args[0].cls == "Projection" and r.args[0].args[0].args[0] is env["frame"])

        def covers(c, env, r):
            if not c.symbolic or r is None:
                return True if c.symbolic else env["keys_kept"]
            K = kept(c, r)
            if K is None:
                return True
            x = z3.Const("x", Lab)
            return z3.ForAll([x], z3.Implies(z3.And(_in(env["FC"], x), z3.Or(NEEDED(x), _in(env["SUB"], x))), _in(K, x)))

        def within(c, env, r):
            if not c.symbolic or r is None:
                return True
            K = kept(c, r)
            if K is None:
                return True
            x = z3.Const("x", Lab)
            return z3.ForAll([x], z3.Implies(_in(K, x), _in(env["FC"], x)))

        def none_only(c, env, r):
            if not c.symbolic or r is not None:
                return True
            x = z3.Const("x", Lab)
            return z3.ForAll([x], z3.Implies(_in(env["FC"], x), z3.Or(_in(env["U"], x), _in(env["SUB"], x))))

        return {"same-operation-on-fewer-columns": shape, "kept-covers-needs-and-implicit-keys": covers, "kept-within-frame": within, "none-only-if-nothing-dropped": none_only}

    # ---- concrete: the rule applied to real expressions; the rebuilt query is executed and compared
    def concrete_env(self, inputs):
        return None

    def _frame(self):
        import numpy as np
        import pandas as pd

        import dask_expr as dx

        pdf = pd.DataFrame({"a": [1, 1, 2, 2, 3, 3, 1, 2], "b": [1.0, np.nan, 3.0, 3.0, np.nan, 6.0, 7.0, 8.0], "c": [5, 6, 7, 8, 9, 10, 11, 12], "d": list("xyzxyzxy")})
        return pdf, dx.from_pandas(pdf, npartitions=3)

    def _evaluate(self, x, sel):
        import dask

        from dask_expr._core import collect_dependents

        q = x[sel]
        out = x.expr._simplify_up(q.expr, collect_dependents(q.expr))
        env = {"same_result": True, "keys_kept": True}
        if out is not None:
            def run(e):
                e = e.lower_completely()
                import pandas as pd

                parts = dask.get(dict(e.__dask_graph__()), e.__dask_keys__())
                return pd.concat(parts)

            a, b = run(q.expr), run(out)
            cols = list(a.columns) if hasattr(a, "columns") else None
            key = (lambda f: f.sort_values(cols).reset_index(drop=True)) if cols else (lambda f: f.sort_values().reset_index(drop=True))
            env["same_result"] = key(a).equals(key(b))
            inner = out.frame if type(out) is type(q.expr) else out
            subset = x.expr.subset if isinstance(x.expr.subset, list) else [x.expr.subset]
            env["keys_kept"] = all(c in inner.frame.columns for c in subset)
        return env, out


class DropDuplicatesPrune(_SubsetPrune):
    file, qualname = "dask_expr/_reductions.py", "DropDuplicates._simplify_up"

    def concrete_inputs(self):
        for keep in ("first", "last"):
            for subset in (["a"], ["a", "d"]):
                for sel in (["b"], ["c", "b"], ["a"], ["a", "b", "c", "d"]):
                    yield {"keep": keep, "subset": subset, "sel": sel}

    def run_concrete(self, inputs):
        pdf, df = self._frame()
        x = df.drop_duplicates(subset=inputs["subset"], keep=inputs["keep"], split_out=1)
        return self._evaluate(x, inputs["sel"])


class DropnaPrune(_SubsetPrune):
    file, qualname = "dask_expr/_expr.py", "DropnaFrame._simplify_up"

    def concrete_inputs(self):
        for how in ("any", "all"):
            for subset in (["b"], ["b", "c"]):
                for sel in (["a"], ["c", "a"], ["b"], ["a", "b", "c", "d"]):
                    yield {"how": how, "subset": subset, "sel": sel}

    def run_concrete(self, inputs):
        pdf, df = self._frame()
        x = df.dropna(how=inputs["how"], subset=inputs["subset"])
        return self._evaluate(x, inputs["sel"])


SPECS = [DropDuplicatesPrune(), DropnaPrune()]


# ---------------------------------------------------------------------------------------------------------------------
# the same family with other implicit keys: SortValues (by), SetIndexBlockwise (other)
# ---------------------------------------------------------------------------------------------------------------------
class _KeyPrune(_SubsetPrune):
    key_attr = "by"
    key_is_scalar = False

    def make_inputs(self, ex, sym, fr):
        env = super().make_inputs(ex, sym, fr)
        me, parent = env["self"], env["parent"]
        del me.attrs["subset"]
        if self.key_is_scalar:
            k0 = z3.Const("the_key_column", Lab)
            me.attrs[self.key_attr] = k0
            env["SUB"] = Seq.of([k0], "list")
        else:
            me.attrs[self.key_attr] = env["SUB"]
        pcols = Opaque("parent_columns_operand")
        parent.attrs["operand"] = contract_fn(lambda e, f, name: pcols if name == "columns" else Opaque("parent." + name))
        me.attrs.update({"na_position": "last", "ignore_index": False, "ascending": True, "operand": contract_fn(lambda e, f, name: None if name == "sort_function" else Opaque("self." + name))})
        env["pcols"] = pcols
        return env

    def call(self, ex, fr, name, args, kwargs):
        if name == "_convert_to_list":
            a = args[0]
            if z3.is_expr(a):
                return ex.new_list(fr, Seq.of([a], "list"))
            return a
        if name == "type(parent)":
            if len(args) == 2 and args[1] == Opaque("parent_columns_operand"):
                return Term("Parent", (args[0],))
            from vf.pyvc.exec import Unsupported

            raise Unsupported("the parent is rebuilt with other operands than its own")
        return super().call(ex, fr, name, args, kwargs)


class SortValuesPrune(_KeyPrune):
    """SortValues._simplify_up with a Projection parent (its Head / Tail / Filter / Repartition branches are outside this contract)."""

    file, qualname, key_attr = "dask_expr/_shuffle.py", "SortValues._simplify_up", "by"
    scenario = "projection-branch"

    def concrete_inputs(self):
        for by in (["b"], ["a", "c"]):
            for asc in (True, False):
                for sel in (["a"], ["c", "a"], ["b"], ["d"], ["a", "b", "c", "d"]):
                    yield {"by": by, "ascending": asc, "sel": sel}

    def run_concrete(self, inputs):
        pdf, df = self._frame()
        x = df.sort_values(inputs["by"], ascending=inputs["ascending"])
        return self._evaluate_keys(x, inputs["sel"], inputs["by"])

    def _evaluate_keys(self, x, sel, keys):
        import dask
        import pandas as pd

        from dask_expr._core import collect_dependents

        q = x[sel]
        out = x.expr._simplify_up(q.expr, collect_dependents(q.expr))
        env = {"same_result": True, "keys_kept": True}
        if out is not None:
            def run(e):
                e = e.optimize(fuse=False) if hasattr(e, "optimize") else e
                parts = dask.get(dict(e.__dask_graph__()), e.__dask_keys__())
                return pd.concat(parts)

            a, b = run(q.expr), run(out)
            env["same_result"] = a.reset_index(drop=True).equals(b.reset_index(drop=True)) or a.sort_values(list(a.columns)).reset_index(drop=True).equals(b.sort_values(list(b.columns)).reset_index(drop=True))
            inner = out.frame if type(out) is type(q.expr) else out
            env["keys_kept"] = all(c in inner.frame.columns for c in keys)
        return env, out


class SetIndexBlockwisePrune(_KeyPrune):
    file, qualname, key_attr, key_is_scalar = "dask_expr/_shuffle.py", "SetIndexBlockwise._simplify_up", "other", True

    def concrete_inputs(self):
        for sel in (["a"], ["c", "a"], ["b"], ["a", "b", "d"]):
            for drop in (True, False):
                yield {"sel": sel, "drop": drop}

    def run_concrete(self, inputs):
        import dask_expr as dx
        from dask_expr._shuffle import SetIndexBlockwise

        pdf, df = self._frame()
        x = dx.new_collection(SetIndexBlockwise(df.expr, "c", inputs["drop"], None))
        if any(s not in x.columns for s in inputs["sel"]):
            raise SkipInput()
        return SortValuesPrune._evaluate_keys(self, x, inputs["sel"], ["c"])


SPECS += [SortValuesPrune(), SetIndexBlockwisePrune()]


class SetIndexPrune(_KeyPrune):
    """SetIndex._simplify_up with a Projection parent and a column label as the new index (an expression as the new index
    brings no implicit column; Head / Tail / Filter branches are outside this contract)."""

    file, qualname, key_attr, key_is_scalar = "dask_expr/_shuffle.py", "SetIndex._simplify_up", "_other", True
    scenario = "projection-branch"

    def make_inputs(self, ex, sym, fr):
        env = super().make_inputs(ex, sym, fr)
        env["self"].attrs["drop"] = True
        return env

    def concrete_inputs(self):
        for sel in (["a"], ["d", "a"], ["b"], ["a", "b", "d"]):
            for drop in (True, False):
                yield {"sel": sel, "drop": drop}

    def run_concrete(self, inputs):
        pdf, df = self._frame()
        x = df.set_index("c", drop=inputs["drop"])
        if any(s not in x.columns for s in inputs["sel"]):
            raise SkipInput()
        return SortValuesPrune._evaluate_keys(self, x, inputs["sel"], ["c"])


class ShufflePrune(_KeyPrune):
    """ShuffleBase._simplify_up with a Projection parent: the columns the rows are partitioned on are implicit keys."""

    file, qualname, key_attr = "dask_expr/_shuffle.py", "ShuffleBase._simplify_up", "partitioning_index"
    scenario = "projection-branch"

    def subscript(self, ex, fr, base, idx):
        if isinstance(base, Term) and base.cls == "Rebuilt" and idx == Opaque("parent_columns_operand"):
            return Term("Parent", (base,))
        return super().subscript(ex, fr, base, idx)

    def concrete_inputs(self):
        for on in (["a"], ["a", "d"]):
            for sel in (["b"], ["c", "b"], ["a"], ["a", "b", "c", "d"]):
                yield {"on": on, "sel": sel}

    def run_concrete(self, inputs):
        pdf, df = self._frame()
        x = df.shuffle(inputs["on"], npartitions=2)
        return SortValuesPrune._evaluate_keys(self, x, inputs["sel"], inputs["on"])


SPECS += [SetIndexPrune(), ShufflePrune()]
