"""All tier-P contracts; a property's driver discharges those that list the property."""
from __future__ import annotations

import importlib

MODULES = ["repartition", "partitions", "layers", "decisions", "divisions", "parquet_stats", "drivers", "filters", "serialize", "caches", "projection", "rules", "deps", "prune_rules", "boundaries"]


def all_specs():
    out = []
    for m in MODULES:
        try:
            mod = importlib.import_module("vf.contracts." + m)
        except ModuleNotFoundError as e:
            if e.name == "vf.contracts." + m:
                continue
            raise
        out.extend(mod.SPECS)
    return out


def run_property_specs(run, pid):
    from vf.props._p import run_specs

    return run_specs(run, all_specs(), pid)
