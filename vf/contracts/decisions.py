"""Contracts for planner decisions that must never change results (C10): which join algorithm is legal.

Merge.is_broadcast_join decides between a broadcast join and a hash join.  A broadcast join replicates one input
and merges every partition of the OTHER input with it independently, so a row of the replicated input that finds
no partner in one partition of the other input would be emitted once per partition: the replicated side must
therefore never be a side whose unmatched rows the join keeps (left for how='left', right for how='right', both
for 'outer'), and 'leftsemi' (which returns rows of the left input) must not replicate the left input.
"""
from __future__ import annotations

import itertools

import z3

from vf.pyvc.spec import Spec
from vf.pyvc.values import Obj, Opaque, fresh_real


class IsBroadcastJoin(Spec):
    file, qualname, props = "dask_expr/_merge.py", "Merge.is_broadcast_join", ["C10", "C02"]
    assumptions = ["A2-floats-as-reals: math.log2(n) * bias is evaluated over the reals; math.log2 is only assumed >= 0 for n >= 1"]

    HOWS = ("inner", "left", "right", "outer", "leftsemi")
    case = {"how": "inner", "side": "left", "broadcast": None, "method": None, "default": "tasks"}

    def cases(self):
        for how, side, b, (m, d) in itertools.product(self.HOWS, ("left", "right"), (None, True, False, "float"), ((None, "tasks"), (None, "disk"), ("tasks", "disk"), ("disk", "tasks"), ("p2p", "tasks"))):
            yield {"how": how, "side": side, "broadcast": b, "method": m, "default": d}

    def make_inputs(self, ex, sym, fr):
        k = self.case
        nl, nr = sym.int("n_left", lo=1), sym.int("n_right", lo=1)
        b = k["broadcast"]
        if b == "float":
            b = z3.Real("bias")
        s = Obj(
            "self",
            {"broadcast": b, "broadcast_side": k["side"], "shuffle_method": k["method"], "how": k["how"], "left": Obj("left", {"npartitions": nl}), "right": Obj("right", {"npartitions": nr})},
            cls=("Merge", "Expr"),
        )
        return {"self": s, "n_left": nl, "n_right": nr}

    def requires(self):
        side = self.case["side"]
        # Merge.broadcast_side: "left" iff left.npartitions < right.npartitions
        return {"broadcast-side-is-the-smaller-input": lambda c, e: (e["n_left"] < e["n_right"]) if side == "left" else (e["n_left"] >= e["n_right"])}

    def call(self, ex, fr, name, args, kwargs):
        if name == "get_default_shuffle_method":
            return self.case["default"]
        if name == "math.log2":
            r = fresh_real("log2")
            fr.pc.append(r >= 0)
            return r
        return NotImplemented

    def legal(self):
        k = self.case
        method = k["method"] or k["default"]
        return (
            method in ("tasks", "p2p")
            and k["how"] in ("inner", "left", "right", "leftsemi")
            and not (k["how"] == "left" and k["side"] == "left")
            and not (k["how"] == "right" and k["side"] == "right")
            and not (k["how"] == "leftsemi" and k["side"] == "left")
            and k["broadcast"] is not False
        )

    def ensures(self):
        legal, forced = self.legal(), self.case["broadcast"] is True
        return {
            "broadcast-only-when-legal": lambda c, e, r: c.Implies(c.truth(r), legal),
            "forced-broadcast-honoured-when-legal": lambda c, e, r: c.Implies(forced and legal, c.truth(r)),
            "returns-a-bool": lambda c, e, r: isinstance(r, bool) or (c.symbolic and z3.is_bool(r)),
        }

    # concrete: the real cached_property on real Merge objects
    def concrete_inputs(self):
        for k in self.cases():
            for nl, nr in ((1, 1), (1, 8), (8, 1), (2, 40), (40, 3), (5, 5)):
                if (nl < nr) == (k["side"] == "left"):
                    yield dict(k, nl=nl, nr=nr)

    def concrete_env(self, inputs):
        return None

    def run_concrete(self, inputs):
        import dask
        from dask_expr._merge import Merge

        from vf.rt.stub import stub_frame

        self.case = {x: inputs[x] for x in ("how", "side", "broadcast", "method", "default")}
        b = 0.7 if inputs["broadcast"] == "float" else inputs["broadcast"]
        # Merge objects are singletons by operands and is_broadcast_join is cached on them: use frames that are
        # distinct per configured default so each case evaluates the property afresh
        l, r = stub_frame(npartitions=inputs["nl"], tag="L" + inputs["default"]), stub_frame(npartitions=inputs["nr"], tag="R" + inputs["default"])
        with dask.config.set({"dataframe.shuffle.method": inputs["default"]}):
            m = Merge(l, r, inputs["how"], "x", "x", False, False, ("_x", "_y"), False, inputs["method"], None, b)
            res = m.is_broadcast_join
        return {"n_left": inputs["nl"], "n_right": inputs["nr"]}, res

    def inputs_from_model(self, model, sz, sym):
        return dict(self.case, nl=sym.read_int(model, "n_left"), nr=sym.read_int(model, "n_right"))


class IsSinglePartitionBroadcast(Spec):
    """Merge._is_single_partition_broadcast: merging every partition of one input with THE single partition of the
    other is legal only if the single-partition input's unmatched rows are not kept (they would be repeated once per
    partition of the other input), or if both inputs have one partition (one pandas merge)."""

    file, qualname, props = "dask_expr/_merge.py", "Merge._is_single_partition_broadcast", ["C10", "C02"]
    case = {"how": "inner"}

    def cases(self):
        for how in IsBroadcastJoin.HOWS:
            yield {"how": how}

    def make_inputs(self, ex, sym, fr):
        nl, nr = sym.int("n_left", lo=1), sym.int("n_right", lo=1)
        s = Obj("self", {"how": self.case["how"], "left": Obj("left", {"npartitions": nl}), "right": Obj("right", {"npartitions": nr})}, cls=("Merge", "Expr"))
        return {"self": s, "n_left": nl, "n_right": nr}

    def ensures(self):
        how = self.case["how"]

        def legal(c, e):
            return c.Or(
                c.And(c.eq(e["n_left"], 1), c.eq(e["n_right"], 1)),
                c.And(c.eq(e["n_left"], 1), how in ("right", "inner")),
                c.And(c.eq(e["n_right"], 1), how in ("left", "inner", "leftsemi")),
            )

        return {
            "single-partition-broadcast-only-when-legal": lambda c, e, r: c.Implies(c.truth(r), legal(c, e)),
            "taken-whenever-legal": lambda c, e, r: c.Implies(legal(c, e), c.truth(r)),
        }

    def concrete_inputs(self):
        for how in IsBroadcastJoin.HOWS:
            for nl, nr in ((1, 1), (1, 4), (4, 1), (3, 3)):
                yield {"how": how, "nl": nl, "nr": nr}

    def concrete_env(self, inputs):
        return None

    def run_concrete(self, inputs):
        from dask_expr._merge import Merge

        from vf.rt.stub import stub_frame

        self.case = {"how": inputs["how"]}
        l, r = stub_frame(npartitions=inputs["nl"], tag="Ls"), stub_frame(npartitions=inputs["nr"], tag="Rs")
        return {"n_left": inputs["nl"], "n_right": inputs["nr"]}, Merge(l, r, inputs["how"], "x", "x")._is_single_partition_broadcast

    def inputs_from_model(self, model, sz, sym):
        return {"how": self.case["how"], "nl": sym.read_int(model, "n_left"), "nr": sym.read_int(model, "n_right")}


SPECS = [IsBroadcastJoin(), IsSinglePartitionBroadcast()]
