"""Contracts PROVED for small dependency functions the shuffle planner relies on (they were assumed before): the verified
text is the installed source of `dask.utils` (re-read on every run, like repository functions)."""
from __future__ import annotations

import z3

from vf.pyvc.spec import Spec

DASK_UTILS = "/venv/lib/python3.12/site-packages/dask/utils.py"


class DaskUtilsInsert(Spec):
    """dask.utils.insert(tup, loc, val): a tuple of the same length that differs from `tup` exactly at `loc`, where it holds
    `val` (TaskShuffle._layer builds the key of the next stage from the key of this one by replacing one digit)."""

    file, qualname, props = DASK_UTILS, "insert", ["C12"]
    notes = "dependency (installed dask), not a repository function"

    def make_inputs(self, ex, sym, fr):
        tup = sym.seq("tup", kind="tuple", min_len=1)
        loc, val = sym.int("loc"), sym.int("val")
        return {"tup": tup, "loc": loc, "val": val}

    def requires(self):
        return {"loc-in-range": lambda c, e: c.And(e["loc"] >= 0, e["loc"] < c.len(e["tup"]))}

    def ensures(self):
        def post(c, e, r):
            if not c.symbolic:
                t = e["tup"]
                return isinstance(r, tuple) and len(r) == len(t) and r[e["loc"]] == e["val"] and all(r[k] == t[k] for k in range(len(t)) if k != e["loc"])
            return c.And(c.eq(c.len(r), c.len(e["tup"])), c.eq(c.at(r, e["loc"]), e["val"]),
                         c.forall(0, c.len(e["tup"]), lambda k: c.Implies(c.ne(k, e["loc"]), c.eq(c.at(r, k), c.at(e["tup"], k)))))

        return {"same-length-one-position-replaced": post}

    def concrete_env(self, inputs):
        return {"tup": inputs["tup"], "loc": inputs["loc"], "val": inputs["val"]}

    def concrete_inputs(self):
        for tup in ((0,), (1, 2), (3, 1, 2)):
            for loc in range(len(tup)):
                yield {"tup": tup, "loc": loc, "val": 7}

    def run_concrete(self, inputs):
        from dask.utils import insert

        return dict(inputs), insert(inputs["tup"], inputs["loc"], inputs["val"])

    def inputs_from_model(self, model, sz, sym):
        return None


SPECS = [DaskUtilsInsert()]
