"""Contract for the generic column-pruning rule (C04): `plain_column_projection`.

`plain_column_projection(expr, parent, dependents)` is the rule behind every "projection passes through" rewrite
(`Blockwise` with `_projection_passthrough`, `MapOverlap`, `Diff`, `ToFrame` ... - 14 call sites): it rebuilds `expr` on
`expr.frame[kept]` and re-applies the parent's selection on top.  Column pruning is invisible iff

  kept-covers-every-need   every column of expr.frame that ANY live consumer of expr needs (the parent included) is in `kept`
  kept-within-frame        `kept` selects only columns the frame has
  none-only-if-nothing-dropped   the rule declines (returns None) only when kept == frame.columns
  parent-selection-reapplied     the result is `type(parent)(rebuilt, parent's columns operand)`, except when `kept` IS that operand
                                 (same labels, same order, and a scalar stays a scalar: a Series must not become a one-column frame)

Callee contract ASSUMED for `determine_column_projection` (weak references, sorting of mixed labels - outside the subset;
evaluated concretely below): it returns a list that contains every needed column, or - only when all consumers are 1-d and
need the same single column - that column as a scalar.  `needed(c)` is an uninterpreted predicate over labels.
The filter comprehension `[col for col in expr.frame.columns if col in column_union]` is given its exact meaning
(membership in both; a sub-sequence of the first).
"""
from __future__ import annotations

import ast
import itertools

import z3

from vf.pyvc.spec import Spec, SkipInput, contract_fn
from vf.pyvc.values import Lab, Obj, Opaque, Seq, Term, fresh_fun, fresh_int, zint

NEEDED = z3.Function("needed_by_some_live_consumer", Lab, z3.BoolSort())


def _in(seq, x):
    if isinstance(seq.length, int):
        return z3.Or(*[seq.get(k) == x for k in range(seq.length)]) if seq.length else z3.BoolVal(False)
    j = fresh_int("j")
    return z3.Exists([j], z3.And(j >= 0, j < zint(seq.length), seq.get(j) == x))


class PlainColumnProjection(Spec):
    file, qualname, props = "dask_expr/_expr.py", "plain_column_projection", ["C04", "C01"]
    case = {"union": "list", "parent": "list"}
    assumptions = ["assumed contract of determine_column_projection: the returned list contains every column a live consumer needs; a scalar is returned only if every consumer needs exactly that one column (evaluated concretely on real expressions; its body - weak references, sorting - is outside the subset)",
                   "object model: expr.frame.columns is a duplicate-free label sequence; type(expr)(frame, *operands[1:]) rebuilds the same operation on another frame"]
    sizes = {"frame_columns": range(1, 4), "union": range(0, 4), "parent_columns": range(1, 3)}

    def cases(self):
        for u, p in itertools.product(("list", "scalar"), ("list", "scalar")):
            yield {"union": u, "parent": p}

    def make_inputs(self, ex, sym, fr):
        FC = sym.seq("frame_columns", Lab, kind="list")
        c = z3.Const("any_label", Lab)
        if self.case["union"] == "list":
            U = sym.seq("union", Lab, kind="list")
            union_val, covers = ("list", U), z3.ForAll([c], z3.Implies(NEEDED(c), _in(U, c)))
        else:
            u = z3.Const("the_single_needed_column", Lab)
            union_val, covers = ("scalar", u), z3.ForAll([c], z3.Implies(NEEDED(c), c == u))
        if self.case["parent"] == "list":
            PC = sym.seq("parent_columns", Lab, kind="list")
            pop = PC
            pneeds = z3.ForAll([c], z3.Implies(_in(PC, c), NEEDED(c)))
        else:
            pc0 = z3.Const("parent_column", Lab)
            pop, PC = pc0, Seq.of([pc0], "list")
            pneeds = NEEDED(pc0)
        sym.pc.append(covers)
        sym.pc.append(pneeds)
        frame = Obj("frame", {"columns": FC}, cls=("Expr",))
        expr = Obj("expr", {"frame": frame, "operands": Opaque("expr.operands")}, cls=("Expr",))
        parent = Obj("parent", {"columns": PC, "operand": contract_fn(lambda e, f, name: pop if name == "columns" else Opaque("parent." + name))}, cls=("Projection", "Expr"))
        self._union_val = union_val
        return {"expr": expr, "parent": parent, "dependents": Opaque("dependents"), "additional_columns": None, "FC": FC, "pop": pop, "frame": frame}

    def call(self, ex, fr, name, args, kwargs):
        if name == "determine_column_projection":
            kind, v = self._union_val
            return ex.new_list(fr, v) if kind == "list" else v
        if name == "builtin:type":
            return Opaque("type(%s)" % args[0].name)
        if name == "type(parent)":
            return Term("Parent", args)
        return NotImplemented

    def filter_comp(self, ex, fr, e, g, it, elt_eval):
        # [col for col in X if <condition on col>]: exactly the elements of X that satisfy the condition, in X's order
        if not (isinstance(e.elt, ast.Name) and isinstance(g.target, ast.Name) and e.elt.id == g.target.id and g.ifs):
            from vf.pyvc.exec import Unsupported

            raise Unsupported("filter comprehension of another shape: " + ast.unparse(e)[:80])
        from vf.pyvc.exec import _and
        from vf.pyvc.values import zbool

        def cond(v):
            f2 = fr.clone()
            f2.env[g.target.id] = v
            ex.quiet += 1
            try:
                return zbool(_and([ex.truth(ex.eval(t, f2), f2) for t in g.ifs]))
            finally:
                ex.quiet -= 1

        f = fresh_fun("kept", z3.IntSort(), Lab)
        pos = fresh_fun("kept_pos", z3.IntSort(), z3.IntSort())
        n = fresh_int("kept_len")
        K = Seq(n, lambda k, f=f: f(zint(k)), "list")
        k, c = fresh_int("k"), z3.Const("c", Lab)
        k2 = fresh_int("k2")
        ex.assume(fr, z3.And(
            n >= 0, n <= zint(it.length),
            z3.ForAll([k], z3.Implies(z3.And(k >= 0, k < n), z3.And(pos(k) >= 0, pos(k) < zint(it.length), it.get(pos(k)) == f(k), cond(f(k))))),
            z3.ForAll([k, k2], z3.Implies(z3.And(0 <= k, k < k2, k2 < n), pos(k) < pos(k2))),
            z3.ForAll([c], z3.Implies(z3.And(_in(it, c), cond(c)), _in(K, c))),
            z3.Implies(z3.ForAll([k], z3.Implies(z3.And(k >= 0, k < zint(it.length)), cond(it.get(k)))), z3.And(n == zint(it.length), z3.ForAll([k], z3.Implies(z3.And(k >= 0, k < n), pos(k) == k)))),
        ))
        return K

    def subscript(self, ex, fr, base, idx):
        if isinstance(base, Obj) and base.name == "frame":
            return Term("Projection", (base, idx))
        return NotImplemented

    def star_call(self, ex, fr, e):
        if ast.unparse(e.func) == "type(expr)" and len(e.args) == 2:
            return Term("Rebuilt", (ex.eval(e.args[0], fr),))
        return NotImplemented

    # the columns the inserted Projection keeps, as a sequence (a scalar selection keeps that one column)
    @staticmethod
    def _kept(ex_or_none, rebuilt, heap):
        proj = rebuilt.args[0]
        sel = proj.args[1]
        from vf.pyvc.values import as_seq

        s = as_seq(sel, heap)
        return s if s is not None else Seq.of([sel], "list")

    def ensures(self):
        def parts(c, r):
            rebuilt = r if r.cls == "Rebuilt" else r.args[0]
            return rebuilt, self._kept(None, rebuilt, c.fr.heap)

        def covers(c, env, r):
            if not c.symbolic:
                return r is None or all(col in env["kept"] for col in env["needed"] if col in env["frame_columns"])
            if r is None:
                return True
            _, K = parts(c, r)
            x = z3.Const("x", Lab)
            return z3.ForAll([x], z3.Implies(z3.And(NEEDED(x), _in(env["FC"], x)), _in(K, x)))

        def within(c, env, r):
            if not c.symbolic:
                return r is None or all(col in env["frame_columns"] for col in env["kept"])
            if r is None:
                return True
            _, K = parts(c, r)
            x = z3.Const("x", Lab)
            return z3.ForAll([x], z3.Implies(_in(K, x), _in(env["FC"], x)))

        def none_only(c, env, r):
            if not c.symbolic:
                return r is not None or [col for col in env["frame_columns"] if col in env["needed"]] == list(env["frame_columns"])
            if r is not None:
                return True
            # nothing a consumer does not need would have been dropped... the rule may only decline when it keeps everything:
            # every column of the frame is in the union the consumers' needs were collected into
            kind, v = self._union_val
            x = z3.Const("x", Lab)
            return z3.ForAll([x], z3.Implies(_in(env["FC"], x), _in(c.ex.seq_of(v, c.fr), x) if kind == "list" else x == v))

        def reapplied(c, env, r):
            if not c.symbolic:
                if r is None:
                    return True
                return env["result_is_parent_selection"] or env["kept_operand"] == env["parent_operand"] and type(env["kept_operand"]) is type(env["parent_operand"])
            if r is None:
                return True
            if r.cls == "Parent":
                return c.ex.equal(r.args[1], env["pop"], c.fr) if not isinstance(r.args[1], z3.ExprRef) or not isinstance(env["pop"], z3.ExprRef) else r.args[1] == env["pop"]
            # the rebuilt node alone: only if what was pushed down IS the parent's selection (labels, order, scalar-ness)
            sel = r.args[0].args[1]
            return c.ex.equal(sel, env["pop"], c.fr)

        return {"kept-covers-every-need": covers, "kept-within-frame": within, "none-only-if-nothing-dropped": none_only, "parent-selection-reapplied": reapplied}

    # ---- concrete: the real function on real expressions whose consumers are all projections ---------------------------
    def concrete_env(self, inputs):
        return None

    def concrete_inputs(self):
        sels = [["a"], ["a", "b"], ["b", "a"], "a", "c", ["c", "d"], ["a", "b", "c", "d"]]
        for op in ("abs", "fillna", "diff", "add1"):
            for parent_sel in sels:
                for other in (None, "b", ["d"], ["a"], "a"):
                    yield {"op": op, "parent": parent_sel, "other": other}

    def run_concrete(self, inputs):
        import pandas as pd

        import dask_expr as dx
        from dask_expr._core import collect_dependents
        from dask_expr._expr import Projection, plain_column_projection

        pdf = pd.DataFrame({"a": [1.0, 2, 3, 4], "b": [2.0, 3, 4, 5], "c": [3.0, 4, 5, 6], "d": [4.0, 5, 6, 7]})
        df = dx.from_pandas(pdf, npartitions=2)
        x = {"abs": lambda: df.abs(), "fillna": lambda: df.fillna(0), "diff": lambda: df.diff(1), "add1": lambda: df + 1}[inputs["op"]]()
        self.case = {"union": "list", "parent": "scalar" if isinstance(inputs["parent"], str) else "list"}
        p = x[inputs["parent"]]
        root = p if inputs["other"] is None else dx.concat([p.to_frame() if p.ndim == 1 else p, (x[inputs["other"]].to_frame() if isinstance(inputs["other"], str) else x[inputs["other"]]).add_prefix("o_")], axis=1)
        parent, expr = p.expr, x.expr
        if not isinstance(parent, Projection) or not hasattr(expr, "frame"):
            raise SkipInput()
        deps = collect_dependents(root.expr)
        r = plain_column_projection(expr, parent, deps)
        needed = set([inputs["parent"]] if isinstance(inputs["parent"], str) else inputs["parent"])
        if inputs["other"] is not None:
            needed |= set([inputs["other"]] if isinstance(inputs["other"], str) else inputs["other"])
        env = {"needed": needed, "frame_columns": list(expr.frame.columns), "parent_operand": parent.operand("columns")}
        if r is not None:
            rebuilt = r if type(r) is type(expr) else r.frame
            proj = rebuilt.frame
            env["kept"] = list(proj.columns)
            env["kept_operand"] = proj.operand("columns") if isinstance(proj, Projection) else list(proj.columns)
            env["result_is_parent_selection"] = type(r) is type(parent) and r.operand("columns") == parent.operand("columns") and type(r.operand("columns")) is type(parent.operand("columns"))
        return env, r


SPECS = [PlainColumnProjection()]


# ---------------------------------------------------------------------------------------------------------------------
# Merge._simplify_up, Projection / Index branch: which input columns a pruned join keeps
# ---------------------------------------------------------------------------------------------------------------------
from vf.contracts.filters import SFX, SUFFIXES  # noqa: E402
from vf.pyvc.values import Ref, SetVal  # noqa: E402


def _distinct(seq):
    i, j = fresh_int("i"), fresh_int("j")
    return z3.ForAll([i, j], z3.Implies(z3.And(0 <= i, i < j, j < zint(seq.length)), seq.get(i) != seq.get(j)))


class MergeProjection(Spec):
    """Merge._simplify_up with a Projection / Index parent: the join is rebuilt on left[project_left], right[project_right].

    From the property (pruning never changes a result), for every column c the consumers request (`projection`, as
    collected by determine_column_projection - assumed contract):
      requested-columns-are-produced  c is a column of an input            => that input keeps c;
                                      c is x + <that input's suffix> for a column x of an input
                                                                           => that input keeps x, and if the other input has x too it
                                                                              keeps x as well (the suffix is only applied on a clash)
      join-keys-kept                  every key column of an input is kept
      no-duplicate-selection          project_left / project_right select no column twice (a duplicated selection duplicates output columns)
      selection-within-input          only columns the input has
    """

    file, qualname, props = "dask_expr/_merge.py", "Merge._simplify_up", ["C04", "C01"]
    scenario = "projection-branch"
    case = {"suffixes": ("_x", "_y"), "parent": "Projection"}
    sizes = {"left_columns": range(1, 3), "right_columns": range(1, 3), "projection": range(1, 3), "left_on": range(1, 2), "right_on": range(1, 2)}
    assumptions = ["assumed contract of determine_column_projection (see PlainColumnProjection); `_convert_to_list` returns a list unchanged; `is_scalar` is False for a list",
                   "object model: left.columns / right.columns are duplicate-free label sequences; f'{col}{suffix}' is an uninterpreted function of the label per (concrete) suffix"]

    def cases(self):
        for sfx in SUFFIXES:
            for parent in ("Projection", "Index"):
                yield {"suffixes": sfx, "parent": parent}

    def make_inputs(self, ex, sym, fr):
        L, R = sym.seq("left_columns", Lab, kind="list"), sym.seq("right_columns", Lab, kind="list")
        PROJ = sym.seq("projection", Lab, kind="list")
        LO, RO = sym.seq("left_on", Lab, kind="list"), sym.seq("right_on", Lab, kind="list")
        sym.pc.append(_distinct(L))
        sym.pc.append(_distinct(R))
        left, right = Obj("left", {"columns": L}, cls=("Expr",)), Obj("right", {"columns": R}, cls=("Expr",))
        pcols = Opaque("parent_columns_operand")
        parent = Obj("parent", {"operand": contract_fn(lambda e, f, name: pcols)}, cls=("Expr", self.case["parent"]))
        me = Obj("self", {"left": left, "right": right, "left_on": LO, "right_on": RO, "suffixes": self.case["suffixes"], "operands": Opaque("self.operands")}, cls=("Expr", "Merge"))
        self._proj = PROJ
        return {"self": me, "parent": parent, "dependents": Opaque("dependents"), "L": L, "R": R, "PROJ": PROJ, "LO": LO, "RO": RO, "left": left, "right": right, "pcols": pcols}

    def s(self, side, x):
        sfx = self.case["suffixes"][0 if side == "left" else 1]
        return x if sfx == "" else SFX[sfx](x)

    # ---- hooks
    @property
    def callees(self):
        def mk_set(ex, fr, *args):
            if not args:
                return ex.set_of_values([])
            seq = ex.seq_of(args[0], fr)
            sv = SetVal(lambda x, seq=seq: _in(seq, x))
            sv.seq = seq
            return sv

        return {"builtin:set": mk_set}

    def call(self, ex, fr, name, args, kwargs):
        if name == "determine_column_projection":
            return ex.new_list(fr, self._proj)
        if name == "_convert_to_list":
            return args[0]
        if name == "is_scalar":
            return False
        if name == "builtin:type":
            return Opaque("type(%s)" % args[0].name)
        if name == "type(parent)":
            return Term("Index", args)
        return NotImplemented

    def set_compare(self, ex, fr, op, a, b):
        if isinstance(op, ast.Lt) and hasattr(a, "seq") and hasattr(b, "seq"):
            k = fresh_int("k")
            sub = z3.ForAll([k], z3.Implies(z3.And(k >= 0, k < zint(a.seq.length)), _in(b.seq, a.seq.get(k))))
            k2 = fresh_int("k")
            strict = z3.Exists([k2], z3.And(k2 >= 0, k2 < zint(b.seq.length), z3.Not(_in(a.seq, b.seq.get(k2)))))
            return z3.And(sub, strict)
        from vf.pyvc.exec import Unsupported

        raise Unsupported("set comparison of another shape")

    def fstring(self, ex, fr, parts):
        if len(parts) == 2 and isinstance(parts[1], str) and z3.is_expr(parts[0]) and parts[0].sort() == Lab:
            return parts[0] if parts[1] == "" else SFX[parts[1]](parts[0])
        return NotImplemented

    def isinstance_hook(self, ex, fr, v, tname):
        if isinstance(v, Obj):
            return tname in (v.cls or ())
        return NotImplemented

    def havoc(self, ex, fr, name, old):
        if isinstance(old, Ref) and old.kind == "list":
            f = fresh_fun(name, z3.IntSort(), Lab)
            n = fresh_int(name + "_len")
            fr.pc.append(n >= 0)
            fr.heap[old.oid] = Seq(n, lambda k, f=f: f(zint(k)), "list")
            return old
        return NotImplemented

    def subscript(self, ex, fr, base, idx):
        if isinstance(base, Obj) and base.name in ("left", "right"):
            return Term("Projection", (base, idx))
        if isinstance(base, Term):
            return Term("Projection", (base, idx))
        return NotImplemented

    def star_call(self, ex, fr, e):
        if ast.unparse(e.func) == "type(self)" and len(e.args) == 3:
            return Term("Merge", (ex.eval(e.args[0], fr), ex.eval(e.args[1], fr)))
        return NotImplemented

    # ---- the loop invariants: what the two selection lists hold after i columns
    def _conds(self, e):
        L, R, PROJ, LO, RO = e["L"], e["R"], e["PROJ"], e["LO"], e["RO"]
        inL, inR, inP = (lambda x: _in(L, x)), (lambda x: _in(R, x)), (lambda x: _in(PROJ, x))
        sl, sr = (lambda x: self.s("left", x)), (lambda x: self.s("right", x))
        plainL = lambda x: z3.Or(_in(LO, x), inP(x))
        plainR = lambda x: z3.Or(_in(RO, x), inP(x))
        l1 = lambda x: z3.Or(plainL(x), inP(sl(x)))  # loop 1 puts x (a left column) into project_left
        r1 = lambda x: z3.And(inP(sl(x)), inR(x))  # ... and into project_right
        r2 = lambda x: z3.Or(plainR(x), inP(sr(x)))  # loop 2 puts x (a right column) into project_right
        l2 = lambda x: z3.And(inP(sr(x)), inL(x))  # ... and into project_left
        return inL, inR, l1, r1, l2, r2

    @property
    def invariants(self):
        def seen(seq, i, x):
            j = fresh_int("j")
            return z3.Exists([j], z3.And(j >= 0, j < zint(i), seq.get(j) == x))

        def inv0(c, e):
            if not c.symbolic:
                return True
            inL, inR, l1, r1, l2, r2 = self._conds(e)
            PL, PR = c.ex.seq_of(e["_acc"][0], c.fr), c.ex.seq_of(e["_acc"][1], c.fr)
            x = z3.Const("x", Lab)
            return {"left-selection": z3.ForAll([x], _in(PL, x) == z3.And(seen(e["L"], e["_i"], x), l1(x))), "right-selection": z3.ForAll([x], _in(PR, x) == z3.And(seen(e["L"], e["_i"], x), r1(x))),
                    "left-distinct": _distinct(PL), "right-distinct": _distinct(PR)}

        def inv1(c, e):
            if not c.symbolic:
                return True
            inL, inR, l1, r1, l2, r2 = self._conds(e)
            PR, PL = c.ex.seq_of(e["_acc"][0], c.fr), c.ex.seq_of(e["_acc"][1], c.fr)
            x = z3.Const("x", Lab)
            return {"right-selection": z3.ForAll([x], _in(PR, x) == z3.Or(z3.And(inL(x), r1(x)), z3.And(seen(e["R"], e["_i"], x), r2(x)))),
                    "left-selection": z3.ForAll([x], _in(PL, x) == z3.Or(z3.And(inL(x), l1(x)), z3.And(seen(e["R"], e["_i"], x), l2(x)))), "left-distinct": _distinct(PL), "right-distinct": _distinct(PR)}

        return {0: inv0, 1: inv1}

    def ensures(self):
        def kept(c, r):
            if r is None:
                return None
            m = r
            while isinstance(m, Term) and m.cls != "Merge":
                m = m.args[0]
            pl, pr = m.args[0].args[1], m.args[1].args[1]
            return c.ex.seq_of(pl, c.fr), c.ex.seq_of(pr, c.fr)

        def _produced(which):
            def clause(c, e, r):
                if not c.symbolic:
                    return e["ok_produced"]
                k = kept(c, r)
                if k is None:
                    return True
                PL, PR = k
                inL, inR, *_ = self._conds(e)
                cc, x = z3.Const("c", Lab), z3.Const("x", Lab)
                inP = lambda y: _in(e["PROJ"], y)
                if which == "plain-left":
                    return z3.ForAll([cc], z3.Implies(z3.And(inP(cc), inL(cc)), _in(PL, cc)))
                if which == "plain-right":
                    return z3.ForAll([cc], z3.Implies(z3.And(inP(cc), inR(cc)), _in(PR, cc)))
                if which == "suffixed-left":
                    return z3.ForAll([x], z3.Implies(z3.And(inL(x), inP(self.s("left", x))), z3.And(_in(PL, x), z3.Implies(inR(x), _in(PR, x)))))
                return z3.ForAll([x], z3.Implies(z3.And(inR(x), inP(self.s("right", x))), z3.And(_in(PR, x), z3.Implies(inL(x), _in(PL, x)))))

            return clause

        def keys(c, e, r):
            if not c.symbolic:
                return e["ok_keys"]
            k = kept(c, r)
            if k is None:
                return True
            PL, PR = k
            inL, inR, *_ = self._conds(e)
            x = z3.Const("x", Lab)
            return z3.ForAll([x], z3.And(z3.Implies(z3.And(inL(x), _in(e["LO"], x)), _in(PL, x)), z3.Implies(z3.And(inR(x), _in(e["RO"], x)), _in(PR, x))))

        def nodup(c, e, r):
            if not c.symbolic:
                return e["ok_nodup"]
            k = kept(c, r)
            return True if k is None else z3.And(_distinct(k[0]), _distinct(k[1]))

        def within(c, e, r):
            if not c.symbolic:
                return e["ok_within"]
            k = kept(c, r)
            if k is None:
                return True
            PL, PR = k
            inL, inR, *_ = self._conds(e)
            x = z3.Const("x", Lab)
            return z3.ForAll([x], z3.And(z3.Implies(_in(PL, x), inL(x)), z3.Implies(_in(PR, x), inR(x))))

        return {"requested-columns-are-produced:plain-name-of-a-left-column": _produced("plain-left"), "requested-columns-are-produced:plain-name-of-a-right-column": _produced("plain-right"),
                "requested-columns-are-produced:left-column-under-its-suffix": _produced("suffixed-left"), "requested-columns-are-produced:right-column-under-its-suffix": _produced("suffixed-right"), "join-keys-kept": keys, "no-duplicate-selection": nodup, "selection-within-input": within}

    # ---- concrete: real merges; "produced" is decided by executing the pruned join
    def concrete_env(self, inputs):
        return None

    def concrete_inputs(self):
        keycfg = [("on_k", dict(on="k")), ("lk_rj", dict(left_on="k", right_on="j")), ("two", dict(left_on=["k", "b"], right_on=["j", "b"]))]
        sels = [["lv"], ["rv"], ["b_x"], ["b_y"], ["b_x", "b_y"], ["k"], ["k_x"], ["k_y"], ["k_x", "rv"], ["j"], ["lv", "rv"], ["b"], ["z"], ["k_y", "lv"]]
        for sfx, (kn, kw), sel in itertools.product(SUFFIXES, keycfg, sels):
            yield {"suffixes": sfx, "keys": kn, "kw": kw, "sel": sel}

    def run_concrete(self, inputs):
        import pandas as pd

        import dask_expr as dx
        from dask_expr._core import collect_dependents

        lp = pd.DataFrame({"k": [1, 2, 3, 4], "b": [1, 1, 2, 2], "lv": [10, 20, 30, 40], "z": [0, 0, 0, 0]})
        rp = pd.DataFrame({"j": [1, 2, 3, 7], "k": [5, 6, 7, 8], "b": [1, 1, 2, 2], "rv": [1, 2, 3, 4], "y": [1, 1, 1, 1]})
        if inputs["keys"] == "on_k":
            rp = rp.drop(columns=["k"]).rename(columns={"j": "k"})
        self.case = {"suffixes": inputs["suffixes"], "parent": "Projection"}
        left, right = dx.from_pandas(lp, npartitions=2), dx.from_pandas(rp, npartitions=2)
        try:
            m = left.merge(right, suffixes=inputs["suffixes"], **inputs["kw"])
            want = lp.merge(rp, suffixes=inputs["suffixes"], **inputs["kw"])
        except Exception:
            raise SkipInput()
        if any(c not in m.columns for c in inputs["sel"]):
            raise SkipInput()
        q = m[inputs["sel"]]
        out = m.expr._simplify_up(q.expr, collect_dependents(q.expr))
        env = {"ok_produced": True, "ok_keys": True, "ok_nodup": True, "ok_within": True}
        if out is not None:
            mm = out
            while type(mm) is not type(m.expr):
                mm = mm.frame
            pl, pr = list(mm.left.columns), list(mm.right.columns)
            env["ok_nodup"] = len(set(pl)) == len(pl) and len(set(pr)) == len(pr)
            env["ok_within"] = set(pl) <= set(lp.columns) and set(pr) <= set(rp.columns)
            lo = mm.left_on if isinstance(mm.left_on, list) else [mm.left_on]
            ro = mm.right_on if isinstance(mm.right_on, list) else [mm.right_on]
            env["ok_keys"] = all(c in pl for c in lo if c in lp.columns) and all(c in pr for c in ro if c in rp.columns)
            try:
                got = dx.new_collection(out).compute()
                exp = want[inputs["sel"]]
                env["ok_produced"] = list(got.columns) == list(exp.columns) and got.sort_values(list(got.columns)).reset_index(drop=True).equals(exp.sort_values(list(exp.columns)).reset_index(drop=True))
            except Exception:
                env["ok_produced"] = False
        return env, out


SPECS.append(MergeProjection())
