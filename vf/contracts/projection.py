"""Contract for the generic column-pruning rule (C04): `plain_column_projection`.

`plain_column_projection(expr, parent, dependents)` is the rule behind every "projection passes through" rewrite
(`Blockwise` with `_projection_passthrough`, `MapOverlap`, `Diff`, `ToFrame` ... - 14 call sites): it rebuilds `expr` on
`expr.frame[kept]` and re-applies the parent's selection on top.  Column pruning is invisible iff

  kept-covers-every-need   every column of expr.frame that ANY live consumer of expr needs (the parent included) is in `kept`
  kept-within-frame        `kept` selects only columns the frame has
  none-only-if-nothing-dropped   the rule declines (returns None) only when kept == frame.columns
  parent-selection-reapplied     the result is `type(parent)(rebuilt, parent's columns operand)`, except when `kept` IS that operand
                                 (same labels, same order, and a scalar stays a scalar: a Series must not become a one-column frame)

Callee contract ASSUMED for `determine_column_projection` (weak references, sorting of mixed labels - outside the subset;
evaluated concretely below): it returns a list that contains every needed column, or - only when all consumers are 1-d and
need the same single column - that column as a scalar.  `needed(c)` is an uninterpreted predicate over labels.
The filter comprehension `[col for col in expr.frame.columns if col in column_union]` is given its exact meaning
(membership in both; a sub-sequence of the first).
"""
from __future__ import annotations

import ast
import itertools

import z3

from vf.pyvc.spec import Spec, SkipInput, contract_fn
from vf.pyvc.values import Lab, Obj, Opaque, Seq, Term, fresh_fun, fresh_int, zint

NEEDED = z3.Function("needed_by_some_live_consumer", Lab, z3.BoolSort())


def _in(seq, x):
    if isinstance(seq.length, int):
        return z3.Or(*[seq.get(k) == x for k in range(seq.length)]) if seq.length else z3.BoolVal(False)
    j = fresh_int("j")
    return z3.Exists([j], z3.And(j >= 0, j < zint(seq.length), seq.get(j) == x))


class PlainColumnProjection(Spec):
    file, qualname, props = "dask_expr/_expr.py", "plain_column_projection", ["C04", "C01"]
    case = {"union": "list", "parent": "list"}
    assumptions = ["assumed contract of determine_column_projection: the returned list contains every column a live consumer needs; a scalar is returned only if every consumer needs exactly that one column (evaluated concretely on real expressions; its body - weak references, sorting - is outside the subset)",
                   "object model: expr.frame.columns is a duplicate-free label sequence; type(expr)(frame, *operands[1:]) rebuilds the same operation on another frame"]
    sizes = {"frame_columns": range(1, 4), "union": range(0, 4), "parent_columns": range(1, 3)}

    def cases(self):
        for u, p in itertools.product(("list", "scalar"), ("list", "scalar")):
            yield {"union": u, "parent": p}

    def make_inputs(self, ex, sym, fr):
        FC = sym.seq("frame_columns", Lab, kind="list")
        c = z3.Const("any_label", Lab)
        if self.case["union"] == "list":
            U = sym.seq("union", Lab, kind="list")
            union_val, covers = ("list", U), z3.ForAll([c], z3.Implies(NEEDED(c), _in(U, c)))
        else:
            u = z3.Const("the_single_needed_column", Lab)
            union_val, covers = ("scalar", u), z3.ForAll([c], z3.Implies(NEEDED(c), c == u))
        if self.case["parent"] == "list":
            PC = sym.seq("parent_columns", Lab, kind="list")
            pop = PC
            pneeds = z3.ForAll([c], z3.Implies(_in(PC, c), NEEDED(c)))
        else:
            pc0 = z3.Const("parent_column", Lab)
            pop, PC = pc0, Seq.of([pc0], "list")
            pneeds = NEEDED(pc0)
        sym.pc.append(covers)
        sym.pc.append(pneeds)
        frame = Obj("frame", {"columns": FC}, cls=("Expr",))
        expr = Obj("expr", {"frame": frame, "operands": Opaque("expr.operands")}, cls=("Expr",))
        parent = Obj("parent", {"columns": PC, "operand": contract_fn(lambda e, f, name: pop if name == "columns" else Opaque("parent." + name))}, cls=("Projection", "Expr"))
        self._union_val = union_val
        return {"expr": expr, "parent": parent, "dependents": Opaque("dependents"), "additional_columns": None, "FC": FC, "pop": pop, "frame": frame}

    def call(self, ex, fr, name, args, kwargs):
        if name == "determine_column_projection":
            kind, v = self._union_val
            return ex.new_list(fr, v) if kind == "list" else v
        if name == "builtin:type":
            return Opaque("type(%s)" % args[0].name)
        if name == "type(parent)":
            return Term("Parent", args)
        return NotImplemented

    def filter_comp(self, ex, fr, e, g, it, elt_eval):
        # [col for col in X if col in Y]: exactly the elements of X that are in Y, in X's order
        if not (isinstance(e.elt, ast.Name) and isinstance(g.target, ast.Name) and e.elt.id == g.target.id and len(g.ifs) == 1
                and isinstance(g.ifs[0], ast.Compare) and isinstance(g.ifs[0].ops[0], ast.In) and isinstance(g.ifs[0].left, ast.Name) and g.ifs[0].left.id == g.target.id):
            from vf.pyvc.exec import Unsupported

            raise Unsupported("filter comprehension of another shape: " + ast.unparse(e)[:80])
        other = ex.eval(g.ifs[0].comparators[0], fr)
        f = fresh_fun("kept", z3.IntSort(), Lab)
        pos = fresh_fun("kept_pos", z3.IntSort(), z3.IntSort())
        n = fresh_int("kept_len")
        K = Seq(n, lambda k, f=f: f(zint(k)), "list")
        k, c = fresh_int("k"), z3.Const("c", Lab)
        k2 = fresh_int("k2")
        ex.assume(fr, z3.And(
            n >= 0, n <= zint(it.length),
            z3.ForAll([k], z3.Implies(z3.And(k >= 0, k < n), z3.And(pos(k) >= 0, pos(k) < zint(it.length), it.get(pos(k)) == f(k), ex.contains(other, f(k), fr)))),
            z3.ForAll([k, k2], z3.Implies(z3.And(0 <= k, k < k2, k2 < n), pos(k) < pos(k2))),
            z3.ForAll([c], z3.Implies(z3.And(_in(it, c), ex.contains(other, c, fr)), _in(K, c))),
            z3.Implies(z3.ForAll([k], z3.Implies(z3.And(k >= 0, k < zint(it.length)), ex.contains(other, it.get(k), fr))), z3.And(n == zint(it.length), z3.ForAll([k], z3.Implies(z3.And(k >= 0, k < n), pos(k) == k)))),
        ))
        return K

    def subscript(self, ex, fr, base, idx):
        if isinstance(base, Obj) and base.name == "frame":
            return Term("Projection", (base, idx))
        return NotImplemented

    def star_call(self, ex, fr, e):
        if ast.unparse(e.func) == "type(expr)" and len(e.args) == 2:
            return Term("Rebuilt", (ex.eval(e.args[0], fr),))
        return NotImplemented

    # the columns the inserted Projection keeps, as a sequence (a scalar selection keeps that one column)
    @staticmethod
    def _kept(ex_or_none, rebuilt, heap):
        proj = rebuilt.args[0]
        sel = proj.args[1]
        from vf.pyvc.values import as_seq

        s = as_seq(sel, heap)
        return s if s is not None else Seq.of([sel], "list")

    def ensures(self):
        def parts(c, r):
            rebuilt = r if r.cls == "Rebuilt" else r.args[0]
            return rebuilt, self._kept(None, rebuilt, c.fr.heap)

        def covers(c, env, r):
            if not c.symbolic:
                return r is None or all(col in env["kept"] for col in env["needed"] if col in env["frame_columns"])
            if r is None:
                return True
            _, K = parts(c, r)
            x = z3.Const("x", Lab)
            return z3.ForAll([x], z3.Implies(z3.And(NEEDED(x), _in(env["FC"], x)), _in(K, x)))

        def within(c, env, r):
            if not c.symbolic:
                return r is None or all(col in env["frame_columns"] for col in env["kept"])
            if r is None:
                return True
            _, K = parts(c, r)
            x = z3.Const("x", Lab)
            return z3.ForAll([x], z3.Implies(_in(K, x), _in(env["FC"], x)))

        def none_only(c, env, r):
            if not c.symbolic:
                return r is not None or [col for col in env["frame_columns"] if col in env["needed"]] == list(env["frame_columns"])
            if r is not None:
                return True
            # nothing a consumer does not need would have been dropped... the rule may only decline when it keeps everything:
            # every column of the frame is in the union the consumers' needs were collected into
            kind, v = self._union_val
            x = z3.Const("x", Lab)
            return z3.ForAll([x], z3.Implies(_in(env["FC"], x), _in(c.ex.seq_of(v, c.fr), x) if kind == "list" else x == v))

        def reapplied(c, env, r):
            if not c.symbolic:
                if r is None:
                    return True
                return env["result_is_parent_selection"] or env["kept_operand"] == env["parent_operand"] and type(env["kept_operand"]) is type(env["parent_operand"])
            if r is None:
                return True
            if r.cls == "Parent":
                return c.ex.equal(r.args[1], env["pop"], c.fr) if not isinstance(r.args[1], z3.ExprRef) or not isinstance(env["pop"], z3.ExprRef) else r.args[1] == env["pop"]
            # the rebuilt node alone: only if what was pushed down IS the parent's selection (labels, order, scalar-ness)
            sel = r.args[0].args[1]
            return c.ex.equal(sel, env["pop"], c.fr)

        return {"kept-covers-every-need": covers, "kept-within-frame": within, "none-only-if-nothing-dropped": none_only, "parent-selection-reapplied": reapplied}

    # ---- concrete: the real function on real expressions whose consumers are all projections ---------------------------
    def concrete_env(self, inputs):
        return None

    def concrete_inputs(self):
        sels = [["a"], ["a", "b"], ["b", "a"], "a", "c", ["c", "d"], ["a", "b", "c", "d"]]
        for op in ("abs", "fillna", "diff", "add1"):
            for parent_sel in sels:
                for other in (None, "b", ["d"], ["a"], "a"):
                    yield {"op": op, "parent": parent_sel, "other": other}

    def run_concrete(self, inputs):
        import pandas as pd

        import dask_expr as dx
        from dask_expr._core import collect_dependents
        from dask_expr._expr import Projection, plain_column_projection

        pdf = pd.DataFrame({"a": [1.0, 2, 3, 4], "b": [2.0, 3, 4, 5], "c": [3.0, 4, 5, 6], "d": [4.0, 5, 6, 7]})
        df = dx.from_pandas(pdf, npartitions=2)
        x = {"abs": lambda: df.abs(), "fillna": lambda: df.fillna(0), "diff": lambda: df.diff(1), "add1": lambda: df + 1}[inputs["op"]]()
        self.case = {"union": "list", "parent": "scalar" if isinstance(inputs["parent"], str) else "list"}
        p = x[inputs["parent"]]
        root = p if inputs["other"] is None else dx.concat([p.to_frame() if p.ndim == 1 else p, (x[inputs["other"]].to_frame() if isinstance(inputs["other"], str) else x[inputs["other"]]).add_prefix("o_")], axis=1)
        parent, expr = p.expr, x.expr
        if not isinstance(parent, Projection) or not hasattr(expr, "frame"):
            raise SkipInput()
        deps = collect_dependents(root.expr)
        r = plain_column_projection(expr, parent, deps)
        needed = set([inputs["parent"]] if isinstance(inputs["parent"], str) else inputs["parent"])
        if inputs["other"] is not None:
            needed |= set([inputs["other"]] if isinstance(inputs["other"], str) else inputs["other"])
        env = {"needed": needed, "frame_columns": list(expr.frame.columns), "parent_operand": parent.operand("columns")}
        if r is not None:
            rebuilt = r if type(r) is type(expr) else r.frame
            proj = rebuilt.frame
            env["kept"] = list(proj.columns)
            env["kept_operand"] = proj.operand("columns") if isinstance(proj, Projection) else list(proj.columns)
            env["result_is_parent_selection"] = type(r) is type(parent) and r.operand("columns") == parent.operand("columns") and type(r.operand("columns")) is type(parent.operand("columns"))
        return env, r


SPECS = [PlainColumnProjection()]
