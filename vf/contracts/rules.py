"""Contracts for partition-selection rewrite rules (C11, C01): `Partitions._simplify_down`.

Selecting partitions P of x must equal the P-th partitions of x.  The rule has two branches:

  push-through   x = op(a, b, ...) partitionwise: select P in every operand that is an expression with the frame's partitioning
                 (not a broadcast operand, not a literal), keep the others, keep the operand order.  Never through operations
                 whose output partition i is not a function of input partition i alone (overlapping windows `MapOverlap`, fused
                 groups, I/O leaves, the blockwise set_index helper).
  composition    x carries its own selection Q (`PartitionsFiltered`): the new selection is [Q[p] for p in P] - x's own numbering
                 composed with the request - in the order and multiplicity of P; every Q[p] is in range.

Object model: the frame's class tags are enumerated (cases); operands are a literal, an aligned expression and an
expression whose broadcast-ness `_broadcast_dep` decides (symbolic); `substitute_parameters` returns a term.
"""
from __future__ import annotations

import ast

import z3

from vf.pyvc.spec import Spec, SkipInput, contract_fn
from vf.pyvc.values import Ite, Obj, Opaque, Seq, Term, as_seq, zint

E = "dask_expr/_expr.py"
EXCLUDED = ("BlockwiseIO", "Fused", "SetIndexBlockwise", "MapOverlap")


class PartitionsSimplifyDown(Spec):
    file, qualname, props = E, "Partitions._simplify_down", ["C11", "C01"]
    case = {"tags": ("Blockwise",), "partitionwise": True, "filtered": None}
    assumptions = ["object model of the frame: class membership is given by tags; `_is_partitionwise` and `_broadcast_dep` are the frame's own attributes (contracts: Blockwise._broadcast_dep is proved separately)",
                   "precondition from Partitions' constructor call sites: every requested partition number is a valid partition of the frame"]

    def cases(self):
        for tags in (("Blockwise",), ("Blockwise", "MapOverlap"), ("Blockwise", "Fused"), ("Blockwise", "SetIndexBlockwise"), ("Blockwise", "BlockwiseIO"), ("Blockwise", "BlockwiseIO", "PartitionsFiltered"),
                     ("PartitionsFiltered",), ("Blockwise", "MapOverlap", "PartitionsFiltered"), ("Other",)):
            for pw in ((True, False) if "Blockwise" in tags else (False,)):
                for filt in (("set", "unset") if "PartitionsFiltered" in tags else (None,)):
                    yield {"tags": tags, "partitionwise": pw, "filtered": filt}

    def make_inputs(self, ex, sym, fr):
        k = self.case
        P = sym.seq("P", kind="list")
        bc = sym.bool("second_operand_is_broadcast")
        a = Obj("operand_a", {}, cls=("Expr",))
        b = Obj("operand_b", {}, cls=("Expr",))
        lit = z3.Int("literal_operand")
        attrs = {"operands": (a, b, lit), "_is_partitionwise": k["partitionwise"],
                 "_broadcast_dep": contract_fn(lambda e, f, op: bc if op is b else False),
                 "substitute_parameters": contract_fn(lambda e, f, d: Term("SubstituteParameters", (d,)))}
        env = {"P": P, "a": a, "b": b, "lit": lit, "bc": bc}
        if k["filtered"] is not None:
            n = sym.int("frame_npartitions", lo=0)
            if k["filtered"] == "set":
                Q = sym.seq("Q", kind="list")
                attrs["_partitions"] = Q
                sym.pc.append(zint(Q.length) == n)
            else:
                Q = Seq(n, lambda j: zint(j), "range")  # PartitionsFiltered._partitions of an unfiltered node: range(npartitions)
                attrs["_partitions"] = Q
            env.update({"Q": Q, "n": n})
        frame = Obj("frame", attrs, cls=("Expr",) + k["tags"])
        env["self"] = Obj("self", {"frame": frame, "partitions": P}, cls=("Partitions", "Expr"))
        env["frame"] = frame
        return env

    def requires(self):
        if self.case["filtered"] is None:
            return {}
        return {"requested-partitions-exist": lambda c, e: c.forall(0, c.len(e["P"]), lambda j: c.And(c.at(e["P"], j) >= 0, c.at(e["P"], j) < e["n"]))}

    def call(self, ex, fr, name, args, kwargs):
        if name == "Partitions":
            return Term("Partitions", args)
        return NotImplemented

    def star_call(self, ex, fr, e):
        if ast.unparse(e.func) == "type(self.frame)" and len(e.args) == 1 and isinstance(e.args[0], ast.Starred):
            s = ex.seq_of(ex.eval(e.args[0].value, fr), fr)
            if not isinstance(s.length, int):
                return NotImplemented
            return Term("Rebuilt", tuple(s.get(j) for j in range(s.length)))
        return NotImplemented

    def isinstance_hook(self, ex, fr, v, tname):
        if isinstance(v, Obj):
            return tname in (v.cls or ())
        if z3.is_expr(v):
            return False  # a literal operand is not an expression
        return NotImplemented

    def ensures(self):
        k = self.case
        through = "Blockwise" in k["tags"] and k["partitionwise"] and not any(t in k["tags"] for t in EXCLUDED)

        def branch(c, env, r):
            if not c.symbolic:
                return True
            if through:
                return isinstance(r, Term) and r.cls == "Rebuilt"
            if k["filtered"] is not None:
                return isinstance(r, Term) and r.cls == "SubstituteParameters"
            return r is None

        def pushed(c, env, r):
            if not c.symbolic or not (isinstance(r, Term) and r.cls == "Rebuilt"):
                return True
            if len(r.args) != 3:
                return False
            ra, rb, rl = r.args
            okP = lambda t: isinstance(t, Term) and t.cls == "Partitions" and len(t.args) == 2 and t.args[1] is env["P"] or (isinstance(t, Term) and t.cls == "Partitions" and c.ex.equal(t.args[1], env["P"], c.fr) is True)
            first = isinstance(ra, Term) and ra.cls == "Partitions" and ra.args[0] is env["a"] and okP(ra)
            if isinstance(rb, Ite):
                second = c.And(isinstance(rb.a, Term) and rb.a.cls == "Partitions" and rb.a.args[0] is env["b"] and okP(rb.a) and rb.b is env["b"], rb.c == z3.Not(env["bc"]))
            else:
                second = False
            return c.And(first, second, rl is env["lit"])

        def composed(c, env, r):
            if not c.symbolic or not (isinstance(r, Term) and r.cls == "SubstituteParameters"):
                return True
            d = r.args[0]
            sel = c.lookup(d, ("_partitions",)) if hasattr(d, "oid") else None
            s = as_seq(sel, c.fr.heap) if sel is not None else None
            if s is None:
                return False
            P, Q = env["P"], env["Q"]
            return c.And(c.eq(c.len(s), c.len(P)), c.forall(0, c.len(P), lambda j: c.eq(c.at(s, j), c.at(Q, c.at(P, j)))))

        return {"branch-taken-matches-the-kind-of-frame": branch, "selection-pushed-into-aligned-expression-operands-only": pushed, "selection-composed-with-the-frames-own": composed}

    # concrete: real expressions
    def concrete_env(self, inputs):
        return None

    def concrete_inputs(self):
        for prog in ("add", "add_scalar_reduction", "fillna", "shift", "from_pandas", "from_pandas_filtered", "cumsum", "fused_like"):
            for P in ([0], [1], [2, 0], [1, 1]):
                yield {"program": prog, "P": P}

    def run_concrete(self, inputs):
        import pandas as pd

        import dask_expr as dx
        from dask_expr._expr import Partitions

        pdf = pd.DataFrame({"a": range(12), "b": [float(x) for x in range(12)]})
        df = dx.from_pandas(pdf, npartitions=3)
        x = {"add": lambda: df.a + df.b, "add_scalar_reduction": lambda: df.a + df.a.sum(), "fillna": lambda: df.fillna(1), "shift": lambda: df.a.shift(1), "from_pandas": lambda: df,
             "from_pandas_filtered": lambda: df.partitions[[2, 1, 0]].optimize(), "cumsum": lambda: df.a.cumsum(), "fused_like": lambda: (df.a + 1).optimize()}[inputs["program"]]()
        e = Partitions(x.expr, inputs["P"])
        out = e._simplify_down()
        env = {"expr": e, "out": out}
        return env, out


class _ConcretePost:
    pass


def _concrete_partitions_equal(env):
    """x.partitions[P] computed through the rule's output equals the P-th partitions of x computed directly."""
    import dask
    import pandas as pd

    e, out = env["expr"], env["out"]
    if out is None:
        return True
    x = e.frame.lower_completely()
    g = dict(x.__dask_graph__())
    parts = dask.get(g, x.__dask_keys__())
    want = [parts[p] for p in e.partitions]
    o = out.lower_completely()
    got = dask.get(dict(o.__dask_graph__()), o.__dask_keys__())
    return len(got) == len(want) and all((a.equals(b) if hasattr(a, "equals") else a == b) for a, b in zip(got, want))


_orig_ensures = PartitionsSimplifyDown.ensures


def _ensures(self):
    posts = _orig_ensures(self)
    posts["selected-partitions-equal-the-partitions-of-the-frame"] = lambda c, env, r: True if c.symbolic else _concrete_partitions_equal(env)
    return posts


PartitionsSimplifyDown.ensures = _ensures

SPECS = [PartitionsSimplifyDown()]


# ---------------------------------------------------------------------------------------------------------------------
# Head._simplify_down / Head._lower
# ---------------------------------------------------------------------------------------------------------------------
from vf.pyvc.values import Lab  # noqa: E402

ROOT = z3.Function("rows_root_name", Lab, Lab)


class HeadSimplifyDown(Spec):
    """head(n, npartitions=k) of an elementwise operation = the operation on head(n, k) of every operand that carries the
    frame's rows - with THE SAME n and THE SAME k - provided all row operands have the same rows; broadcast operands and
    literals are passed on unchanged; on a single partition, where a column cannot be told from a broadcast operand, the
    operation stays below the head.  head(n) of head(m, k) = head(min(n, m), k) of the inner frame."""

    file, qualname, props = E, "Head._simplify_down", ["C11", "C01"]
    case = {"frame": "Elemwise", "b_is_row_operand": True}
    assumptions = ["object model: the frame's operands are (expression a, expression b, literal); `_row_operands` returns the operands that carry rows (a, and b unless it is a broadcast operand); `_rows_root(e)._name` is an uninterpreted function of e's name; distinct expressions have distinct names (C08)"]

    def cases(self):
        yield {"frame": "Elemwise", "b_is_row_operand": True}
        yield {"frame": "Elemwise", "b_is_row_operand": False}
        yield {"frame": "Head", "b_is_row_operand": True}
        yield {"frame": "Other", "b_is_row_operand": True}

    def make_inputs(self, ex, sym, fr):
        k = self.case
        na, nb = z3.Const("name_a", Lab), z3.Const("name_b", Lab)
        sym.pc.append(na != nb)
        a = Obj("operand_a", {"_name": na}, cls=("Expr",))
        b = Obj("operand_b", {"_name": nb}, cls=("Expr",))
        lit = z3.Int("literal_operand")
        n, kk = sym.int("n"), sym.int("npartitions_operand")
        fn = sym.int("frame_npartitions", lo=1)
        rows = (a, b) if k["b_is_row_operand"] else (a,)
        self._rows = rows
        if k["frame"] == "Head":
            inner_n, inner_k = sym.int("inner_n"), sym.int("inner_npartitions_operand")
            inner = Obj("inner_frame", {"_name": z3.Const("name_inner", Lab)}, cls=("Expr",))
            frame = Obj("frame", {"frame": inner, "n": inner_n, "operand": contract_fn(lambda e, f, name: inner_k if name == "npartitions" else Opaque("frame." + name)), "npartitions": 1}, cls=("Expr", "Head"))
            extra = {"inner": inner, "inner_n": inner_n, "inner_k": inner_k}
        else:
            frame = Obj("frame", {"operands": (a, b, lit), "npartitions": fn, "dependencies": contract_fn(lambda e, f: (a, b))}, cls=("Expr", k["frame"]))
            extra = {}
        me = Obj("self", {"frame": frame, "n": n, "operand": contract_fn(lambda e, f, name: kk if name == "npartitions" else Opaque("self." + name)), "npartitions": 1}, cls=("Expr", "Head"))
        env = {"self": me, "a": a, "b": b, "lit": lit, "n": n, "k": kk, "fn": fn, "na": na, "nb": nb}
        env.update(extra)
        return env

    def call(self, ex, fr, name, args, kwargs):
        if name == "_row_operands":
            return self._rows
        if name == "_rows_root":
            return Obj("rows-root", {"_name": ROOT(args[0].attrs["_name"])}, cls=("Expr",))
        if name == "Head":
            return Term("Head", args)
        return NotImplemented

    star_call = PartitionsSimplifyDown.star_call
    isinstance_hook = PartitionsSimplifyDown.isinstance_hook

    def ensures(self):
        k = self.case

        def is_head(c, t, op, env):
            return isinstance(t, Term) and t.cls == "Head" and len(t.args) == 3 and t.args[0] is op and c.ex.equal(t.args[1], env["n"], c.fr) is not False and c.And(c.eq(t.args[1], env["n"]), c.eq(t.args[2], env["k"]))

        def pushed(c, env, r):
            if not c.symbolic or k["frame"] != "Elemwise":
                return True
            same_rows = (ROOT(env["na"]) == ROOT(env["nb"])) if k["b_is_row_operand"] else z3.BoolVal(True)
            one_part_ambiguous = z3.And(env["fn"] == 1, z3.BoolVal(not k["b_is_row_operand"]))
            if r is None:
                return z3.Or(z3.Not(same_rows), one_part_ambiguous)
            if not (isinstance(r, Term) and r.cls == "Rebuilt" and len(r.args) == 3):
                return False
            ra, rb, rl = r.args
            oka = is_head(c, ra, env["a"], env)
            if k["b_is_row_operand"]:
                okb = is_head(c, rb, env["b"], env)
            elif isinstance(rb, Ite):  # `Head(op, ...) if op._name in rows else op`: the condition must be excluded
                okb = c.And(z3.Not(rb.c), rb.b is env["b"])
            else:
                okb = rb is env["b"]
            return c.And(same_rows, z3.Not(one_part_ambiguous), oka, okb, rl is env["lit"])

        def head_of_head(c, env, r):
            if not c.symbolic or k["frame"] != "Head":
                return True
            if not (isinstance(r, Term) and r.cls == "Head" and len(r.args) == 3):
                return False
            m = z3.If(env["n"] < env["inner_n"], env["n"], env["inner_n"])
            return c.And(r.args[0] is env["inner"], c.eq(r.args[1], m), c.eq(r.args[2], env["inner_k"]))

        def other(c, env, r):
            if not c.symbolic or k["frame"] != "Other":
                return True
            return r is None

        return {"same-n-and-npartitions-in-every-row-operand-only-when-all-share-their-rows": pushed, "head-of-head-takes-the-smaller-n-and-the-inner-partition-count": head_of_head, "other-frames-are-left-alone": other}

    def concrete_env(self, inputs):
        return None

    def concrete_inputs(self):
        for prog in ("add_cols", "add_scalar", "add_reduction", "filtered_plus_unfiltered", "head_of_head", "assign"):
            for n, k in ((3, 1), (7, 2), (5, -1)):
                yield {"program": prog, "n": n, "k": k}

    def run_concrete(self, inputs):
        import pandas as pd

        import dask_expr as dx
        from dask_expr._expr import Head

        pdf = pd.DataFrame({"a": range(12), "b": [float(x) for x in range(12)]})
        df = dx.from_pandas(pdf, npartitions=3)
        x = {"add_cols": lambda: df.a + df.b, "add_scalar": lambda: df.a + 1, "add_reduction": lambda: df.a + df.a.sum(), "filtered_plus_unfiltered": lambda: df.a[df.a > 1] + df.a,
             "head_of_head": lambda: dx.new_collection(Head(df.expr, 9, 2)), "assign": lambda: df.assign(z=df.a + df.b)}[inputs["program"]]()
        e = Head(x.expr, inputs["n"], inputs["k"])
        out = e._simplify_down()
        return {"expr": e, "out": out}, out


def _head_concrete(env):
    """The rule's output, lowered and executed, equals the head computed from the frame's partitions."""
    import dask
    import pandas as pd

    e, out = env["expr"], env["out"]
    if out is None:
        return True

    def run(x):
        x = x.lower_completely()
        parts = dask.get(dict(x.__dask_graph__()), x.__dask_keys__())
        return pd.concat(parts) if len(parts) > 1 else parts[0]

    k = e.operand("npartitions")
    f = e.frame.lower_completely()
    parts = dask.get(dict(f.__dask_graph__()), f.__dask_keys__())
    want = pd.concat(parts if k == -1 else parts[:k]).head(e.n)
    got = run(out)
    return got.equals(want)


_hs_ens = HeadSimplifyDown.ensures


def _hs_ensures(self):
    posts = _hs_ens(self)
    posts["first-n-rows-of-the-first-k-partitions"] = lambda c, env, r: True if c.symbolic else _head_concrete(env)
    return posts


HeadSimplifyDown.ensures = _hs_ensures
SPECS.append(HeadSimplifyDown())


class TailSimplifyDown(HeadSimplifyDown):
    """tail(n) of an elementwise operation = the operation on tail(n) of every row operand (same n), under the same
    conditions as for head; tail(n) of tail(m) = tail(min(n, m))."""

    file, qualname, props = E, "Tail._simplify_down", ["C11", "C01"]

    def cases(self):
        yield {"frame": "Elemwise", "b_is_row_operand": True}
        yield {"frame": "Elemwise", "b_is_row_operand": False}
        yield {"frame": "Tail", "b_is_row_operand": True}
        yield {"frame": "Other", "b_is_row_operand": True}

    def make_inputs(self, ex, sym, fr):
        k = self.case
        if k["frame"] != "Tail":
            env = super().make_inputs(ex, sym, fr)
            env["self"].cls = ("Expr", "Tail")
            return env
        na = z3.Const("name_a", Lab)
        n, inner_n = sym.int("n"), sym.int("inner_n")
        inner = Obj("inner_frame", {"_name": z3.Const("name_inner", Lab)}, cls=("Expr",))
        frame = Obj("frame", {"frame": inner, "n": inner_n, "npartitions": 1}, cls=("Expr", "Tail"))
        self._rows = ()
        return {"self": Obj("self", {"frame": frame, "n": n, "npartitions": 1}, cls=("Expr", "Tail")), "n": n, "inner": inner, "inner_n": inner_n}

    def call(self, ex, fr, name, args, kwargs):
        if name == "Tail":
            return Term("Tail", args)
        return super().call(ex, fr, name, args, kwargs)

    def ensures(self):
        k = self.case

        def is_tail(c, t, op, env):
            return isinstance(t, Term) and t.cls == "Tail" and len(t.args) == 2 and t.args[0] is op and c.eq(t.args[1], env["n"])

        def pushed(c, env, r):
            if not c.symbolic or k["frame"] != "Elemwise":
                return True
            same_rows = (ROOT(env["na"]) == ROOT(env["nb"])) if k["b_is_row_operand"] else z3.BoolVal(True)
            one_part_ambiguous = z3.And(env["fn"] == 1, z3.BoolVal(not k["b_is_row_operand"]))
            if r is None:
                return z3.Or(z3.Not(same_rows), one_part_ambiguous)
            if not (isinstance(r, Term) and r.cls == "Rebuilt" and len(r.args) == 3):
                return False
            ra, rb, rl = r.args
            if k["b_is_row_operand"]:
                okb = is_tail(c, rb, env["b"], env)
            elif isinstance(rb, Ite):
                okb = c.And(z3.Not(rb.c), rb.b is env["b"])
            else:
                okb = rb is env["b"]
            return c.And(same_rows, z3.Not(one_part_ambiguous), is_tail(c, ra, env["a"], env), okb, rl is env["lit"])

        def tail_of_tail(c, env, r):
            if not c.symbolic or k["frame"] != "Tail":
                return True
            if not (isinstance(r, Term) and r.cls == "Tail" and len(r.args) == 2):
                return False
            return c.And(r.args[0] is env["inner"], c.eq(r.args[1], z3.If(env["n"] < env["inner_n"], env["n"], env["inner_n"])))

        def other(c, env, r):
            return True if (not c.symbolic or k["frame"] != "Other") else r is None

        return {"same-n-in-every-row-operand-only-when-all-share-their-rows": pushed, "tail-of-tail-takes-the-smaller-n": tail_of_tail, "other-frames-are-left-alone": other,
                "last-n-rows-of-the-last-partition": lambda c, env, r: True if c.symbolic else _tail_concrete(env)}

    def concrete_inputs(self):
        for prog in ("add_cols", "add_scalar", "add_reduction", "filtered_plus_unfiltered", "tail_of_tail", "assign"):
            for n in (2, 3, 5):
                yield {"program": prog, "n": n}

    def run_concrete(self, inputs):
        import pandas as pd

        import dask_expr as dx
        from dask_expr._expr import Tail

        pdf = pd.DataFrame({"a": range(12), "b": [float(x) for x in range(12)]})
        df = dx.from_pandas(pdf, npartitions=3)
        x = {"add_cols": lambda: df.a + df.b, "add_scalar": lambda: df.a + 1, "add_reduction": lambda: df.a + df.a.sum(), "filtered_plus_unfiltered": lambda: df.a[df.a > 1] + df.a,
             "tail_of_tail": lambda: dx.new_collection(Tail(df.expr, 3)), "assign": lambda: df.assign(z=df.a + df.b)}[inputs["program"]]()
        e = Tail(x.expr, inputs["n"])
        out = e._simplify_down()
        return {"expr": e, "out": out}, out


def _tail_concrete(env):
    import dask
    import pandas as pd

    e, out = env["expr"], env["out"]
    if out is None:
        return True
    f = e.frame.lower_completely()
    parts = dask.get(dict(f.__dask_graph__()), f.__dask_keys__())
    want = parts[-1].tail(e.n)
    o = out.lower_completely()
    got = dask.get(dict(o.__dask_graph__()), o.__dask_keys__())
    got = pd.concat(got) if len(got) > 1 else got[0]
    return got.equals(want)


SPECS.append(TailSimplifyDown())
