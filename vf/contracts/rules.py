"""Contracts for partition-selection rewrite rules (C11, C01): `Partitions._simplify_down`.

Selecting partitions P of x must equal the P-th partitions of x.  The rule has two branches:

  push-through   x = op(a, b, ...) partitionwise: select P in every operand that is an expression with the frame's partitioning
                 (not a broadcast operand, not a literal), keep the others, keep the operand order.  Never through operations
                 whose output partition i is not a function of input partition i alone (overlapping windows `MapOverlap`, fused
                 groups, I/O leaves, the blockwise set_index helper).
  composition    x carries its own selection Q (`PartitionsFiltered`): the new selection is [Q[p] for p in P] - x's own numbering
                 composed with the request - in the order and multiplicity of P; every Q[p] is in range.

Object model: the frame's class tags are enumerated (cases); operands are a literal, an aligned expression and an
expression whose broadcast-ness `_broadcast_dep` decides (symbolic); `substitute_parameters` returns a term.
"""
from __future__ import annotations

import ast

import z3

from vf.pyvc.spec import Spec, SkipInput, contract_fn
from vf.pyvc.values import Ite, Obj, Opaque, Seq, Term, as_seq, zint

E = "dask_expr/_expr.py"
EXCLUDED = ("BlockwiseIO", "Fused", "SetIndexBlockwise", "MapOverlap")


class PartitionsSimplifyDown(Spec):
    file, qualname, props = E, "Partitions._simplify_down", ["C11", "C01"]
    case = {"tags": ("Blockwise",), "partitionwise": True, "filtered": None}
    assumptions = ["object model of the frame: class membership is given by tags; `_is_partitionwise` and `_broadcast_dep` are the frame's own attributes (contracts: Blockwise._broadcast_dep is proved separately)",
                   "precondition from Partitions' constructor call sites: every requested partition number is a valid partition of the frame"]

    def cases(self):
        for tags in (("Blockwise",), ("Blockwise", "MapOverlap"), ("Blockwise", "Fused"), ("Blockwise", "SetIndexBlockwise"), ("Blockwise", "BlockwiseIO"), ("Blockwise", "BlockwiseIO", "PartitionsFiltered"),
                     ("PartitionsFiltered",), ("Blockwise", "MapOverlap", "PartitionsFiltered"), ("Other",)):
            for pw in ((True, False) if "Blockwise" in tags else (False,)):
                for filt in (("set", "unset") if "PartitionsFiltered" in tags else (None,)):
                    yield {"tags": tags, "partitionwise": pw, "filtered": filt}

    def make_inputs(self, ex, sym, fr):
        k = self.case
        P = sym.seq("P", kind="list")
        bc = sym.bool("second_operand_is_broadcast")
        a = Obj("operand_a", {}, cls=("Expr",))
        b = Obj("operand_b", {}, cls=("Expr",))
        lit = z3.Int("literal_operand")
        attrs = {"operands": (a, b, lit), "_is_partitionwise": k["partitionwise"],
                 "_broadcast_dep": contract_fn(lambda e, f, op: bc if op is b else False),
                 "substitute_parameters": contract_fn(lambda e, f, d: Term("SubstituteParameters", (d,)))}
        env = {"P": P, "a": a, "b": b, "lit": lit, "bc": bc}
        if k["filtered"] is not None:
            n = sym.int("frame_npartitions", lo=0)
            if k["filtered"] == "set":
                Q = sym.seq("Q", kind="list")
                attrs["_partitions"] = Q
                sym.pc.append(zint(Q.length) == n)
            else:
                Q = Seq(n, lambda j: zint(j), "range")  # PartitionsFiltered._partitions of an unfiltered node: range(npartitions)
                attrs["_partitions"] = Q
            env.update({"Q": Q, "n": n})
        frame = Obj("frame", attrs, cls=("Expr",) + k["tags"])
        env["self"] = Obj("self", {"frame": frame, "partitions": P}, cls=("Partitions", "Expr"))
        env["frame"] = frame
        return env

    def requires(self):
        if self.case["filtered"] is None:
            return {}
        return {"requested-partitions-exist": lambda c, e: c.forall(0, c.len(e["P"]), lambda j: c.And(c.at(e["P"], j) >= 0, c.at(e["P"], j) < e["n"]))}

    def call(self, ex, fr, name, args, kwargs):
        if name == "Partitions":
            return Term("Partitions", args)
        return NotImplemented

    def star_call(self, ex, fr, e):
        if ast.unparse(e.func) == "type(self.frame)" and len(e.args) == 1 and isinstance(e.args[0], ast.Starred):
            s = ex.seq_of(ex.eval(e.args[0].value, fr), fr)
            if not isinstance(s.length, int):
                return NotImplemented
            return Term("Rebuilt", tuple(s.get(j) for j in range(s.length)))
        return NotImplemented

    def isinstance_hook(self, ex, fr, v, tname):
        if isinstance(v, Obj):
            return tname in (v.cls or ())
        if z3.is_expr(v):
            return False  # a literal operand is not an expression
        return NotImplemented

    def ensures(self):
        k = self.case
        through = "Blockwise" in k["tags"] and k["partitionwise"] and not any(t in k["tags"] for t in EXCLUDED)

        def branch(c, env, r):
            if not c.symbolic:
                return True
            if through:
                return isinstance(r, Term) and r.cls == "Rebuilt"
            if k["filtered"] is not None:
                return isinstance(r, Term) and r.cls == "SubstituteParameters"
            return r is None

        def pushed(c, env, r):
            if not c.symbolic or not (isinstance(r, Term) and r.cls == "Rebuilt"):
                return True
            if len(r.args) != 3:
                return False
            ra, rb, rl = r.args
            okP = lambda t: isinstance(t, Term) and t.cls == "Partitions" and len(t.args) == 2 and t.args[1] is env["P"] or (isinstance(t, Term) and t.cls == "Partitions" and c.ex.equal(t.args[1], env["P"], c.fr) is True)
            first = isinstance(ra, Term) and ra.cls == "Partitions" and ra.args[0] is env["a"] and okP(ra)
            if isinstance(rb, Ite):
                second = c.And(isinstance(rb.a, Term) and rb.a.cls == "Partitions" and rb.a.args[0] is env["b"] and okP(rb.a) and rb.b is env["b"], rb.c == z3.Not(env["bc"]))
            else:
                second = False
            return c.And(first, second, rl is env["lit"])

        def composed(c, env, r):
            if not c.symbolic or not (isinstance(r, Term) and r.cls == "SubstituteParameters"):
                return True
            d = r.args[0]
            sel = c.lookup(d, ("_partitions",)) if hasattr(d, "oid") else None
            s = as_seq(sel, c.fr.heap) if sel is not None else None
            if s is None:
                return False
            P, Q = env["P"], env["Q"]
            return c.And(c.eq(c.len(s), c.len(P)), c.forall(0, c.len(P), lambda j: c.eq(c.at(s, j), c.at(Q, c.at(P, j)))))

        return {"branch-taken-matches-the-kind-of-frame": branch, "selection-pushed-into-aligned-expression-operands-only": pushed, "selection-composed-with-the-frames-own": composed}

    # concrete: real expressions
    def concrete_env(self, inputs):
        return None

    def concrete_inputs(self):
        for prog in ("add", "add_scalar_reduction", "fillna", "shift", "from_pandas", "from_pandas_filtered", "cumsum", "fused_like"):
            for P in ([0], [1], [2, 0], [1, 1]):
                yield {"program": prog, "P": P}

    def run_concrete(self, inputs):
        import pandas as pd

        import dask_expr as dx
        from dask_expr._expr import Partitions

        pdf = pd.DataFrame({"a": range(12), "b": [float(x) for x in range(12)]})
        df = dx.from_pandas(pdf, npartitions=3)
        x = {"add": lambda: df.a + df.b, "add_scalar_reduction": lambda: df.a + df.a.sum(), "fillna": lambda: df.fillna(1), "shift": lambda: df.a.shift(1), "from_pandas": lambda: df,
             "from_pandas_filtered": lambda: df.partitions[[2, 1, 0]].optimize(), "cumsum": lambda: df.a.cumsum(), "fused_like": lambda: (df.a + 1).optimize()}[inputs["program"]]()
        e = Partitions(x.expr, inputs["P"])
        out = e._simplify_down()
        env = {"expr": e, "out": out}
        return env, out


class _ConcretePost:
    pass


def _concrete_partitions_equal(env):
    """x.partitions[P] computed through the rule's output equals the P-th partitions of x computed directly."""
    import dask
    import pandas as pd

    e, out = env["expr"], env["out"]
    if out is None:
        return True
    x = e.frame.lower_completely()
    g = dict(x.__dask_graph__())
    parts = dask.get(g, x.__dask_keys__())
    want = [parts[p] for p in e.partitions]
    o = out.lower_completely()
    got = dask.get(dict(o.__dask_graph__()), o.__dask_keys__())
    return len(got) == len(want) and all((a.equals(b) if hasattr(a, "equals") else a == b) for a, b in zip(got, want))


_orig_ensures = PartitionsSimplifyDown.ensures


def _ensures(self):
    posts = _orig_ensures(self)
    posts["selected-partitions-equal-the-partitions-of-the-frame"] = lambda c, env, r: True if c.symbolic else _concrete_partitions_equal(env)
    return posts


PartitionsSimplifyDown.ensures = _ensures

SPECS = [PartitionsSimplifyDown()]
