"""Symbolic value domain of the pyvc engine.

Python-level structure (tuples, sequences, dict entries, objects, constructed terms) is kept as
Python objects whose leaves are z3 terms; only leaves go to the solver.
"""
from __future__ import annotations

import itertools

import z3

_fresh = itertools.count()

Lab = z3.DeclareSort("Lab")  # column labels / opaque hashable values


def fresh_name(prefix):
    return f"{prefix}!{next(_fresh)}"


def fresh_int(prefix="v"):
    return z3.Int(fresh_name(prefix))


def fresh_bool(prefix="b"):
    return z3.Bool(fresh_name(prefix))


def fresh_real(prefix="r"):
    return z3.Real(fresh_name(prefix))


def fresh_lab(prefix="c"):
    return z3.Const(fresh_name(prefix), Lab)


def fresh_fun(prefix, *sorts):
    return z3.Function(fresh_name(prefix), *sorts)


def is_z3(x):
    return isinstance(x, z3.ExprRef)


def zint(x):
    """int / z3 Int -> z3 Int"""
    if isinstance(x, bool):
        raise TypeError("bool used as int")
    if isinstance(x, int):
        return z3.IntVal(x)
    return x


def zbool(x):
    if isinstance(x, bool):
        return z3.BoolVal(x)
    return x


def zreal(x):
    if isinstance(x, bool):
        raise TypeError("bool used as real")
    if isinstance(x, int):
        return z3.RealVal(x)
    if isinstance(x, float):
        return z3.RealVal(repr(x))
    if is_z3(x) and x.sort() == z3.IntSort():
        return z3.ToReal(x)
    return x


def is_int_sorted(x):
    return is_z3(x) and x.sort() == z3.IntSort()


def is_real_sorted(x):
    return is_z3(x) and x.sort() == z3.RealSort()


def is_lab_sorted(x):
    return is_z3(x) and x.sort() == Lab


def simp_int(x):
    """Return a python int when a z3 int term simplifies to a literal."""
    if isinstance(x, int) and not isinstance(x, bool):
        return x
    if is_int_sorted(x):
        s = z3.simplify(x)
        if z3.is_int_value(s):
            return s.as_long()
    return x


class Opaque:
    """An unmodelled constant (function object, module attribute, name string...)."""

    def __init__(self, name):
        self.name = name

    def __repr__(self):
        return f"<{self.name}>"

    def __eq__(self, other):
        return isinstance(other, Opaque) and other.name == self.name

    def __hash__(self):
        return hash(("Opaque", self.name))


class Seq:
    """Immutable functional sequence: length (int or z3 Int) + element function index -> value."""

    def __init__(self, length, fn, kind="list"):
        self.length = simp_int(length)
        self.fn = fn
        self.kind = kind

    def get(self, k):
        return self.fn(simp_int(k))

    @staticmethod
    def of(values, kind="list"):
        values = list(values)
        return Seq(len(values), lambda k, values=values: index_const_list(values, k), kind)

    def concrete_len(self):
        return isinstance(self.length, int)

    def __repr__(self):
        return f"Seq(len={self.length})"


def index_const_list(vals, k):
    k = simp_int(k)
    if isinstance(k, int):
        if not (-len(vals) <= k < len(vals)):
            # read outside a literal list: only reachable as the dead branch of a conditional element
            # (`ite(k == n, appended, old[k])`); in-bounds access of executed subscripts is a separate `safe:index` obligation
            return fresh_int("oob")
        return vals[k]
    if not vals:
        return fresh_int("oob")
    r = vals[-1]
    for j in range(len(vals) - 2, -1, -1):
        r = ite(k == j, vals[j], r)
    return r


def as_seq(v, heap=None):
    """tuple / Seq / Ref(list) -> Seq (None if not sequence-like)."""
    if isinstance(v, Seq):
        return v
    if isinstance(v, tuple):
        return Seq.of(v, "tuple")
    if isinstance(v, Ref) and v.kind == "list" and heap is not None:
        return heap[v.oid]
    return None


class Ref:
    """Reference to a mutable heap object (list or dict)."""

    def __init__(self, oid, kind):
        self.oid = oid
        self.kind = kind

    def __repr__(self):
        return f"Ref({self.kind}#{self.oid})"


class Entry:
    """One (family of) dict insertion(s): for all binders in range with guard: d[key] = value."""

    def __init__(self, binders, guard, key, value, site):
        self.binders = tuple(binders)  # tuple of (z3 var, lo, hi)  lo <= var < hi
        self.guard = guard  # z3 bool (may mention binders)
        self.key = key  # tuple of symbolic values
        self.value = value
        self.site = site  # source line of the insertion


class DictState:
    def __init__(self, entries=(), base=None):
        self.entries = tuple(entries)
        self.base = base  # an opaque imported mapping this dict was copied from (dict(other)); its keys are unknown

    def add(self, entry):
        return DictState(self.entries + (entry,), self.base)

    def extend(self, entries):
        return DictState(self.entries + tuple(entries), self.base)


class SetVal:
    """A set of labels/ints given by a membership predicate (value -> z3 Bool / bool)."""

    def __init__(self, pred, elems=None):
        self.pred = pred
        self.elems = elems  # optional concrete list of element values (finite explicit set)

    def has(self, x):
        return self.pred(x)


class Obj:
    """Abstract object whose attribute table comes from the contract's object model."""

    def __init__(self, name, attrs, cls=None):
        self.name = name
        self.attrs = attrs
        self.cls = cls  # tuple of class-name tags for isinstance

    def __repr__(self):
        return f"<obj {self.name}>"


class Term:
    """A constructed expression node type(self)(...) / Cls(...)."""

    def __init__(self, cls, args, kwargs=None):
        self.cls = cls
        self.args = tuple(args)
        self.kwargs = dict(kwargs or {})

    def __repr__(self):
        return f"Term({self.cls}, {self.args})"


class Ite:
    """Unmerged conditional between two non-z3 values."""

    def __init__(self, c, a, b):
        self.c, self.a, self.b = c, a, b


def ite(c, a, b):
    if isinstance(c, bool):
        return a if c else b
    c = z3.simplify(c)
    if z3.is_true(c):
        return a
    if z3.is_false(c):
        return b
    if isinstance(a, tuple) and isinstance(b, tuple) and len(a) == len(b):
        return tuple(ite(c, x, y) for x, y in zip(a, b))
    if a is b:
        return a
    za, zb = _leaf(a), _leaf(b)
    if za is not None and zb is not None and za.sort() == zb.sort():
        return z3.If(c, za, zb)
    if za is not None and zb is not None and {za.sort(), zb.sort()} == {z3.IntSort(), z3.RealSort()}:
        return z3.If(c, zreal(za), zreal(zb))
    try:
        if not is_z3(a) and not is_z3(b) and a == b:
            return a
    except Exception:
        pass
    return Ite(c, a, b)


def _leaf(v):
    if isinstance(v, bool):
        return z3.BoolVal(v)
    if isinstance(v, int):
        return z3.IntVal(v)
    if is_z3(v):
        return v
    return None
