"""Path-forking symbolic executor over the AST of real repository functions.

Subset and encoding: see DESIGN.md section 3.2.  Anything outside the subset raises Unsupported, which
the driver records as an *undecided* obligation (never a pass, never a violation).
"""
from __future__ import annotations

import ast

import z3

from .solver import Prover
from .values import (
    DictState,
    Entry,
    Ite,
    Lab,
    Obj,
    Opaque,
    Ref,
    Seq,
    SetVal,
    Term,
    as_seq,
    fresh_bool,
    fresh_fun,
    fresh_int,
    fresh_lab,
    fresh_name,
    fresh_real,
    index_const_list,
    is_int_sorted,
    is_lab_sorted,
    is_real_sorted,
    is_z3,
    ite,
    simp_int,
    zbool,
    zint,
    zreal,
)


class Unsupported(Exception):
    pass


class _Return(Exception):
    def __init__(self, value):
        self.value = value


class _Break(Exception):
    pass


class _Raised(Exception):
    def __init__(self, exc, node):
        self.exc = exc
        self.node = node


class NameStr:
    """A string built around (at most) one expression-name atom: prefix + <atom> + suffix.

    Decision procedure for equality (assumption A-names, reported in evidence): the name of an
    expression ends in a token unique to that expression, so p1+A+s1 == p2+B+s2 iff A is B, p1 == p2,
    s1 == s2.  A NameStr never equals a plain string literal.
    """

    def __init__(self, prefix, atom, suffix=""):
        self.prefix, self.atom, self.suffix = prefix, atom, suffix

    def __repr__(self):
        return f"{self.prefix}<{self.atom}>{self.suffix}"

    def same(self, other):
        return (
            isinstance(other, NameStr)
            and (self.prefix, self.atom, self.suffix) == (other.prefix, other.atom, other.suffix)
        )

    def __eq__(self, other):
        return self.same(other)

    def __hash__(self):
        return hash((self.prefix, self.atom, self.suffix))


class Frame:
    """One symbolic path: environment + heap + path condition."""

    def __init__(self, env, pc, heap=None, binders=(), marks=()):
        self.env = env
        self.pc = list(pc)
        self.heap = dict(heap or {})
        self.binders = tuple(binders)  # active summarised-loop binders (var, lo, hi)
        self.marks = tuple(marks)  # len(pc) at the time each binder was pushed
        self.aux = ()  # havoc'd variables introduced under the active binders

    def clone(self):
        f = Frame(dict(self.env), self.pc, self.heap, self.binders, self.marks)
        f.aux = self.aux
        if hasattr(self, "env0"):
            f.env0 = self.env0
        if "_attr_cache" in self.__dict__:
            f._attr_cache = dict(self._attr_cache)
        return f


BUILTINS = {
    "len", "range", "int", "list", "tuple", "isinstance", "enumerate", "zip", "min", "max", "divmod",
    "sum", "set", "sorted", "any", "all", "abs", "bool", "float", "dict", "str", "type", "reversed",
    "ValueError", "NotImplementedError", "TypeError", "KeyError", "AssertionError", "RuntimeError",
}


class Exec:
    def __init__(self, prover: Prover, spec, fname):
        self.pv = prover
        self.spec = spec
        self.fname = fname  # obligation name prefix  file::qualname
        self.results = []  # (frame, "return"|"raise", value)
        self.loop_counter = 0
        self.quiet = 0  # >0: re-evaluation of comprehension elements, no obligations
        self._oid = 0
        self.assumptions = set()

    # ------------------------------------------------------------------ heap
    def new_list(self, fr, seq):
        self._oid += 1
        fr.heap[self._oid] = seq
        return Ref(self._oid, "list")

    def new_dict(self, fr, state=None):
        self._oid += 1
        fr.heap[self._oid] = state or DictState()
        return Ref(self._oid, "dict")

    def seq_of(self, v, fr):
        s = as_seq(v, fr.heap)
        if s is None:
            raise Unsupported(f"not a sequence: {v!r}")
        return s

    # ------------------------------------------------------------------ obligations
    def oblige(self, kind, fr, goal, node=None, detail=""):
        if self.quiet:
            return
        line = f"@L{getattr(node, 'lineno', '?')}" if node is not None else ""
        self.pv.prove(f"{self.fname}#{kind}{line}", fr.pc, goal, detail)

    def oblige_inv(self, kind, fr, val, node=None):
        """An invariant may be given as a dict of named conjuncts: each is proved as its own (smaller) obligation."""
        if isinstance(val, dict):
            base, _, tail = kind.partition("#")
            for label, part in val.items():
                self.oblige(f"{base}:{label}" + (f"#{tail}" if tail else ""), fr, part, node)
        else:
            self.oblige(kind, fr, val, node)

    def assume(self, fr, c):
        if isinstance(c, bool):
            if not c:
                fr.pc.append(z3.BoolVal(False))
            return
        fr.pc.append(c)

    # ------------------------------------------------------------------ statements
    def run_block(self, stmts, frames):
        if getattr(self, "_loop_ids", None) is None:
            # loops are numbered statically, in source order (outer before inner), over the statements this executor was
            # started on: a loop keeps its ordinal however many forked paths reach it
            self._loop_ids = _number_loops(stmts)
        for st in stmts:
            nxt = []
            for fr in frames:
                nxt.extend(self.run_stmt(st, fr))
            frames = nxt
            if not frames:
                break
        return frames

    def run_stmt(self, st, fr):
        try:
            return self._run_stmt(st, fr)
        except _Return as r:
            self.results.append((fr, "return", r.value))
            return []
        except _Raised as r:
            self.results.append((fr, "raise", (r.exc, r.node)))
            return []
        except _Break:
            # `break` ends the innermost `while` under contract: the frame leaves the loop as it is (havoc'd state +
            # invariant + the path through the body); only plain while loops collect such frames
            if getattr(self, "breaks", None) is None:
                raise Unsupported("break outside a plain while loop")
            self.breaks.append(fr)
            return []

    def _run_stmt(self, st, fr):
        if isinstance(st, ast.Expr):
            if isinstance(st.value, ast.Constant) and isinstance(st.value.value, str):
                return [fr]  # docstring
            self.eval(st.value, fr)
            return [fr]
        if isinstance(st, ast.Assign):
            val = self.eval(st.value, fr)
            for tgt in st.targets:
                self.assign(tgt, val, fr)
            return [fr]
        if isinstance(st, ast.AnnAssign):
            if st.value is not None:
                self.assign(st.target, self.eval(st.value, fr), fr)
            return [fr]
        if isinstance(st, ast.AugAssign):
            cur = self.eval(_as_load(st.target), fr)
            rhs = self.eval(st.value, fr)
            if isinstance(cur, Ref) and cur.kind == "list" and isinstance(st.op, ast.Add):
                s, r = fr.heap[cur.oid], self.seq_of(rhs, fr)
                fr.heap[cur.oid] = self.concat(s, r)
                return [fr]
            self.assign(st.target, self.binop(st.op, cur, rhs, fr, st), fr)
            return [fr]
        if isinstance(st, ast.Return):
            raise _Return(self.eval(st.value, fr) if st.value is not None else None)
        if isinstance(st, ast.Raise):
            raise _Raised(_exc_name(st.exc), st)
        if isinstance(st, ast.Assert):
            c = self.truth(self.eval(st.test, fr), fr)
            self.oblige("assert", fr, c, st)
            self.assume(fr, zbool(c))
            return [fr]
        if isinstance(st, ast.If) and _guarded_insert(st) is not None:
            # `if KEY not in d: d[KEY] = VALUE`: an insertion that keeps the first value stored under KEY.
            # Modelled as an unconditional insertion, justified by the obligation that VALUE is a function of KEY
            # (two iterations that produce the same key produce the same value).
            dname, key_node, val_node = _guarded_insert(st)
            ref = fr.env.get(dname)
            if isinstance(ref, Ref) and ref.kind == "dict":
                key, val = self.eval(key_node, fr), self.eval(val_node, fr)
                self.oblige_functional(fr, key, val, st)
                before = len(fr.heap[ref.oid].entries)
                self.dict_store(ref, key, val, fr, st)
                ents = fr.heap[ref.oid].entries
                if len(ents) > before:
                    ents[-1].keep_first = True
                return [fr]
        if isinstance(st, ast.If):
            c = self.truth(self.eval(st.test, fr), fr)
            return self.branch(c, fr, lambda f: self.run_block(st.body, [f]), lambda f: self.run_block(st.orelse, [f]))
        if isinstance(st, ast.For):
            saved, self.breaks = getattr(self, "breaks", None), None  # a `break` inside a for loop is outside the subset
            try:
                return self.run_for(st, fr)
            finally:
                self.breaks = saved
        if isinstance(st, ast.While):
            return self.run_while(st, fr)
        if isinstance(st, ast.Pass):
            return [fr]
        if isinstance(st, ast.Break):
            raise _Break()
        if isinstance(st, ast.Try):
            return self.run_try(st, fr)
        if isinstance(st, (ast.Import, ast.ImportFrom)):
            for a in st.names:
                fr.env[(a.asname or a.name).split(".")[0]] = Opaque(a.asname or a.name)
            return [fr]
        if isinstance(st, ast.FunctionDef):
            fr.env[st.name] = ("localfn", st, dict(fr.env))
            return [fr]
        raise Unsupported(f"statement {type(st).__name__} at line {st.lineno}")

    def run_try(self, st, fr):
        """`try: <validation calls whose results are discarded; simple assignments> except (...): <handler>` - the
        probing idiom (`try: check(x); ok = True / except ...: ok = False`).  The contract says WHEN a call raises one of
        the handled exceptions (`raises` hook: a condition over the call's arguments, typically an uninterpreted
        predicate); the raising path runs the handler from the state reached so far, the other path goes on.  The calls
        themselves are not executed: their only modelled effect is to raise or not (assumption, reported)."""
        hook = getattr(self.spec, "raises", None)
        if st.finalbody or st.orelse or len(st.handlers) != 1 or st.handlers[0].name or hook is None:
            raise Unsupported(f"try statement at line {st.lineno} outside the probing idiom (or the contract has no `raises` model)")
        self.assumptions.add("try/except: a call statement inside `try` has no effect on the modelled state other than raising (or not) as the contract's `raises` model says")
        handler = st.handlers[0].body
        frames, out = [fr], []
        for s_ in st.body:
            if isinstance(s_, ast.Expr) and isinstance(s_.value, ast.Call):
                nxt = []
                for f in frames:
                    cond = hook(self, f, s_.value)
                    if cond is NotImplemented:
                        raise Unsupported(f"no `raises` model for the call at line {s_.lineno}")
                    out.extend(self.branch(cond, f, lambda g: self.run_block(handler, [g]), lambda g: (nxt.append(g), [])[1]))
                frames = nxt
            elif isinstance(s_, ast.Assign) and all(isinstance(t, ast.Name) for t in s_.targets):
                frames = self.run_block([s_], frames)
            else:
                raise Unsupported(f"statement {type(s_).__name__} inside try at line {s_.lineno}")
        return out + frames

    def branch(self, c, fr, then, orelse):
        if isinstance(c, bool):
            return then(fr) if c else orelse(fr)
        c = z3.simplify(c)
        if z3.is_true(c):
            return then(fr)
        if z3.is_false(c):
            return orelse(fr)
        out = []
        for cond, body in ((c, then), (z3.Not(c), orelse)):
            f2 = fr.clone()
            f2.pc.append(cond)
            if self.pv.feasible(f2.pc):
                self.pv.nforks += 1
                out.extend(body(f2))
        return out

    # ------------------------------------------------------------------ loops
    def _ordinal(self, st):
        o = self._loop_ids.get(id(st)) if getattr(self, "_loop_ids", None) else None
        if o is None:
            o = self.loop_counter
        self.loop_counter = max(self.loop_counter, o + 1)
        return o

    def run_for(self, st, fr):
        ordinal = self._ordinal(st)
        if st.orelse:
            raise Unsupported("for-else")
        it = self.seq_of(self.eval(st.iter, fr), fr)
        n = it.length
        inv = self.spec.invariants.get(ordinal)
        if isinstance(n, int) and inv is None:
            frames = [fr]
            for k in range(n):
                nxt = []
                for f in frames:
                    self.assign(st.target, it.get(k), f)
                    saved = self.loop_counter
                    nxt.extend(self.run_block(st.body, [f]))
                    self.loop_counter = saved if k < n - 1 else self.loop_counter
                frames = nxt
            if n == 0:
                # still number nested loops consistently
                self.loop_counter += _count_loops(st.body)
            return frames
        info = _loop_state(st.body, _names(st.target))
        reads = {n_ for n_ in _dict_reads(st.body, info["dict_writes"]) if isinstance(fr.env.get(n_), Ref) and fr.env[n_].kind == "dict"}
        if reads:
            raise Unsupported(f"loop #{ordinal} at line {st.lineno} reads {sorted(reads)} which it also writes (only `if k not in d: d[k] = v` is modelled)")
        carried = sorted(info["carried"])
        lists = sorted(info["lists"])
        # accumulators by ROLE (k-th list mutated in the loop body, in source order): invariants refer to
        # env["_acc"][k], so renaming a local does not break them
        acc_names = [n for n in _mutated_lists_in_order(st.body) if n in info["lists"]]
        if (carried or lists) and inv is None and not getattr(self.spec, "acc_closed", {}).get(ordinal):
            raise Unsupported(
                f"loop #{ordinal} at line {st.lineno} carries state {carried + lists} and has no invariant"
            )
        env0 = dict(fr.env)
        outer_ghosts = {g: fr.env[g] for g in ("_i", "_acc") if g in fr.env}
        if "_i" in fr.env:
            # ghost index of the enclosing loop(s): _outer[0] is the nearest enclosing loop's index
            fr.env["_outer"] = [fr.env["_i"]] + list(fr.env.get("_outer", []))
        modified = sorted(set(carried) | set(lists) | info["assigned"])
        # ---- invariant holds on entry
        closed = getattr(self.spec, "acc_closed", {}).get(ordinal, {})  # role index -> fn(ex, fr, env) -> Seq

        def closed_ok(f, label):
            # the closed form of an accumulator IS its invariant: actual list == closed(_i)
            for k_, fn_ in closed.items():
                ref_ = f.env.get(acc_names[k_]) if k_ < len(acc_names) else None
                if not (isinstance(ref_, Ref) and ref_.kind == "list"):
                    raise Unsupported(f"acc_closed[{ordinal}][{k_}] does not name a list accumulator")
                self.oblige(f"{label}:acc{k_}", f, self.equal(f.heap[ref_.oid], fn_(self, f, f.env), f), st)

        def closed_set(f):
            for k_, fn_ in closed.items():
                ref_ = f.env.get(acc_names[k_])
                f.heap[ref_.oid] = fn_(self, f, f.env)

        if closed and inv is None:
            inv = lambda c, e: True
        if inv is not None:
            fr.env["_i"] = 0
            fr.env["_acc"] = [fr.env.get(n) for n in acc_names]
            self.oblige_inv(f"inv-init:loop{ordinal}", fr, self.eval_spec(inv, fr), st)
            closed_ok(fr, f"inv-init:loop{ordinal}")
        # ---- one arbitrary iteration
        i = fresh_int("i")
        body = fr.clone()
        mark = len(body.pc)
        body.binders = body.binders + ((i, 0, n),)
        body.marks = body.marks + (mark,)
        body.pc.append(z3.And(i >= 0, i < zint(n)))
        closed_names = {acc_names[k_] for k_ in closed if k_ < len(acc_names)}
        for name in modified:
            if name in closed_names:
                continue
            if name in carried or name in lists:
                body.env[name] = self.havoc_like(env0.get(name), name, body)
            else:
                body.env.pop(name, None)
        body.env["_i"] = i
        closed_set(body)
        body.env["_acc"] = [body.env.get(n) for n in acc_names]
        if inv is not None:
            self.assume(body, zbool(_inv_all(self.eval_spec(inv, body))))
        self.assign(st.target, it.get(i), body)
        dict_before = {oid: len(v.entries) for oid, v in body.heap.items() if isinstance(v, DictState)}
        outs = self.run_block(st.body, [body])
        new_entries = {}
        for k, f in enumerate(outs):
            if inv is not None:
                f.env["_i"] = i + 1
                f.env["_acc"] = [f.env.get(n) for n in acc_names]
                self.oblige_inv(f"inv-preserved:loop{ordinal}#{k}", f, self.eval_spec(inv, f), st)
                closed_ok(f, f"inv-preserved:loop{ordinal}#{k}")
            for oid, nb in dict_before.items():
                st_ = f.heap.get(oid)
                if isinstance(st_, DictState):
                    new_entries.setdefault(oid, []).extend(st_.entries[nb:])
        # ---- exit
        fr.env["_i"] = zint(n)
        closed_set(fr)
        for name in modified:
            if name in closed_names:
                continue
            if name in carried or name in lists:
                fr.env[name] = self.havoc_like(env0.get(name), name, fr)
            elif name in _names(st.target):
                pass
            else:
                fr.env.pop(name, None)
        fr.env["_acc"] = [fr.env.get(n) for n in acc_names]
        if inv is not None:
            self.assume(fr, zbool(_inv_all(self.eval_spec(inv, fr))))
        if isinstance(st.target, ast.Name):
            # after the loop the target holds the last element (if the loop ran)
            fr.env[st.target.id] = it.get(zint(n) - 1)
        else:
            for nm in _names(st.target):
                fr.env.pop(nm, None)
        for oid, ents in new_entries.items():
            fr.heap[oid] = fr.heap[oid].extend(ents)
        fr.env.pop("_i", None)
        fr.env.pop("_acc", None)
        if "_outer" in fr.env:
            rest = list(fr.env["_outer"])[1:]
            if rest:
                fr.env["_outer"] = rest
            else:
                fr.env.pop("_outer")
        fr.env.update(outer_ghosts)
        return [fr]

    def run_while(self, st, fr):
        ordinal = self._ordinal(st)
        inv = self.spec.invariants.get(ordinal)
        if inv is None:
            raise Unsupported(f"while loop #{ordinal} at line {st.lineno} needs an invariant")
        info = _loop_state(st.body, set())
        modified = sorted(info["assigned"] | info["lists"])
        if info["dict_writes"]:
            saved, self.breaks = getattr(self, "breaks", None), None
            try:
                return self.run_while_counted(st, fr, ordinal, inv, info)
            finally:
                self.breaks = saved
        # sets grown in place (`seen.add(x)`) are loop-carried state as well
        grown = sorted({n.func.value.id for s_ in st.body for n in ast.walk(s_) if isinstance(n, ast.Call) and isinstance(n.func, ast.Attribute)
                        and n.func.attr == "add" and isinstance(n.func.value, ast.Name) and isinstance(fr.env.get(n.func.value.id), SetVal)})
        modified = sorted(set(modified) | set(grown))
        self.oblige(f"inv-init:loop{ordinal}", fr, self.eval_spec(inv, fr), st)
        env0 = dict(fr.env)
        for name in modified:
            fr.env[name] = self.havoc_like(env0.get(name), name, fr)
        self.assume(fr, zbool(self.eval_spec(inv, fr)))
        body = fr.clone()
        g = self.truth(self.eval(st.test, body), body)
        self.assume(body, zbool(g))
        broken = []
        if self.pv.feasible(body.pc):
            saved, self.breaks = getattr(self, "breaks", None), []
            try:
                outs = self.run_block(st.body, [body])
            finally:
                broken, self.breaks = self.breaks, saved
            for k, f in enumerate(outs):
                self.oblige(f"inv-preserved:loop{ordinal}#{k}", f, self.eval_spec(inv, f), st)
        g2 = self.truth(self.eval(st.test, fr), fr)
        if g2 is True or (is_z3(g2) and z3.is_true(z3.simplify(zbool(g2)))):
            return broken  # `while True`: the loop is only left through `break`
        self.assume(fr, z3.Not(zbool(g2)))
        return [fr] + broken

    def run_while_counted(self, st, fr, ordinal, inv, info):
        """A while loop that writes a dict (a graph layer built level by level).  The loop is cut like a for loop over
        a ghost counter `_i` in [0, T): T (fresh, >= 0) is the number of iterations executed, so the loop condition holds
        at the start of every iteration _i < T and fails in the state after T iterations.  Variables that are REBOUND
        to structured values in the body (lists of keys) must be given in closed form as a function of `_i`
        (`while_closed[ordinal][name]`); the closed form is proved on entry and re-established by the body; carried
        scalars are havoc'd and constrained by the invariant.  Partial correctness only: termination is not verified."""
        self.assumptions.add("while loops are verified for partial correctness; termination is not an obligation of tier P")
        closed = getattr(self.spec, "while_closed", {}).get(ordinal, {})  # name -> fn(ex, fr, env) -> value at ghost index env['_i']
        modified = sorted(info["assigned"] | info["lists"])
        missing = [n for n in modified if n not in closed and isinstance(fr.env.get(n), (Ref, Seq, tuple)) and n in info["carried"]]
        if missing:
            raise Unsupported(f"while loop #{ordinal} at line {st.lineno} rebinds {missing} (structured, loop-carried) without a closed form")
        T = fresh_int("T")
        fr.pc.append(T >= 0)
        env0 = dict(fr.env)
        outer_ghosts = {g: fr.env[g] for g in ("_i", "_acc") if g in fr.env}
        if "_i" in fr.env:
            fr.env["_outer"] = [fr.env["_i"]] + list(fr.env.get("_outer", []))

        def closed_ok(f, label):
            for name, fn_ in closed.items():
                self.oblige(f"{label}:{name}", f, self.equal(f.env.get(name), fn_(self, f, f.env), f), st)

        def closed_set(f):
            for name, fn_ in closed.items():
                f.env[name] = fn_(self, f, f.env)

        # entry
        fr.env["_i"] = 0
        self.oblige(f"inv-init:loop{ordinal}", fr, self.eval_spec(inv, fr), st)
        closed_ok(fr, f"inv-init:loop{ordinal}")
        g0 = self.truth(self.eval(st.test, fr.clone()), fr)
        # one arbitrary iteration
        i = fresh_int("w")
        body = fr.clone()
        mark = len(body.pc)
        body.binders = body.binders + ((i, 0, T),)
        body.marks = body.marks + (mark,)
        body.pc.append(z3.And(i >= 0, i < T))
        body.env["_i"] = i
        for name in modified:
            if name in closed:
                continue
            if name in info["carried"] or name in info["lists"]:
                body.env[name] = self.havoc_like(env0.get(name), name, body)
            else:
                body.env.pop(name, None)
        closed_set(body)
        self.assume(body, zbool(self.eval_spec(inv, body)))
        g = self.truth(self.eval(st.test, body), body)
        self.assume(body, zbool(g))
        # by the definition of T the loop condition held at the start of EVERY iteration w < T: recorded for the exit
        # state when the condition is a function of the ghost counter alone (closed forms), i.e. mentions no havoc'd value
        guard_all = None
        if not isinstance(g, bool):
            havocd = [v for v in body.aux if v not in fr.aux]
            if not any(_mentions_any((zbool(g),), a, body.heap) for a in havocd):
                guard_all = z3.ForAll([i], z3.Implies(z3.And(i >= 0, i < T), zbool(g)))
        new_entries = {}
        if self.pv.feasible(body.pc):
            dict_before = {oid: len(v.entries) for oid, v in body.heap.items() if isinstance(v, DictState)}
            outs = self.run_block(st.body, [body])
            for k, f in enumerate(outs):
                f.env["_i"] = i + 1
                self.oblige(f"inv-preserved:loop{ordinal}#{k}", f, self.eval_spec(inv, f), st)
                closed_ok(f, f"inv-preserved:loop{ordinal}#{k}")
                for oid, nb in dict_before.items():
                    st_ = f.heap.get(oid)
                    if isinstance(st_, DictState):
                        new_entries.setdefault(oid, []).extend(st_.entries[nb:])
        else:
            self.loop_counter += _count_loops(st.body)
        # exit: the state after T iterations
        fr.env["_i"] = T
        for name in modified:
            if name in closed:
                continue
            if name in info["carried"] or name in info["lists"]:
                fr.env[name] = self.havoc_like(env0.get(name), name, fr)
            else:
                fr.env.pop(name, None)
        closed_set(fr)
        self.assume(fr, zbool(self.eval_spec(inv, fr)))
        if isinstance(g0, bool):
            if not g0:
                fr.pc.append(T == 0)
        else:
            fr.pc.append(z3.Implies(z3.Not(zbool(g0)), T == 0))
        g2 = self.truth(self.eval(st.test, fr.clone()), fr)
        self.assume(fr, z3.Not(zbool(g2)))
        if guard_all is not None:
            fr.pc.append(guard_all)
        for oid, ents in new_entries.items():
            fr.heap[oid] = fr.heap[oid].extend(ents)
        fr.env["_T"] = T
        fr.env.pop("_i", None)
        if "_outer" in fr.env:
            rest = list(fr.env["_outer"])[1:]
            if rest:
                fr.env["_outer"] = rest
            else:
                fr.env.pop("_outer")
        fr.env.update(outer_ghosts)
        return [fr]

    def havoc_like(self, old, name, fr):
        hook = getattr(self.spec, "havoc", None)
        if hook is not None:
            r = hook(self, fr, name, old)
            if r is not NotImplemented:
                return r
        if isinstance(old, Ref) and old.kind == "list":
            proto = fr.heap.get(old.oid)
            fr.heap[old.oid] = self.havoc_seq(proto, name)
            return old
        if isinstance(old, Seq):
            return self.havoc_seq(old, name)
        if isinstance(old, bool) or (is_z3(old) and z3.is_bool(old)):
            v = fresh_bool(name)
        elif is_real_sorted(old) or isinstance(old, float):
            v = fresh_real(name)
        elif is_lab_sorted(old):
            v = fresh_lab(name)
        elif old is None:
            # None on entry, possibly a value later (`last = None ... last = x`): an OPTIONAL integer; the invariant
            # says when it is None.  (Ordering comparisons on it are accepted only where the path excludes None.)
            v = fresh_int(name)
            isnone = fresh_bool(name + "_is_none")
            if fr.binders:
                fr.aux = fr.aux + (v, isnone)
            return Ite(isnone, None, v)
        elif isinstance(old, int) or is_int_sorted(old):
            v = fresh_int(name)
        else:
            raise Unsupported(f"cannot havoc loop-carried {name} = {old!r}")
        if fr.binders:
            fr.aux = fr.aux + (v,)
        return v

    def havoc_seq(self, proto, name):
        sort = z3.IntSort()
        if proto is not None:
            try:
                e0 = proto.get(fresh_int("probe"))
                if is_z3(e0):
                    sort = e0.sort()
                elif not isinstance(e0, int):
                    raise Unsupported(f"cannot havoc list {name} with structured elements")
            except Unsupported:
                raise
            except Exception:
                pass
        f = fresh_fun(name, z3.IntSort(), sort)
        n = fresh_int(name + "_len")
        s = Seq(n, lambda k, f=f: f(zint(k)))
        s.nonneg = n >= 0
        return s

    # ------------------------------------------------------------------ assignment
    def assign(self, tgt, val, fr):
        if isinstance(tgt, ast.Name):
            fr.env[tgt.id] = val
        elif isinstance(tgt, (ast.Tuple, ast.List)):
            if isinstance(val, Ite):
                raise Unsupported("unpacking conditional value")
            if not isinstance(val, tuple):
                s = self.seq_of(val, fr)
                if not isinstance(s.length, int):
                    self.oblige("safe:unpack-arity", fr, zint(s.length) == len(tgt.elts), tgt)
                    self.assume(fr, zint(s.length) == len(tgt.elts))
                val = tuple(s.get(k) for k in range(len(tgt.elts)))
            if len(val) != len(tgt.elts):
                raise Unsupported("unpack arity mismatch")
            for t, v in zip(tgt.elts, val):
                self.assign(t, v, fr)
        elif isinstance(tgt, ast.Subscript):
            base = self.eval(tgt.value, fr)
            idx = self.eval(tgt.slice, fr)
            if isinstance(base, Ref) and base.kind == "list":
                s = fr.heap[base.oid]
                idx = self.norm_index(idx, s, fr, tgt)
                fr.heap[base.oid] = Seq(
                    s.length,
                    lambda k, s=s, idx=idx, val=val: ite(zint(k) == zint(idx), val, s.get(k)),
                    s.kind,
                )
            elif isinstance(base, Ref) and base.kind == "dict":
                self.dict_store(base, idx, val, fr, tgt)
            else:
                hook = getattr(self.spec, "store", None)
                if hook is None or hook(self, fr, base, idx, val) is NotImplemented:
                    raise Unsupported(f"subscript store on {base!r}")
        elif isinstance(tgt, ast.Attribute):
            raise Unsupported("attribute store")
        else:
            raise Unsupported(ast.dump(tgt)[:60])

    def dict_store(self, ref, key, val, fr, node):
        if not isinstance(key, tuple):
            key = (key,)
        val = self._freeze(val, fr)
        mark = fr.marks[0] if fr.marks else len(fr.pc)
        guard = z3.And(*[zbool(c) for c in fr.pc[mark:]]) if fr.pc[mark:] else z3.BoolVal(True)
        ent = Entry(fr.binders, guard, key, val, getattr(node, "lineno", 0))
        ent.aux = fr.aux
        ent.pc_outer = list(fr.pc[:mark])
        if fr.aux and not self.quiet:
            # a loop-carried scalar in a key/value must be DETERMINED by the iteration (binders) through the
            # invariant: otherwise `defined` / `lookup`, which quantify it existentially, would over-approximate
            used = [a for a in fr.aux if _mentions_any((key, val), a, fr.heap)]
            if used:
                primed = [(a, z3.FreshConst(a.sort(), "det")) for a in used]
                g2 = z3.substitute(guard, *primed)
                goal = z3.And(*[a == b for a, b in primed])
                self.pv.prove(f"{self.fname}#det:carried-state-determined@L{getattr(node, 'lineno', '?')}", list(fr.pc) + [g2], goal)
        fr.heap[ref.oid] = fr.heap[ref.oid].add(ent)

    def dict_keys_seq(self, ref, fr):
        """list(d) / iteration order of a dict built by ONE insertion family `for i in range(lo, hi): d[key(i)] = ...`
        whose key carries the binder itself as a component (so keys are pairwise distinct and the insertion order is
        the binder order): the keys as a sequence.  Anything else is outside the subset."""
        from .ctx import subst

        st = fr.heap[ref.oid]
        if st.base is not None or len(st.entries) != 1:
            raise Unsupported("keys of a dict that is not built by a single insertion family")
        ent = st.entries[0]
        if not ent.binders:
            return Seq.of([ent.key if len(ent.key) != 1 else ent.key[0]])
        if len(ent.binders) != 1 or getattr(ent, "aux", ()):
            raise Unsupported("keys of a dict built under nested loops / carried state")
        var, lo, hi = ent.binders[0]
        in_range = z3.And(zint(lo) <= var, var < zint(hi))
        if self.pv.feasible(list(getattr(ent, "pc_outer", [])) + [in_range, z3.Not(zbool(ent.guard))]) is not False:
            raise Unsupported("keys of a dict built under a guard (some iterations may not insert)")
        if not any(is_z3(part) and part.eq(var) for part in ent.key):
            # distinctness by the solver: two different iterations cannot produce equal keys
            v2 = z3.FreshConst(z3.IntSort(), "other")
            key2 = subst(ent.key, [(var, v2)])
            same = self.equal(tuple(ent.key), tuple(key2), fr)
            if self.pv.feasible(list(getattr(ent, "pc_outer", [])) + [in_range, z3.And(zint(lo) <= v2, v2 < zint(hi)), var != v2, zbool(same)]) is not False:
                raise Unsupported("keys of a dict whose keys are not provably distinct across iterations")
        lo_, hi_ = zint(lo), zint(hi)
        key = ent.key if len(ent.key) != 1 else ent.key[0]
        return Seq(simp_int(z3.If(hi_ > lo_, hi_ - lo_, 0)), lambda k, key=key, var=var, lo_=lo_: subst(key, [(var, simp_int(lo_ + zint(k)) if not isinstance(simp_int(lo_ + zint(k)), int) else z3.IntVal(simp_int(lo_ + zint(k))))]), "list")

    def _freeze(self, v, fr):
        """Snapshot lists referenced by a value stored into a dict (A-alias: such a list is not mutated after
        it was stored; the concrete cross-check runs the real code, where aliasing is real)."""
        if isinstance(v, Ref) and v.kind == "list":
            self.assumptions.add("A-alias: a list stored as (part of) a dict value is not mutated afterwards")
            s = fr.heap[v.oid]
            heap = dict(fr.heap)  # lists nested inside the stored list are snapshotted too (same assumption)

            def deep(x, heap=heap):
                if isinstance(x, Ref) and x.kind == "list" and x.oid in heap:
                    inner = heap[x.oid]
                    return Seq(inner.length, lambda k, inner=inner: deep(inner.fn(k)), "list")
                if isinstance(x, tuple):
                    return tuple(deep(y) for y in x)
                return x

            return Seq(s.length, lambda k, s=s: deep(s.fn(k)), "list")
        if isinstance(v, tuple):
            return tuple(self._freeze(x, fr) for x in v)
        return v

    def oblige_functional(self, fr, key, val, node):
        if self.quiet:
            return
        vars_ = [b[0] for b in fr.binders] + list(fr.aux)
        if not vars_:
            return
        if not isinstance(key, tuple):
            key = (key,)
        from .ctx import subst

        mark = fr.marks[0] if fr.marks else len(fr.pc)
        primed = [(v, z3.FreshConst(v.sort(), "fn")) for v in vars_]
        pc2 = [z3.substitute(zbool(c), *primed) for c in fr.pc[mark:]]
        key2, val2 = subst(key, primed, fr.heap), subst(val, primed, fr.heap)
        same_key = zbool(self.equal(key, key2, fr))
        goal = self.equal(val, val2, fr)
        self.pv.prove(f"{self.fname}#fn:guarded-insert-value-determined-by-key@L{getattr(node, 'lineno', '?')}", list(fr.pc) + pc2 + [same_key], goal)

    def norm_index(self, idx, s, fr, node):
        n = s.length
        idx = simp_int(idx)
        if isinstance(idx, int) and idx < 0:
            idx = simp_int(zint(n) + idx)
        elif not isinstance(idx, int):
            if not is_int_sorted(idx):
                raise Unsupported(f"non-integer index {idx!r}")
            idx = z3.If(idx < 0, idx + zint(n), idx)
        ok = z3.And(zint(idx) >= 0, zint(idx) < zint(n))
        self.oblige("safe:index", fr, ok, node)
        self.assume(fr, ok)
        return simp_int(idx)

    # ------------------------------------------------------------------ truth / spec
    def truth(self, v, fr):
        if isinstance(v, bool):
            return v
        if v is None:
            return False
        if isinstance(v, int):
            return v != 0
        if isinstance(v, float):
            return v != 0.0
        if is_z3(v):
            if z3.is_bool(v):
                return v
            if v.sort() in (z3.IntSort(), z3.RealSort()):
                return v != 0
            return True  # labels are truthy (assumption: labels are non-empty / non-zero values)
        if isinstance(v, Seq) or (isinstance(v, Ref) and v.kind == "list"):
            s = self.seq_of(v, fr)
            if isinstance(s.length, int):
                return s.length > 0
            return s.length > 0
        if isinstance(v, Ref) and v.kind == "dict":
            ents = fr.heap[v.oid].entries
            if not ents:
                return False
            raise Unsupported("truth of symbolic dict")
        if isinstance(v, (tuple, str, dict)):
            return len(v) > 0
        if isinstance(v, SetVal):
            if v.elems is not None:
                return len(v.elems) > 0
            if getattr(v, "nonempty", None) is not None:
                return v.nonempty
            raise Unsupported("truth of symbolic set")
        if isinstance(v, Ite):
            return z3.If(v.c, zbool(self.truth(v.a, fr)), zbool(self.truth(v.b, fr)))
        if isinstance(v, (Opaque, Obj, Term, NameStr)):
            return True
        raise Unsupported(f"truth of {v!r}")

    def eval_spec(self, src, fr):
        if callable(src):
            from .ctx import SymCtx

            return src(SymCtx(self, fr), fr.env)
        node = ast.parse(src, mode="eval").body
        self.quiet += 1
        try:
            return self.truth(self.eval(node, fr), fr)
        finally:
            self.quiet -= 1

    # ------------------------------------------------------------------ expressions
    def eval(self, e, fr):
        m = getattr(self, "ev_" + type(e).__name__, None)
        if m is None:
            raise Unsupported(type(e).__name__ + ": " + ast.unparse(e)[:60])
        return m(e, fr)

    def ev_Constant(self, e, fr):
        return e.value

    def ev_Name(self, e, fr):
        if e.id in fr.env:
            v = fr.env[e.id]
            if isinstance(v, Ite) and (v.a is None or v.b is None):
                # an optional value (`x = f(); if x is None: return ...; use(x)`): once the path excludes one alternative the
                # local simply holds the other one
                if not self.pv.feasible(list(fr.pc) + [zbool(v.c)]):
                    v = fr.env[e.id] = v.b
                elif not self.pv.feasible(list(fr.pc) + [z3.Not(zbool(v.c))]):
                    v = fr.env[e.id] = v.a
            return v
        if e.id in self.spec.globals:
            return self.spec.globals[e.id]
        if e.id in BUILTINS:
            return Opaque("builtin:" + e.id)
        return Opaque(e.id)

    def ev_Attribute(self, e, fr):
        base = self.eval(e.value, fr)
        return self.getattr(base, e.attr, fr, e)

    def getattr(self, base, attr, fr, node=None):
        if isinstance(base, Obj):
            if attr in base.attrs:
                v = base.attrs[attr]
                if callable(v) and getattr(v, "_is_attr_fn", False):
                    return v(self, fr)
                return v
            raise Unsupported(f"{base.name}.{attr} is not in the contract's object model")
        if isinstance(base, Opaque):
            return Opaque(base.name + "." + attr)
        if isinstance(base, (Ref, Seq, tuple, SetVal, str, NameStr, Term)):
            return ("method", base, attr)
        if isinstance(base, Ite):
            # a conditional value one of whose alternatives the path excludes (`x = f(); if x is None: return; x.attr`)
            if not self.pv.feasible(list(fr.pc) + [zbool(base.c)]):
                return self.getattr(base.b, attr, fr, node)
            if not self.pv.feasible(list(fr.pc) + [z3.Not(zbool(base.c))]):
                return self.getattr(base.a, attr, fr, node)
            return ite(base.c, self.getattr(base.a, attr, fr, node), self.getattr(base.b, attr, fr, node))
        raise Unsupported(f"attribute {attr} of {base!r}")

    def ev_Tuple(self, e, fr):
        if any(isinstance(x, ast.Starred) for x in e.elts):
            raise Unsupported("starred in tuple")
        return tuple(self.eval(x, fr) for x in e.elts)

    def ev_List(self, e, fr):
        vals = [self.eval(x, fr) for x in e.elts]
        return self.new_list(fr, Seq.of(vals))

    def ev_Dict(self, e, fr):
        ref = self.new_dict(fr)
        for k, v in zip(e.keys, e.values):
            if k is None:
                raise Unsupported("dict unpacking")
            self.dict_store(ref, self.eval(k, fr), self.eval(v, fr), fr, e)
        return ref

    def ev_Set(self, e, fr):
        vals = [self.eval(x, fr) for x in e.elts]
        return self.set_of_values(vals)

    def set_of_values(self, vals):
        def pred(x, vals=vals):
            rs = [self.equal(x, v) for v in vals]
            return _or(rs)

        return SetVal(pred, list(vals))

    def ev_JoinedStr(self, e, fr):
        parts = []
        for v in e.values:
            if isinstance(v, ast.Constant):
                parts.append(v.value)
            else:
                if v.format_spec is not None or v.conversion != -1:
                    raise Unsupported("format spec in f-string")
                parts.append(self.eval(v.value, fr))
        hook = getattr(self.spec, "fstring", None)
        if hook is not None:
            r = hook(self, fr, parts)
            if r is not NotImplemented:
                return r
        out = ""
        for p in parts:
            out = self.str_concat(out, p)
        return out

    def str_concat(self, a, b):
        if isinstance(a, str) and isinstance(b, str):
            return a + b
        if isinstance(a, str) and isinstance(b, NameStr):
            return NameStr(a + b.prefix, b.atom, b.suffix)
        if isinstance(a, NameStr) and isinstance(b, str):
            return NameStr(a.prefix, a.atom, a.suffix + b)
        if isinstance(a, (str, NameStr)) and isinstance(b, int) and not isinstance(b, bool):
            return self.str_concat(a, str(b))
        raise Unsupported(f"string concat {a!r} + {b!r}")

    def ev_UnaryOp(self, e, fr):
        v = self.eval(e.operand, fr)
        if isinstance(e.op, ast.Not):
            t = self.truth(v, fr)
            return (not t) if isinstance(t, bool) else z3.Not(t)
        if isinstance(e.op, ast.USub):
            return -v
        raise Unsupported("unary op")

    def ev_BoolOp(self, e, fr):
        # Python semantics: `a or b` / `a and b` yield one of the OPERANDS.  While the truth of the leading operands
        # is concrete the selected operand itself is returned (`x or default`); once an operand's truth is symbolic
        # only the truth of the whole operation is modelled (enough for conditions).
        # Short-circuit: right operands are evaluated under the left operands' guard.
        is_and = isinstance(e.op, ast.And)
        acc = []
        f = fr
        last = len(e.values) - 1
        for n, x in enumerate(e.values):
            val = self.eval(x, f)
            v = self.truth(val, f)
            if isinstance(v, bool):
                if is_and and not v:
                    return val if not acc else False
                if not is_and and v:
                    return val if not acc else True
                if n == last and not acc:
                    return val
                continue
            if n == last and not acc:
                return val
            acc.append(v)
            f = f.clone()
            f.heap = fr.heap
            f.pc.append(v if is_and else z3.Not(v))
        if not acc:
            return is_and
        if len(acc) == 1:
            return acc[0]
        return z3.And(*acc) if is_and else z3.Or(*acc)

    def ev_IfExp(self, e, fr):
        c = self.truth(self.eval(e.test, fr), fr)
        if isinstance(c, bool):
            return self.eval(e.body if c else e.orelse, fr)
        fa, fb = fr.clone(), fr.clone()
        fa.pc.append(c)
        fb.pc.append(z3.Not(c))
        return ite(c, self.eval(e.body, fa), self.eval(e.orelse, fb))

    def ev_Compare(self, e, fr):
        left = self.eval(e.left, fr)
        res = []
        for op, rhs in zip(e.ops, e.comparators):
            right = self.eval(rhs, fr)
            res.append(self.cmp(op, left, right, fr, e))
            left = right
        return _and(res)

    def cmp(self, op, a, b, fr, node=None):
        if isinstance(op, (ast.Is, ast.IsNot)):
            r = self.is_(a, b)
            return r if isinstance(op, ast.Is) else _not(r)
        if isinstance(op, (ast.Eq, ast.NotEq)):
            r = self.equal(a, b, fr)
            return r if isinstance(op, ast.Eq) else _not(r)
        if isinstance(op, (ast.In, ast.NotIn)):
            r = self.contains(b, a, fr)
            return r if isinstance(op, ast.In) else _not(r)
        for side, x in (("a", a), ("b", b)):
            if isinstance(x, Ite) and (x.a is None or x.b is None) and not (x.a is None and x.b is None):
                # ordering against an optional value: Python raises TypeError on None, so the comparison is only
                # within the subset where the path condition excludes the None branch
                none_cond = x.c if x.a is None else z3.Not(x.c)
                if fr is None or self.pv.feasible(list(fr.pc) + [none_cond]) is not False:
                    raise Unsupported("ordering comparison of a value that may be None on this path")
                val = x.b if x.a is None else x.a
                return self.cmp(op, val, b, fr, node) if side == "a" else self.cmp(op, a, val, fr, node)
        if isinstance(a, Ite):
            return z3.If(a.c, zbool(self.cmp(op, a.a, b, fr)), zbool(self.cmp(op, a.b, b, fr)))
        if isinstance(b, Ite):
            return z3.If(b.c, zbool(self.cmp(op, a, b.a, fr)), zbool(self.cmp(op, a, b.b, fr)))
        if isinstance(a, SetVal) and isinstance(b, SetVal):
            hook = getattr(self.spec, "set_compare", None)
            if hook is not None:
                return hook(self, fr, op, a, b)
            raise Unsupported("set comparison")
        if isinstance(a, (Seq, Ref)) or isinstance(b, (Seq, Ref)):
            # array-style comparison (numpy broadcasting) is library vocabulary: only a contract's hook can give it a meaning
            hook = getattr(self.spec, "compare", None)
            r = hook(self, fr, op, a, b) if hook is not None else NotImplemented
            if r is NotImplemented:
                raise Unsupported("ordering comparison involving a sequence")
            return r
        if isinstance(a, (int, float)) and isinstance(b, (int, float)) and not is_z3(a) and not is_z3(b):
            return {ast.Lt: a < b, ast.LtE: a <= b, ast.Gt: a > b, ast.GtE: a >= b}[type(op)]
        lt = getattr(self.spec, "order", None)
        if is_lab_sorted(a) or is_lab_sorted(b):
            if lt is None:
                raise Unsupported("ordering on labels")
            return lt(self, op, a, b)
        if a is None or b is None or isinstance(a, (str, Opaque, NameStr)) or isinstance(b, (str, Opaque, NameStr)):
            raise Unsupported(f"ordering comparison of {a!r} and {b!r}")
        if is_real_sorted(a) or is_real_sorted(b) or isinstance(a, float) or isinstance(b, float):
            a, b = zreal(a), zreal(b)
        else:
            a, b = zint(a), zint(b)
        return {ast.Lt: lambda: a < b, ast.LtE: lambda: a <= b, ast.Gt: lambda: a > b, ast.GtE: lambda: a >= b}[type(op)]()

    def is_(self, a, b):
        if a is None or b is None:
            if isinstance(a, Ite):
                return z3.If(a.c, zbool(self.is_(a.a, b)), zbool(self.is_(a.b, b)))
            if isinstance(b, Ite):
                return self.is_(b, a)
            return a is None and b is None
        if isinstance(a, bool) or isinstance(b, bool):
            if is_z3(a) or is_z3(b):
                return zbool(a) == zbool(b)
            return a is b
        if isinstance(a, (Obj, Ref, Term)) and isinstance(b, (Obj, Ref, Term)):
            if isinstance(a, Ref) and isinstance(b, Ref):
                return a.oid == b.oid
            return a is b
        if isinstance(a, Opaque) and isinstance(b, Opaque):
            return a == b
        raise Unsupported(f"`is` on {a!r}, {b!r}")

    def equal(self, a, b, fr=None):
        heap = fr.heap if fr is not None else None
        for x in (a, b):
            if isinstance(x, tuple) and len(x) == 3 and x[0] in ("method", "localfn"):
                # an attribute of a constructed node / sequence that was never called (`result.columns == ...`): no meaning here
                raise Unsupported(f"comparison with the unevaluated attribute {x[2] if x[0] == 'method' else x[1].name!r}")
        if isinstance(a, Ite):

            def branch(x, cond):
                try:
                    return zbool(self.equal(x, b, fr))
                except Unsupported:
                    # a comparison the subset gives no meaning to is irrelevant on a branch the path excludes
                    if fr is not None and self.pv.feasible(list(fr.pc) + [cond]) is False:
                        return z3.BoolVal(False)
                    raise

            if fr is None:
                return z3.If(a.c, branch(a.a, a.c), branch(a.b, z3.Not(a.c)))
            # evaluate each branch under its own condition (nested conditionals see the enclosing ones)
            fr.pc.append(a.c)
            try:
                ra = branch(a.a, z3.BoolVal(True))
            finally:
                fr.pc.pop()
            fr.pc.append(z3.Not(a.c))
            try:
                rb = branch(a.b, z3.BoolVal(True))
            finally:
                fr.pc.pop()
            return z3.If(a.c, ra, rb)
        if isinstance(b, Ite):
            return self.equal(b, a, fr)
        if isinstance(a, Ref) and a.kind == "list" and heap is not None:
            a = heap[a.oid]
        if isinstance(b, Ref) and b.kind == "list" and heap is not None:
            b = heap[b.oid]
        if isinstance(a, tuple) and isinstance(b, tuple):
            if len(a) != len(b):
                return False
            return _and([self.equal(x, y, fr) for x, y in zip(a, b)])
        if isinstance(a, Seq) or isinstance(b, Seq):
            sa, sb = as_seq(a), as_seq(b)
            if sa is None or sb is None:
                return False
            if isinstance(sa.length, int) and isinstance(sb.length, int):
                if sa.length != sb.length:
                    return False
                return _and([self.equal(sa.get(k), sb.get(k), fr) for k in range(sa.length)])
            k = fresh_int("k")
            la, lb = zint(sa.length), zint(sb.length)
            body = zbool(self.equal(sa.get(k), sb.get(k), fr))
            return z3.And(la == lb, z3.ForAll([k], z3.Implies(z3.And(k >= 0, k < la), body)))
        if isinstance(a, NameStr) or isinstance(b, NameStr):
            self.assumptions.add("A-names")
            if isinstance(a, NameStr) and isinstance(b, NameStr):
                return a.same(b)
            return False
        if isinstance(a, Term) and isinstance(b, Term):
            if a.cls != b.cls or len(a.args) != len(b.args) or set(a.kwargs) != set(b.kwargs):
                return False
            return _and(
                [self.equal(x, y, fr) for x, y in zip(a.args, b.args)]
                + [self.equal(a.kwargs[k], b.kwargs[k], fr) for k in a.kwargs]
            )
        if isinstance(a, SetVal) and isinstance(b, SetVal):
            hook = getattr(self.spec, "set_compare", None)
            if hook is not None:
                return hook(self, fr, ast.Eq(), a, b)
            raise Unsupported("set equality")
        za, zb = is_z3(a), is_z3(b)
        if za or zb:
            if a is None or b is None or isinstance(a, (Opaque, str, NameStr, Obj, Term)) or isinstance(b, (Opaque, str, NameStr, Obj, Term)):
                if (is_lab_sorted(a) and isinstance(b, str)) or (is_lab_sorted(b) and isinstance(a, str)):
                    hook = getattr(self.spec, "label_of_str", None)
                    if hook is not None:
                        s, l = (b, a) if isinstance(b, str) else (a, b)
                        return l == hook(s)
                return False
            if isinstance(a, bool) or isinstance(b, bool) or (za and z3.is_bool(a)) or (zb and z3.is_bool(b)):
                if (za and not z3.is_bool(a)) or (zb and not z3.is_bool(b)):
                    raise Unsupported("bool/int mixed equality")
                return zbool(a) == zbool(b)
            if is_lab_sorted(a) or is_lab_sorted(b):
                if is_lab_sorted(a) and is_lab_sorted(b):
                    return a == b
                return False
            if is_real_sorted(a) or is_real_sorted(b) or isinstance(a, float) or isinstance(b, float):
                return zreal(a) == zreal(b)
            return zint(a) == zint(b)
        if isinstance(a, Obj) or isinstance(b, Obj):
            return a is b
        try:
            return bool(a == b)
        except Exception:
            raise Unsupported(f"equality of {a!r} and {b!r}")

    def contains(self, container, x, fr):
        if isinstance(container, Ite):
            return z3.If(container.c, zbool(self.contains(container.a, x, fr)), zbool(self.contains(container.b, x, fr)))
        if isinstance(container, SetVal):
            return container.has(x)
        if isinstance(container, Ref) and container.kind == "dict":
            from .ctx import SymCtx

            return SymCtx(self, fr).defined(container, x)
        if isinstance(container, str) and isinstance(x, str):
            return x in container
        s = as_seq(container, fr.heap)
        if s is None:
            hook = getattr(self.spec, "contains", None)
            if hook is not None:
                return hook(self, fr, container, x)
            raise Unsupported(f"`in` on {container!r}")
        if isinstance(s.length, int):
            return _or([self.equal(s.get(k), x, fr) for k in range(s.length)])
        k = fresh_int("k")
        return z3.Exists([k], z3.And(k >= 0, k < zint(s.length), zbool(self.equal(s.get(k), x, fr))))

    def ev_BinOp(self, e, fr):
        return self.binop(e.op, self.eval(e.left, fr), self.eval(e.right, fr), fr, e)

    def concat(self, a, b):
        la = a.length
        if isinstance(la, int) and isinstance(b.length, int):
            return Seq(la + b.length, lambda k, a=a, b=b, la=la: _concat_get(a, b, la, k), a.kind)
        return Seq(
            simp_int(zint(la) + zint(b.length)),
            lambda k, a=a, b=b, la=la: _concat_get(a, b, la, k),
            a.kind,
        )

    def binop(self, op, a, b, fr, node=None):
        if isinstance(a, Ite):
            return ite(a.c, self.binop(op, a.a, b, fr, node), self.binop(op, a.b, b, fr, node))
        if isinstance(b, Ite):
            return ite(b.c, self.binop(op, a, b.a, fr, node), self.binop(op, a, b.b, fr, node))
        if isinstance(op, ast.Add):
            if isinstance(a, tuple) and isinstance(b, tuple):
                return a + b
            sa, sb = as_seq(a, fr.heap), as_seq(b, fr.heap)
            if sa is not None and sb is not None:
                r = self.concat(sa, sb)
                if isinstance(a, Ref):
                    return self.new_list(fr, r)
                r.kind = sa.kind
                return r
            if isinstance(a, (str, NameStr)) or isinstance(b, (str, NameStr)):
                return self.str_concat(a, b)
        if isinstance(op, ast.Mult):
            sa = as_seq(a, fr.heap)
            if sa is not None and not isinstance(b, (Seq, Ref, tuple)):
                if sa.length != 1:
                    raise Unsupported("sequence repetition of non-singleton")
                self.oblige("safe:repeat-nonneg", fr, zint(b) >= 0, node)
                r = Seq(b, lambda k, sa=sa: sa.get(0), sa.kind)
                return self.new_list(fr, r) if isinstance(a, Ref) else r
        if isinstance(op, ast.BitOr) and isinstance(a, SetVal) and isinstance(b, SetVal):
            return SetVal(lambda x, a=a, b=b: _or([a.has(x), b.has(x)]), (a.elems + b.elems) if a.elems is not None and b.elems is not None else None)
        if isinstance(op, ast.BitAnd) and isinstance(a, SetVal) and isinstance(b, SetVal):
            return SetVal(lambda x, a=a, b=b: _and([a.has(x), b.has(x)]))
        if isinstance(op, ast.Sub) and isinstance(a, SetVal) and isinstance(b, SetVal):
            return SetVal(lambda x, a=a, b=b: _and([a.has(x), _not(b.has(x))]))
        if isinstance(op, ast.Mod) and isinstance(a, str):
            raise Unsupported("%-formatting")
        if a is None or b is None or isinstance(a, (str, Opaque, NameStr, Obj, tuple, Seq, Ref)) or isinstance(b, (str, Opaque, NameStr, Obj, tuple, Seq, Ref)):
            raise Unsupported(f"binop {type(op).__name__} on {a!r}, {b!r}")
        real = is_real_sorted(a) or is_real_sorted(b) or isinstance(a, float) or isinstance(b, float)
        if isinstance(op, ast.Div):
            self.oblige("safe:div0", fr, zreal(b) != 0, node)
            self.assumptions.add("A2-floats-as-reals")
            return zreal(a) / zreal(b)
        if real:
            self.assumptions.add("A2-floats-as-reals")
            a, b = zreal(a), zreal(b)
            if isinstance(op, ast.Add):
                return a + b
            if isinstance(op, ast.Sub):
                return a - b
            if isinstance(op, ast.Mult):
                return a * b
            raise Unsupported(f"real {type(op).__name__}")
        if not is_z3(a) and not is_z3(b):
            import operator as _o

            f = {ast.Add: _o.add, ast.Sub: _o.sub, ast.Mult: _o.mul, ast.FloorDiv: _o.floordiv, ast.Mod: _o.mod, ast.Pow: _o.pow}.get(type(op))
            if f is None:
                raise Unsupported(type(op).__name__)
            return f(a, b)
        a, b = zint(a), zint(b)
        if isinstance(op, ast.Add):
            return a + b
        if isinstance(op, ast.Sub):
            return a - b
        if isinstance(op, ast.Mult):
            return a * b
        if isinstance(op, ast.FloorDiv):
            # z3 `div` is floor division for a positive divisor
            self.oblige("safe:floordiv-positive-divisor", fr, b > 0, node)
            return a / b
        if isinstance(op, ast.Mod):
            self.oblige("safe:mod-positive-divisor", fr, b > 0, node)
            return a % b
        raise Unsupported(type(op).__name__)

    def ev_Subscript(self, e, fr):
        base = self.eval(e.value, fr)
        return self.subscript(base, e.slice, fr, e)

    def subscript(self, base, sl, fr, node):
        if isinstance(base, Ite):
            fa, fb = fr.clone(), fr.clone()
            fa.pc.append(base.c)
            fb.pc.append(z3.Not(base.c))
            return ite(base.c, self.subscript(base.a, sl, fa, node), self.subscript(base.b, sl, fb, node))
        if isinstance(sl, ast.Slice):
            if sl.step is not None:
                raise Unsupported("slice step")
            lo = self.eval(sl.lower, fr) if sl.lower is not None else None
            hi = self.eval(sl.upper, fr) if sl.upper is not None else None
            if isinstance(base, tuple) and (lo is None or isinstance(lo, int)) and (hi is None or isinstance(hi, int)):
                return base[lo:hi]
            s = self.seq_of(base, fr)
            n = zint(s.length)
            lo_ = _clip_index(0 if lo is None else lo, n)
            hi_ = n if hi is None else _clip_index(hi, n)
            length = simp_int(z3.If(hi_ - lo_ > 0, hi_ - lo_, 0))
            r = Seq(length, lambda k, s=s, lo_=lo_: s.get(simp_int(lo_ + zint(k))), s.kind)
            if isinstance(base, Ref):
                return self.new_list(fr, r)
            return r
        idx = self.eval(sl, fr)
        if isinstance(base, Ref) and base.kind == "dict":
            from .ctx import SymCtx

            cx = SymCtx(self, fr)
            self.oblige("safe:key-defined", fr, cx.defined(base, idx), node)
            return cx.lookup(base, idx)
        if isinstance(base, tuple):
            idx = simp_int(idx)
            if isinstance(idx, int):
                return base[idx]
            s = Seq.of(base, "tuple")
            return s.get(self.norm_index(idx, s, fr, node))
        s = as_seq(base, fr.heap)
        if s is not None:
            idx = self.norm_index(idx, s, fr, node)
            return s.get(idx)
        hook = getattr(self.spec, "subscript", None)
        if hook is not None:
            r = hook(self, fr, base, idx)
            if r is not NotImplemented:
                return r
        raise Unsupported(f"subscript of {base!r}")

    # ------------------------------------------------------------------ comprehensions
    def _comp_seq(self, e, fr, elt_eval):
        if len(e.generators) != 1:
            raise Unsupported("nested comprehension generators")
        g = e.generators[0]
        it = self.seq_of(self.eval(g.iter, fr), fr)
        if g.ifs:
            return self._filter_comp(e, g, it, fr, elt_eval)
        snapshot = fr.clone()

        def elem(k, it=it, snapshot=snapshot):
            f2 = snapshot.clone()
            self.quiet += 1
            try:
                self.assign(g.target, it.get(k), f2)
                return elt_eval(f2)
            finally:
                self.quiet -= 1

        # generate the element obligations once, under the range guard
        if isinstance(it.length, int):
            for k in range(it.length):
                f2 = snapshot.clone()
                self.assign(g.target, it.get(k), f2)
                elt_eval(f2)
        else:
            k = fresh_int("ck")
            f2 = snapshot.clone()
            f2.pc.append(z3.And(k >= 0, k < zint(it.length)))
            self.assign(g.target, it.get(k), f2)
            elt_eval(f2)
        return Seq(it.length, elem)

    def _filter_comp(self, e, g, it, fr, elt_eval):
        if not isinstance(it.length, int):
            hook = getattr(self.spec, "filter_comp", None)
            if hook is not None:
                return hook(self, fr, e, g, it, elt_eval)
            raise Unsupported("filter comprehension over a sequence of symbolic length")
        # concrete length: build by path-merging into an explicit length / element encoding
        conds, vals = [], []
        for k in range(it.length):
            f2 = fr.clone()
            self.assign(g.target, it.get(k), f2)
            c = _and([self.truth(self.eval(t, f2), f2) for t in g.ifs])
            conds.append(zbool(c))
            vals.append(elt_eval(f2))
        # position of element k in the output = number of earlier kept elements
        def count(upto):
            return z3.Sum([z3.If(c, 1, 0) for c in conds[:upto]]) if upto else z3.IntVal(0)

        length = simp_int(count(it.length))

        def elem(j, conds=conds, vals=vals):
            r = None
            for k in range(it.length - 1, -1, -1):
                here = z3.And(conds[k], count(k) == zint(j))
                r = vals[k] if r is None else ite(here, vals[k], r)
            return r if r is not None else fresh_int("oob")

        return Seq(length, elem)

    def ev_ListComp(self, e, fr):
        s = self._comp_seq(e, fr, lambda f: self.eval(e.elt, f))
        return self.new_list(fr, s)

    def ev_GeneratorExp(self, e, fr):
        s = self._comp_seq(e, fr, lambda f: self.eval(e.elt, f))
        s.kind = "tuple"
        return s

    def ev_SetComp(self, e, fr):
        s = self._comp_seq(e, fr, lambda f: self.eval(e.elt, f))
        return self.set_from_seq(s, fr)

    def set_from_seq(self, s, fr):
        if isinstance(s.length, int):
            return self.set_of_values([s.get(k) for k in range(s.length)])
        return SetVal(lambda x, s=s: self.contains(s, x, fr))

    def ev_DictComp(self, e, fr):
        if len(e.generators) != 1 or e.generators[0].ifs:
            raise Unsupported("dict comprehension shape")
        g = e.generators[0]
        it = self.seq_of(self.eval(g.iter, fr), fr)
        ref = self.new_dict(fr)
        if isinstance(it.length, int):
            for k in range(it.length):
                f2 = fr.clone()
                self.assign(g.target, it.get(k), f2)
                f2.heap = fr.heap
                self.dict_store(ref, self.eval(e.key, f2), self.eval(e.value, f2), f2, e)
            return ref
        i = fresh_int("di")
        f2 = fr.clone()
        mark = len(f2.pc)
        f2.binders = f2.binders + ((i, 0, it.length),)
        f2.marks = f2.marks + (mark,)
        f2.pc.append(z3.And(i >= 0, i < zint(it.length)))
        self.assign(g.target, it.get(i), f2)
        key, val = self.eval(e.key, f2), self.eval(e.value, f2)
        f2.heap[ref.oid] = fr.heap[ref.oid]
        self.dict_store(ref, key, val, f2, e)
        # lists created while evaluating the element live in f2's heap: keep them reachable
        for oid, v in f2.heap.items():
            if oid not in fr.heap or oid == ref.oid:
                fr.heap[oid] = v
        return ref

    # ------------------------------------------------------------------ calls
    def ev_Call(self, e, fr):
        if any(isinstance(a, ast.Starred) for a in e.args) or any(k.arg is None for k in e.keywords):
            hook = getattr(self.spec, "star_call", None)
            if hook is not None:
                r = hook(self, fr, e)
                if r is not NotImplemented:
                    return r
            raise Unsupported("star-args call " + ast.unparse(e)[:60])
        kwargs = {k.arg: self.eval(k.value, fr) for k in e.keywords}
        if isinstance(e.func, ast.Name) and e.func.id == "super" and not e.args:
            sup = self.spec.globals.get("super()")
            if sup is None:
                raise Unsupported("super() without a model")
            return sup
        if isinstance(e.func, ast.Attribute) and e.func.attr == "add" and isinstance(e.func.value, ast.Name) and isinstance(fr.env.get(e.func.value.id), SetVal) and len(e.args) == 1 and not kwargs:
            # `s.add(x)` on a set held in a local: the local is rebound to s | {x} (sets are not aliased in the subset, A1)
            old, x = fr.env[e.func.value.id], self.eval(e.args[0], fr)
            fr.env[e.func.value.id] = SetVal(lambda y, old=old, x=x: _or([old.has(y), self.equal(y, x)]), None if old.elems is None else list(old.elems) + [x])
            return None
        f = self.eval(e.func, fr)
        args = [self.eval(a, fr) for a in e.args]
        return self.call(f, args, kwargs, fr, e)

    def call(self, f, args, kwargs, fr, node):
        if isinstance(f, tuple) and len(f) == 3 and f[0] == "method":
            _, base, name = f
            return self.call_method(base, name, args, kwargs, fr, node)
        if isinstance(f, tuple) and len(f) == 3 and f[0] == "localfn":
            return self.call_local(f, args, kwargs, fr, node)
        if callable(f) and getattr(f, "_is_contract_fn", False):
            return f(self, fr, *args, **kwargs)
        if isinstance(f, Opaque):
            return self.call_opaque(f, args, kwargs, fr, node)
        if isinstance(f, Ite):
            raise Unsupported("call of conditional callee")
        raise Unsupported(f"call of {f!r}")

    def call_local(self, f, args, kwargs, fr, node):
        _, fn, closure = f
        if kwargs or fn.args.defaults or fn.args.kwonlyargs or fn.args.vararg:
            raise Unsupported("local function signature")
        sub = fr.clone()
        sub.env = dict(closure)
        sub.env.update(fr.env)
        for a, v in zip(fn.args.args, args):
            sub.env[a.arg] = v
        inner = Exec(self.pv, self.spec, self.fname + "." + fn.name)
        inner._oid = self._oid + 1000
        live = inner.run_block(fn.body, [sub])
        rets = [(f_, v) for f_, k, v in inner.results if k == "return"] + [(f_, None) for f_ in live]
        if any(k == "raise" for _, k, _ in inner.results):
            raise Unsupported("raise inside local function")
        if len(rets) == 1:
            fr.pc[:] = rets[0][0].pc
            return rets[0][1]
        # merge the return values of the local function's paths
        out = None
        for f_, v in reversed(rets):
            cond = z3.And(*[zbool(c) for c in f_.pc[len(fr.pc):]]) if f_.pc[len(fr.pc):] else z3.BoolVal(True)
            out = v if out is None else ite(cond, v, out)
        return out

    def call_method(self, base, name, args, kwargs, fr, node):
        if isinstance(base, Ref) and base.kind == "list":
            return self.list_method(base, name, args, fr, node)
        if isinstance(base, Ref) and base.kind == "dict":
            if name == "update" and len(args) == 1 and isinstance(args[0], Ref) and args[0].kind == "dict":
                fr.heap[base.oid] = fr.heap[base.oid].extend(fr.heap[args[0].oid].entries)
                return None
            if name == "copy" and not args:
                return self.new_dict(fr, fr.heap[base.oid])
            if name == "keys" and not args:
                return self.dict_keys_seq(base, fr)
            raise Unsupported("dict." + name)
        if isinstance(base, SetVal):
            if name == "issubset" and len(args) == 1:
                hook = getattr(self.spec, "set_compare", None)
                other = args[0]
                if not isinstance(other, SetVal):
                    other = self.set_from_seq(self.seq_of(other, fr), fr)
                if hook is None:
                    raise Unsupported("set.issubset")
                return hook(self, fr, ast.LtE(), base, other)
            if name == "union":
                out = base
                for a in args:
                    if not isinstance(a, SetVal):
                        a = self.set_from_seq(self.seq_of(a, fr), fr)
                    out = self.binop(ast.BitOr(), out, a, fr, node)
                return out
            raise Unsupported("set." + name)
        if isinstance(base, (Seq, tuple)) and name == "index":
            raise Unsupported("tuple.index")
        if isinstance(base, (str, NameStr)):
            raise Unsupported("str." + name)
        hook = getattr(self.spec, "method", None)
        if hook is not None:
            r = hook(self, fr, base, name, args, kwargs)
            if r is not NotImplemented:
                return r
        raise Unsupported(f"method {name} of {base!r}")

    def list_method(self, ref, name, args, fr, node):
        s = fr.heap[ref.oid]
        if name == "append":
            (v,) = args
            n = s.length
            fr.heap[ref.oid] = Seq(
                simp_int(zint(n) + 1), lambda k, s=s, n=n, v=v: ite(zint(k) == zint(n), v, s.get(k))
            )
            return None
        if name == "extend":
            (v,) = args
            fr.heap[ref.oid] = self.concat(s, self.seq_of(v, fr))
            return None
        if name == "insert":
            pos, v = args
            if simp_int(pos) != 0:
                raise Unsupported("list.insert at non-zero position")
            fr.heap[ref.oid] = Seq(
                simp_int(zint(s.length) + 1), lambda k, s=s, v=v: ite(zint(k) == 0, v, s.get(simp_int(zint(k) - 1)))
            )
            return None
        if name == "copy":
            return self.new_list(fr, s)
        if name == "reverse":
            n = s.length
            fr.heap[ref.oid] = Seq(n, lambda k, s=s, n=n: s.get(simp_int(zint(n) - 1 - zint(k))))
            return None
        raise Unsupported("list." + name)

    def call_opaque(self, f, args, kwargs, fr, node):
        name = f.name
        callee = self.spec.callees.get(name)
        if callee is not None:
            return callee(self, fr, *args, **kwargs)
        if name == "builtin:len":
            (a,) = args
            if isinstance(a, Ite):
                return ite(a.c, self.call_opaque(f, [a.a], kwargs, fr, node), self.call_opaque(f, [a.b], kwargs, fr, node))
            if isinstance(a, (Seq, Ref, tuple)):
                if isinstance(a, Ref) and a.kind == "dict":
                    raise Unsupported("len(dict)")
                return self.seq_of(a, fr).length
            if isinstance(a, str):
                return len(a)
            if isinstance(a, SetVal) and a.elems is not None:
                if len(a.elems) > 4:
                    raise Unsupported("len(set) of more than four explicit elements")
                # number of distinct values among the explicit elements
                tot = 0
                for k, x in enumerate(a.elems):
                    dup = _or([self.equal(x, y, fr) for y in a.elems[:k]]) if k else False
                    tot = tot + (0 if dup is True else 1 if dup is False else z3.If(zbool(dup), 0, 1))
                return simp_int(tot) if is_z3(tot) else tot
            hook = getattr(self.spec, "len_hook", None)
            if hook is not None:
                return hook(self, fr, a)
            raise Unsupported(f"len of {a!r}")
        if name == "builtin:range":
            if len(args) == 1:
                lo, hi, step = 0, args[0], 1
            elif len(args) == 2:
                lo, hi, step = args[0], args[1], 1
            else:
                lo, hi, step = args
            lo, hi, step = simp_int(lo), simp_int(hi), simp_int(step)
            if not isinstance(step, int) or step == 0:
                # symbolic positive step (FusedIO buckets): length = ceil((hi-lo)/step)
                self.oblige("safe:range-step-positive", fr, zint(step) > 0, node)
                lo_, hi_, st_ = zint(lo), zint(hi), zint(step)
                length = z3.If(hi_ > lo_, (hi_ - lo_ + st_ - 1) / st_, 0)
                return Seq(simp_int(length), lambda k, lo_=lo_, st_=st_: simp_int(lo_ + zint(k) * st_), "range")
            if isinstance(lo, int) and isinstance(hi, int):
                return Seq(len(range(lo, hi, step)), lambda k, lo=lo, step=step: simp_int(lo + zint(k) * step) if not isinstance(k, int) else lo + k * step, "range")
            lo_, hi_ = zint(lo), zint(hi)
            if step == 1:
                length = z3.If(hi_ - lo_ > 0, hi_ - lo_, 0)
            elif step > 0:
                length = z3.If(hi_ > lo_, (hi_ - lo_ + step - 1) / step, 0)
            else:
                raise Unsupported("negative range step")
            return Seq(simp_int(length), lambda k, lo_=lo_, step=step: simp_int(lo_ + zint(k) * step), "range")
        if name == "builtin:int":
            (a,) = args
            if is_real_sorted(a):
                # int() truncates toward zero: equals floor only for non-negative arguments
                self.oblige("safe:int-nonneg", fr, a >= 0, node)
                return z3.ToInt(a)
            if isinstance(a, float):
                return int(a)
            return a
        if name == "builtin:float":
            (a,) = args
            return zreal(a)
        if name == "builtin:bool":
            (a,) = args
            return self.truth(a, fr)
        if name in ("builtin:list", "builtin:tuple"):
            if not args:
                return self.new_list(fr, Seq.of([])) if name.endswith("list") else ()
            (a,) = args
            if isinstance(a, SetVal) and a.elems is not None:
                s = Seq.of(a.elems)
            elif isinstance(a, Ref) and a.kind == "dict":
                s = self.dict_keys_seq(a, fr)
            else:
                s = self.seq_of(a, fr)
            if name.endswith("list"):
                return self.new_list(fr, Seq(s.length, s.fn, "list"))
            if isinstance(a, tuple):
                return a
            if isinstance(s.length, int):
                return tuple(s.get(k) for k in range(s.length))
            return Seq(s.length, s.fn, "tuple")
        if name == "builtin:dict":
            if kwargs or len(args) > 1:
                raise Unsupported("dict(...) with keyword arguments")
            if not args:
                return self.new_dict(fr)
            (a,) = args
            if isinstance(a, Ref) and a.kind == "dict":
                return self.new_dict(fr, fr.heap[a.oid])
            if isinstance(a, (Opaque, Obj)):
                # copy of an opaque mapping: its own keys are unknown, later insertions are tracked
                return self.new_dict(fr, DictState((), base=a))
            raise Unsupported(f"dict({a!r})")
        if name == "builtin:set":
            if not args:
                return self.set_of_values([])
            (a,) = args
            if isinstance(a, SetVal):
                return a
            return self.set_from_seq(self.seq_of(a, fr), fr)
        if name == "builtin:isinstance":
            v, t = args
            return self.isinstance_(v, t, fr)
        if name == "builtin:enumerate":
            (a,) = args
            s = self.seq_of(a, fr)
            return Seq(s.length, lambda k, s=s: (simp_int(k), s.get(k)), "iter")
        if name == "builtin:zip":
            ss = [self.seq_of(x, fr) for x in args]
            lens = [s.length for s in ss]
            if all(isinstance(n, int) for n in lens):
                ln = min(lens)
            else:
                ln = zint(lens[0])
                for n in lens[1:]:
                    ln = z3.If(zint(n) < ln, zint(n), ln)
                ln = simp_int(ln)
            return Seq(ln, lambda k, ss=ss: tuple(s.get(k) for s in ss), "iter")
        if name in ("builtin:min", "builtin:max") and len(args) >= 2:
            real = any(is_real_sorted(x) or isinstance(x, float) for x in args)
            conv = zreal if real else zint
            r = conv(args[0])
            for x in args[1:]:
                x = conv(x)
                r = z3.If(x < r, x, r) if name.endswith("min") else z3.If(x > r, x, r)
            return z3.simplify(r) if not real else r
        if name == "builtin:divmod":
            a, b = args
            self.oblige("safe:divmod-positive-divisor", fr, zint(b) > 0, node)
            return (zint(a) / zint(b), zint(a) % zint(b))
        if name == "builtin:sum":
            hook = getattr(self.spec, "sum_hook", None)
            if hook is not None:
                return hook(self, fr, self.seq_of(args[0], fr))
            s = self.seq_of(args[0], fr)
            if isinstance(s.length, int):
                tot = 0
                for k in range(s.length):
                    tot = tot + s.get(k)
                return tot
            raise Unsupported("sum over symbolic length without a sum model")
        if name == "builtin:abs":
            (a,) = args
            return z3.If(zint(a) >= 0, zint(a), -zint(a))
        if name in ("builtin:any", "builtin:all"):
            s = self.seq_of(args[0], fr)
            if isinstance(s.length, int):
                rs = [self.truth(s.get(k), fr) for k in range(s.length)]
                return _or(rs) if name.endswith("any") else _and(rs)
            k = fresh_int("q")
            body = zbool(self.truth(s.get(k), fr))
            rng = z3.And(k >= 0, k < zint(s.length))
            if name.endswith("any"):
                return z3.Exists([k], z3.And(rng, body))
            return z3.ForAll([k], z3.Implies(rng, body))
        if name in ("math.ceil", "math.floor"):
            (a,) = args
            a = zreal(a)
            fl = z3.ToInt(a)
            if name.endswith("floor"):
                return fl
            return z3.If(z3.ToReal(fl) == a, fl, fl + 1)
        if name.startswith("builtin:") and name.split(":")[1] in ("ValueError", "NotImplementedError", "TypeError", "KeyError", "RuntimeError", "AssertionError"):
            return Opaque("exc:" + name.split(":")[1])
        hook = getattr(self.spec, "call", None)
        if hook is not None:
            r = hook(self, fr, name, args, kwargs)
            if r is not NotImplemented:
                return r
        raise Unsupported(f"call to {name}")

    def isinstance_(self, v, t, fr):
        if isinstance(t, tuple):
            return _or([self.isinstance_(v, x, fr) for x in t])
        if isinstance(v, Ite):
            return z3.If(v.c, zbool(self.isinstance_(v.a, t, fr)), zbool(self.isinstance_(v.b, t, fr)))
        tname = t.name if isinstance(t, Opaque) else None
        if tname is None:
            raise Unsupported(f"isinstance with {t!r}")
        hook = getattr(self.spec, "isinstance_hook", None)
        if hook is not None:
            r = hook(self, fr, v, tname)
            if r is not NotImplemented:
                return r
        if tname == "builtin:list":
            return (isinstance(v, Ref) and v.kind == "list") or (isinstance(v, Seq) and v.kind == "list")
        if tname == "builtin:tuple":
            return isinstance(v, tuple) or (isinstance(v, Seq) and v.kind == "tuple")
        if tname == "builtin:dict":
            return isinstance(v, Ref) and v.kind == "dict"
        if tname == "builtin:str":
            return isinstance(v, (str, NameStr))
        if tname == "builtin:bool":
            return isinstance(v, bool) or (is_z3(v) and z3.is_bool(v))
        if tname == "builtin:int":
            return (isinstance(v, int) and not isinstance(v, bool)) or is_int_sorted(v)
        if tname == "builtin:float":
            return isinstance(v, float) or is_real_sorted(v)
        if tname in ("numbers.Integral", "Integral", "numbers.Number", "Number"):
            return (isinstance(v, int) and not isinstance(v, bool)) or is_int_sorted(v) or (tname.endswith("Number") and (isinstance(v, float) or is_real_sorted(v)))
        if isinstance(v, (Obj, Term)):
            tags = v.cls if isinstance(v, Obj) else (v.cls,)
            if tags is None:
                raise Unsupported(f"isinstance({v!r}, {tname}) without class tags")
            return tname in tags
        if tname in ("Expr",):
            return False
        raise Unsupported(f"isinstance({v!r}, {tname})")


# ---------------------------------------------------------------------- helpers


def _inv_all(val):
    if isinstance(val, dict):
        return _and(list(val.values()))
    return val


def _mentions_any(v, var, heap):
    if is_z3(v):
        todo, seen = [v], set()
        while todo:
            x = todo.pop()
            if x.get_id() in seen:
                continue
            seen.add(x.get_id())
            if x.eq(var):
                return True
            todo.extend(x.children())
        return False
    if isinstance(v, (tuple, list)):
        return any(_mentions_any(x, var, heap) for x in v)
    if isinstance(v, Ite):
        return _mentions_any((v.c, v.a, v.b), var, heap)
    if isinstance(v, Ref) and v.kind == "list":
        v = heap[v.oid]
    if isinstance(v, Seq):
        k = fresh_int("probe")
        try:
            return (is_z3(v.length) and _mentions_any(v.length, var, heap)) or _mentions_any(v.get(k), var, heap)
        except Exception:
            return True
    if isinstance(v, Term):
        return _mentions_any(tuple(v.args) + tuple(v.kwargs.values()), var, heap)
    return False


def _guarded_insert(st):
    """(dict name, key node, value node) if `st` is  `if KEY not in D: D[KEY] = VALUE`  (no else)."""
    if st.orelse or len(st.body) != 1 or not isinstance(st.body[0], ast.Assign) or len(st.body[0].targets) != 1:
        return None
    t, tgt = st.test, st.body[0].targets[0]
    if not (isinstance(t, ast.Compare) and len(t.ops) == 1 and isinstance(t.ops[0], ast.NotIn) and isinstance(t.comparators[0], ast.Name)):
        return None
    if not (isinstance(tgt, ast.Subscript) and isinstance(tgt.value, ast.Name) and tgt.value.id == t.comparators[0].id):
        return None
    if ast.dump(tgt.slice) != ast.dump(t.left):
        return None
    return tgt.value.id, t.left, st.body[0].value


def _dict_reads(body, names):
    """Names of dicts/lists in `names` (subscript-stored in the loop body) that the body also READS."""
    out = set()
    if not names:
        return out

    def visit(node):
        if isinstance(node, ast.If) and _guarded_insert(node) is not None:
            d, k, v = _guarded_insert(node)
            visit(k)
            visit(v)
            return
        if isinstance(node, ast.Compare):
            for op, cmp_ in zip(node.ops, node.comparators):
                if isinstance(op, (ast.In, ast.NotIn)) and isinstance(cmp_, ast.Name) and cmp_.id in names:
                    out.add(cmp_.id)
        if isinstance(node, ast.Subscript) and isinstance(node.ctx, ast.Load) and isinstance(node.value, ast.Name) and node.value.id in names:
            out.add(node.value.id)
        if isinstance(node, ast.Call) and isinstance(node.func, ast.Attribute) and isinstance(node.func.value, ast.Name) and node.func.value.id in names and node.func.attr in ("get", "keys", "values", "items", "pop", "setdefault"):
            out.add(node.func.value.id)
        for ch in ast.iter_child_nodes(node):
            visit(ch)

    for st in body:
        visit(st)
    return out


def _exc_name(node):
    if node is None:
        return "reraise"
    if isinstance(node, ast.Call):
        node = node.func
    return ast.unparse(node)


def _as_load(t):
    return ast.parse(ast.unparse(t), mode="eval").body


def _names(t):
    return {n.id for n in ast.walk(t) if isinstance(n, ast.Name)}


def _number_loops(stmts):
    ids = {}

    def visit(body):
        for st in body:
            if isinstance(st, (ast.For, ast.While)):
                ids[id(st)] = len(ids)
            if isinstance(st, ast.FunctionDef):
                continue  # local functions are run by their own executor
            for field in ("body", "orelse", "finalbody"):
                sub = getattr(st, field, None)
                if isinstance(sub, list):
                    visit(sub)
            for h in getattr(st, "handlers", []) or []:
                visit(h.body)

    visit(stmts)
    return ids


def _count_loops(stmts):
    return sum(1 for st in stmts for n in ast.walk(st) if isinstance(n, (ast.For, ast.While)))


def _mutated_lists_in_order(body):
    out = []
    for st in body:
        for n in ast.walk(st):
            if isinstance(n, ast.Call) and isinstance(n.func, ast.Attribute) and isinstance(n.func.value, ast.Name) and n.func.attr in ("append", "insert", "extend", "reverse"):
                if n.func.value.id not in out:
                    out.append(n.func.value.id)
    return out


def _loop_state(body, target_names):
    """Classify the names a loop body writes.

    carried : scalars whose value may flow from one iteration to the next (read before being
              (re)assigned in the body, or augmented-assigned)
    lists   : names of lists mutated in place (append / insert / extend / subscript store)
    assigned: every name assigned in the body (superset of carried)
    dict_writes: names used as `d[...] = v` / `d.update(...)` targets
    """
    assigned, lists, dict_writes = set(), set(), set()
    for st in body:
        for n in ast.walk(st):
            if isinstance(n, (ast.Assign, ast.AugAssign, ast.AnnAssign, ast.For)):
                tgts = n.targets if isinstance(n, ast.Assign) else [n.target]
                for t in tgts:
                    for sub in ast.walk(t):
                        if isinstance(sub, ast.Subscript) and isinstance(sub.ctx, ast.Store):
                            if isinstance(sub.value, ast.Name):
                                dict_writes.add(sub.value.id)  # dict or list element store
                    if isinstance(t, ast.Subscript):
                        continue
                    assigned |= _names(t)
            if isinstance(n, ast.Call) and isinstance(n.func, ast.Attribute) and isinstance(n.func.value, ast.Name):
                if n.func.attr in ("append", "insert", "extend", "reverse"):
                    lists.add(n.func.value.id)
                if n.func.attr == "update":
                    dict_writes.add(n.func.value.id)
            if isinstance(n, (ast.ListComp, ast.GeneratorExp, ast.DictComp, ast.SetComp)):
                for g in n.generators:
                    assigned -= set()  # comprehension targets are scoped; nothing to do
    # comprehension-scoped names are not assignments of the enclosing scope
    comp_names = set()
    for st in body:
        for n in ast.walk(st):
            if isinstance(n, (ast.ListComp, ast.GeneratorExp, ast.DictComp, ast.SetComp)):
                for g in n.generators:
                    comp_names |= _names(g.target)
    # which assigned names are read before written?  conservative linear scan of the body
    carried = set()
    written = set(target_names)
    carried |= _reads_before_writes(body, written, assigned - comp_names)
    # a list created afresh in every iteration (tmp = []) is not loop-carried
    lists = {l for l in lists if l in carried or l not in assigned}
    return {
        "assigned": (assigned - comp_names) - set(target_names),
        "carried": carried - set(target_names),
        "lists": lists,
        "dict_writes": dict_writes,
    }


def _reads_before_writes(stmts, written, interesting):
    """Names in `interesting` that some statement may read before the body has definitely written them."""
    out = set()
    written = set(written)
    for st in stmts:
        if isinstance(st, ast.Assign):
            out |= (_load_names(st.value) & interesting) - written
            for t in st.targets:
                if isinstance(t, ast.Subscript):
                    out |= (_load_names(t) & interesting) - written
            for t in st.targets:
                if not isinstance(t, ast.Subscript):
                    written |= _names(t)
        elif isinstance(st, ast.AugAssign):
            out |= ((_load_names(st.value) | _names(st.target)) & interesting) - written
            if isinstance(st.target, ast.Name):
                written.add(st.target.id)
        elif isinstance(st, ast.If):
            out |= (_load_names(st.test) & interesting) - written
            o1 = _reads_before_writes(st.body, written, interesting)
            o2 = _reads_before_writes(st.orelse, written, interesting)
            out |= o1 | o2
            w1 = _definitely_written(st.body)
            w2 = _definitely_written(st.orelse)
            written |= w1 & w2
        elif isinstance(st, (ast.For, ast.While)):
            if isinstance(st, ast.For):
                out |= (_load_names(st.iter) & interesting) - written
                inner_written = written | _names(st.target)
            else:
                out |= (_load_names(st.test) & interesting) - written
                inner_written = written
            out |= _reads_before_writes(st.body, inner_written, interesting)
            # the inner loop may run zero times: nothing becomes definitely written
        else:
            out |= (_load_names(st) & interesting) - written
    return out


def _definitely_written(stmts):
    w = set()
    for st in stmts:
        if isinstance(st, ast.Assign):
            for t in st.targets:
                if not isinstance(t, ast.Subscript):
                    w |= _names(t)
        elif isinstance(st, ast.AugAssign) and isinstance(st.target, ast.Name):
            w.add(st.target.id)
        elif isinstance(st, ast.If):
            w |= _definitely_written(st.body) & _definitely_written(st.orelse)
    return w


def _load_names(node):
    return {n.id for n in ast.walk(node) if isinstance(n, ast.Name) and isinstance(n.ctx, ast.Load)}


def _concat_get(a, b, la, k):
    k = simp_int(k)
    if isinstance(k, int) and isinstance(la, int):
        return a.get(k) if k < la else b.get(k - la)
    return ite(zint(k) < zint(la), a.get(k), b.get(simp_int(zint(k) - zint(la))))


def _clip_index(i, n):
    i = simp_int(i)
    if isinstance(i, int) and i >= 0:
        return z3.If(n < i, n, z3.IntVal(i))
    i = zint(i)
    i = z3.If(i < 0, i + n, i)
    return z3.If(i < 0, 0, z3.If(i > n, n, i))


def _and(rs):
    rs = [r for r in rs]
    if any(isinstance(r, bool) and not r for r in rs):
        return False
    rs = [r for r in rs if not isinstance(r, bool)]
    if not rs:
        return True
    return rs[0] if len(rs) == 1 else z3.And(*rs)


def _or(rs):
    rs = [r for r in rs]
    if any(isinstance(r, bool) and r for r in rs):
        return True
    rs = [r for r in rs if not isinstance(r, bool)]
    if not rs:
        return False
    return rs[0] if len(rs) == 1 else z3.Or(*rs)


def _not(r):
    return (not r) if isinstance(r, bool) else z3.Not(r)
