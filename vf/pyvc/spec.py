"""Contract records (sidecar) and the per-function verification driver."""
from __future__ import annotations

import ast
import hashlib
import itertools
import os
import time
import traceback

import z3

from .ctx import ConcCtx, SymCtx
from .exec import Exec, Frame, NameStr, Unsupported
from .solver import Obligation, Prover
from .values import Lab, Obj, Opaque, Ref, Seq, fresh_name, is_z3, simp_int, zbool, zint

REPO = os.environ.get("VERIF_REPO", "/repo")


# ---------------------------------------------------------------------------------------------
# extraction: the verified text is the working-tree source, re-read on every run
# ---------------------------------------------------------------------------------------------
def extract(relpath, qualname, repo=None):
    path = os.path.join(repo or REPO, relpath)
    src = open(path).read()
    tree = ast.parse(src)
    node = tree
    for part in qualname.split("."):
        for ch in node.body:
            if isinstance(ch, (ast.FunctionDef, ast.ClassDef)) and ch.name == part:
                node = ch
                break
        else:
            raise KeyError(f"{relpath}::{qualname} not found")
    body = list(node.body)
    if body and isinstance(body[0], ast.Expr) and isinstance(body[0].value, ast.Constant) and isinstance(body[0].value.value, str):
        body = body[1:]
    clean = ast.FunctionDef(name=node.name, args=node.args, body=body or [ast.Pass()], decorator_list=[], returns=None, type_params=[])
    ast.fix_missing_locations(clean)
    digest = hashlib.sha256(ast.unparse(clean).encode()).hexdigest()[:16]
    return node, {"file": relpath, "qualname": qualname, "lines": [node.lineno, node.end_lineno], "sha256_16": digest,
                  "dropped": ["decorators: " + ",".join(ast.unparse(d) for d in node.decorator_list)] if node.decorator_list else []}


def attr_fn(f):
    f._is_attr_fn = True
    return f


def contract_fn(f):
    f._is_contract_fn = True
    return f


class SkipInput(Exception):
    """Raised by run_concrete for an enumerated input that does not reach the contract (e.g. outside a slice)."""


class Spec:
    """Base class of a sidecar contract for one repository function."""

    file = None
    qualname = None
    props: list = []
    invariants: dict = {}
    callees: dict = {}
    globals: dict = {}
    may_raise = None  # clause(c, env, excname) -> condition under which raising `excname` is allowed
    sizes: dict = {}  # name -> range of concrete lengths explored in bounded (refutation) mode
    assumptions: list = []
    notes = ""
    body_from = None  # verify only the top-level statements from the first one whose source starts with this text;
    #                   the state at that point is then the abstract state built by make_inputs (listed as an assumption)

    # -- symbolic side ---------------------------------------------------------------------
    def make_inputs(self, ex, sym, fr):
        """Create the symbolic parameters (and the object model of `self`); return the env dict.
        Structural facts (lengths >= 0 ...) go to sym.pc; semantic preconditions go to requires()."""
        raise NotImplementedError

    def requires(self):
        """dict label -> clause(c, env): the precondition, derived from the call sites."""
        return {}

    def ensures(self):
        """dict label -> clause(c, env, result)"""
        raise NotImplementedError

    def fresh_result(self, ex, fr, env):
        """A fresh symbolic result (used when this contract stands in for a call)."""
        raise NotImplementedError

    # -- concrete side ---------------------------------------------------------------------
    def concrete_inputs(self):
        """Iterable of concrete inputs (dicts) satisfying the precondition (cross-check + bounded)."""
        return []

    def run_concrete(self, inputs):
        """Run the REAL function on `inputs`; return (env, result)."""
        raise NotImplementedError

    def inputs_from_model(self, model, sz, sym):
        """Turn a counter-model into concrete inputs for run_concrete (None if not possible)."""
        return None

    # helpers for setup()
    scenario = None  # label of an enumerated case split (concrete `how`, `side` ...) or of a statement slice

    def name(self):
        return f"{self.file}::{self.qualname}" + (f"[{self.scenario}]" if self.scenario else "")


class SymTab:
    """Helper handed to Spec.setup for creating symbolic inputs, remembering them for model read-back."""

    def __init__(self, sz):
        self.sz = sz or {}
        self.seqs = {}
        self.ints = {}
        self.bools = {}
        self.pc = []

    def int(self, name, lo=None, hi=None):
        v = z3.Int(name)
        self.ints[name] = v
        if lo is not None:
            self.pc.append(v >= lo)
        if hi is not None:
            self.pc.append(v <= hi)
        return v

    def bool(self, name):
        v = z3.Bool(name)
        self.bools[name] = v
        return v

    def seq(self, name, sort=None, size=None, kind="tuple", min_len=0):
        """A symbolic sequence; its length is concrete in bounded mode (key `size or name`)."""
        sort = z3.IntSort() if sort is None else sort
        f = z3.Function(name, z3.IntSort(), sort)
        key = size or name
        if key in self.sz:
            n = self.sz[key]
        else:
            n = z3.Int(name + "_len")
            self.pc.append(n >= min_len)
        s = Seq(n, lambda k, f=f: f(zint(k)), kind)
        self.seqs[name] = (f, n, sort)
        return s

    def forall(self, lo, hi, fn):
        lo, hi = simp_int(lo), simp_int(hi)
        if isinstance(lo, int) and isinstance(hi, int):
            xs = [zbool(fn(k)) for k in range(lo, hi)]
            return z3.And(*xs) if xs else z3.BoolVal(True)
        k = z3.Int(fresh_name("p"))
        return z3.ForAll([k], z3.Implies(z3.And(k >= zint(lo), k < zint(hi)), zbool(fn(k))))

    def sorted(self, s, strict=False):
        n = s.length
        return self.forall(0, simp_int(zint(n) - 1), lambda k: (s.get(k) < s.get(simp_int(zint(k) + 1))) if strict else (s.get(k) <= s.get(simp_int(zint(k) + 1))))

    # model read-back
    def read_seq(self, model, name):
        f, n, sort = self.seqs[name]
        ln = n if isinstance(n, int) else _mint(model, n)
        if ln is None or ln > 64:
            return None
        out = []
        for k in range(ln):
            v = model.eval(f(z3.IntVal(k)), model_completion=True)
            out.append(_mval(v))
        return out

    def read_int(self, model, name):
        return _mint(model, self.ints[name])

    def read_bool(self, model, name):
        v = model.eval(self.bools[name], model_completion=True)
        return z3.is_true(v)


def _mint(model, v):
    r = model.eval(v, model_completion=True)
    try:
        return r.as_long()
    except Exception:
        return None


def _mval(v):
    if z3.is_int_value(v):
        return v.as_long()
    if z3.is_rational_value(v):
        return float(v.numerator_as_long()) / float(v.denominator_as_long())
    if z3.is_true(v):
        return True
    if z3.is_false(v):
        return False
    return str(v)  # uninterpreted-sort element: its model name identifies it


# ---------------------------------------------------------------------------------------------
# driver
# ---------------------------------------------------------------------------------------------
class FunctionReport:
    def __init__(self, spec, meta):
        self.spec = spec
        self.meta = meta
        self.obligations = []  # aggregated: dicts
        self.raw = []
        self.solver_seconds = 0.0
        self.crosscheck = {"inputs": 0, "engine_agree": 0, "contract_fail": []}
        self.refutations = []  # dicts with obligation, inputs, confirmed
        self.assumptions = set()
        self.errors = []


def _run_once(spec, fn_node, mode, sz):
    pv = Prover(mode)
    ex = Exec(pv, spec, spec.name())
    sym = SymTab(sz)
    fr = Frame({}, [])
    env = spec.make_inputs(ex, sym, fr)
    fr.env = env
    fr.pc = list(sym.pc) + fr.pc
    cx0 = SymCtx(ex, fr)
    for label, clause in spec.requires().items():
        ex.assume(fr, zbool(clause(cx0, env)))
    fr.env = dict(env)
    fr.env0 = env
    sat = pv.satisfiable(fr.pc, 5000)
    if sat is False:
        pv.obligations.append(Obligation(spec.name() + "#reach:precondition", "refuted", "z3", 0.0, detail="precondition unsatisfiable (vacuous contract)", mode=mode))
    elif sat is True:
        pv.obligations.append(Obligation(spec.name() + "#reach:precondition", "discharged", "z3", 0.0, mode=mode))
    else:
        pv.obligations.append(Obligation(spec.name() + "#reach:precondition", "unknown", "z3", 0.0, detail="precondition satisfiability unknown", mode=mode))
    stmts = fn_node.body
    if spec.body_from is not None:
        idx = [k for k, st in enumerate(stmts) if ast.unparse(st).startswith(spec.body_from)]
        if len(idx) != 1:
            pv.unsupported(spec.name() + "#subset", f"statement slice anchor {spec.body_from!r} matches {len(idx)} top-level statements")
            return pv, ex, sym
        stmts = stmts[idx[0]:]
    try:
        live = ex.run_block(stmts, [fr])
    except Unsupported as u:
        pv.unsupported(spec.name() + "#subset", str(u))
        return pv, ex, sym
    for f in live:
        ex.results.append((f, "return", None))
    posts = spec.ensures()
    nret = 0
    for f, kind, val in ex.results:
        if kind == "return":
            nret += 1
            cx = SymCtx(ex, f)
            for label, clause in posts.items():
                try:
                    goal = clause(cx, env, val)
                except Unsupported as u:
                    pv.unsupported(f"{spec.name()}#post:{label}#{nret}", str(u))
                    continue
                pv.prove(f"{spec.name()}#post:{label}#{nret}", f.pc, goal)
        else:
            exc, node = val
            cx = SymCtx(ex, f)
            if spec.may_raise is None:
                pv.prove(f"{spec.name()}#raises:never({exc})@L{node.lineno}", f.pc, False, detail=f"raise {exc} reachable")
            else:
                pv.prove(f"{spec.name()}#raises:allowed({exc})@L{node.lineno}", f.pc, spec.may_raise(cx, env, exc))
    if nret == 0 and getattr(spec, "only_raises", lambda: False)() and any(kind != "return" for _, kind, _ in ex.results):
        # a case whose contract is "this request is rejected": reaching the raise is the reachability guard
        pv.obligations.append(Obligation(spec.name() + "#reach:raise", "discharged", "-", 0.0, mode=mode))
    elif nret == 0 and not any(o.status == "unsupported" for o in pv.obligations):
        pv.obligations.append(Obligation(spec.name() + "#reach:return", "refuted", "-", 0.0, detail="no return path reachable", mode=mode))
    return pv, ex, sym


def _agg_name(name):
    """Stable obligation name: drop line numbers and path ordinals."""
    import re

    name = re.sub(r"@L\d+", "", name)
    name = re.sub(r"#\d+$", "", name)
    name = re.sub(r"(loop\d+)#\d+", r"\1", name)
    return name


def size_space(spec):
    names = list(spec.sizes)
    if not names:
        yield {}
        return
    for combo in itertools.product(*[list(spec.sizes[n]) for n in names]):
        yield dict(zip(names, combo))


def verify_spec(spec, repo=None, crosscheck=True):
    t0 = time.time()
    fn_node, meta = extract(spec.file, spec.qualname, repo)
    if spec.body_from is not None:
        meta = dict(meta, dropped=meta["dropped"] + [f"top-level statements before `{spec.body_from}` (their effect is the abstract entry state of the contract)"])
    if getattr(spec, "scenario", None):
        meta = dict(meta, scenario=spec.scenario)
    rep = FunctionReport(spec, meta)
    # enumerated case split (concrete strings / flags): one symbolic run per case, obligations merged by name
    cases = list(spec.cases()) if hasattr(spec, "cases") else [None]
    all_obl = []
    sym = None
    for case in cases:
        if case is not None:
            spec.case = case
        try:
            pv, ex, sym_ = _run_once(spec, fn_node, "proof", {})
        except Exception as e:  # engine crash = checker error, never a verdict
            rep.errors.append("engine crash: " + (f"case {case!r}: " if case is not None else "") + "".join(traceback.format_exception_only(type(e), e)).strip() + " | " + traceback.format_exc()[-600:])
            return rep
        rep.solver_seconds += pv.solver_seconds
        rep.assumptions |= ex.assumptions
        for o in pv.obligations:
            o.case = case
            o.symtab = sym_
            if o.status != "discharged" and case is not None:
                o.detail = f"case {case!r}: " + (o.detail or "")
        all_obl.extend(pv.obligations)
    if len(cases) > 1 or cases[0] is not None:
        rep.meta = dict(rep.meta, cases=len(cases))
    rep.raw = all_obl
    agg = {}
    for o in all_obl:
        a = agg.setdefault(_agg_name(o.name), {"name": _agg_name(o.name), "instances": 0, "status": "discharged", "backends": set(), "seconds": 0.0, "detail": ""})
        a["instances"] += 1
        a["backends"].add(o.backend)
        a["seconds"] += o.seconds
        rank = {"discharged": 0, "unknown": 1, "unsupported": 2, "refuted": 3}
        if rank[o.status] > rank[a["status"]]:
            a["status"] = o.status
            a["detail"] = o.detail
        if o.status == "refuted" and o.model is not None and "model" not in a:
            a["model"] = (o.model, {}, o.symtab)
            a["case"] = o.case
    open_names = [a["name"] for a in agg.values() if a["status"] != "discharged"]
    # ---- refutation mode for whatever proof mode left open
    if open_names and spec.sizes and not any(a["status"] == "unsupported" and a["name"].endswith("#subset") for a in agg.values()):
        need = {n for n in open_names if "model" not in agg[n]}
        for sz in size_space(spec):
            if not need:
                break
            try:
                pv2, ex2, sym2 = _run_once(spec, fn_node, "bounded", sz)
            except Exception:
                continue
            rep.solver_seconds += pv2.solver_seconds
            for o in pv2.obligations:
                n = _agg_name(o.name)
                if n in need and o.status == "refuted" and o.model is not None:
                    agg[n]["status"] = "refuted"
                    agg[n]["model"] = (o.model, sz, sym2)
                    agg[n]["detail"] = f"bounded refutation at sizes {sz}"
                    need.discard(n)
    # ---- replay refutations on the real code
    for a in agg.values():
        if a["status"] == "refuted":
            ref = {"obligation": a["name"], "confirmed": False, "inputs": None, "detail": a["detail"]}
            if "model" in a:
                model, sz, symt = a["model"]
                if a.get("case") is not None:
                    spec.case = a["case"]
                try:
                    inputs = spec.inputs_from_model(model, sz, symt)
                except Exception as e:
                    inputs = None
                    ref["detail"] += f" | model read-back failed: {e!r}"
                ref["model"] = _model_text(model)
                if inputs is not None:
                    ref["inputs"] = inputs
                    try:
                        ok, why = check_concrete(spec, inputs)
                    except SkipInput:
                        # the model's input does not reach the contract on the real function (e.g. outside a slice,
                        # or the precondition is established differently there): no replayable input
                        ok, why = True, "the counter-model's input is outside what the concrete harness can construct"
                        ref["inputs"] = None
                    ref["confirmed"] = not ok
                    ref["observed"] = why
            rep.refutations.append(ref)
        a.pop("model", None)
        a.pop("case", None)
        a["backends"] = sorted(a["backends"])
    rep.obligations = list(agg.values())
    # ---- CPython cross-check of contract and engine
    if crosscheck:
        try:
            cxc = ConcCtx(getattr(spec, "concrete_globals", lambda: {})())
            for inputs in spec.concrete_inputs():
                pre_env = spec.concrete_env(inputs) if hasattr(spec, "concrete_env") else None
                if pre_env is not None and not all(bool(cl(cxc, pre_env)) for cl in spec.requires().values()):
                    continue  # outside the precondition
                try:
                    ok, why = check_concrete(spec, inputs)
                except SkipInput:
                    continue
                rep.crosscheck["inputs"] += 1
                if not ok:
                    rep.crosscheck["contract_fail"].append({"inputs": _jsonable(inputs), "why": why})
                    if len(rep.crosscheck["contract_fail"]) >= 3:
                        break
        except Exception as e:
            rep.errors.append("cross-check crash: " + repr(e) + traceback.format_exc()[-500:])
    rep.wall = time.time() - t0
    return rep


def check_concrete(spec, inputs):
    """Run the real function; evaluate raises/ensures concretely. Returns (ok, description)."""
    cx = ConcCtx(getattr(spec, "concrete_globals", lambda: {})())
    try:
        env, result = spec.run_concrete(inputs)
    except SkipInput:
        raise
    except Exception as e:
        if getattr(e, "_verif_setup_error", False):
            raise
        if spec.may_raise is None:
            return False, f"raised {type(e).__name__}: {e}"
        env = getattr(e, "_verif_env", None) or spec.concrete_env(inputs)
        try:
            allowed = spec.may_raise(cx, env, type(e).__name__)
        except Exception as e2:
            return False, f"raised {type(e).__name__}: {e}; raises-clause not evaluable: {e2!r}"
        return (True, "raised as allowed") if allowed else (False, f"raised {type(e).__name__}: {e} outside the raises clause")
    for label, clause in spec.ensures().items():
        try:
            ok = clause(cx, env, result)
        except Exception as e:
            return False, f"post:{label} not evaluable on the concrete result: {e!r}"
        if not ok:
            return False, f"post:{label} false; result={_short(result)}"
    return True, "ok"


def _short(x, n=300):
    s = repr(x)
    return s if len(s) <= n else s[:n] + "..."


def _model_text(model):
    try:
        return str(model)[:1500]
    except Exception:
        return "<model>"


def _jsonable(x):
    import json

    try:
        json.dumps(x)
        return x
    except Exception:
        if isinstance(x, dict):
            return {str(k): _jsonable(v) for k, v in x.items()}
        if isinstance(x, (list, tuple)):
            return [_jsonable(v) for v in x]
        return repr(x)


# ---------------------------------------------------------------------------------------------
# modular use of a contract at a call site: check `requires`, assume `ensures` (never the body)
# ---------------------------------------------------------------------------------------------
def as_callee(spec, params):
    def call(ex, fr, *args, **kwargs):
        env = dict(zip(params, args))
        env.update(kwargs)
        if hasattr(spec, "bind_call"):
            env = spec.bind_call(ex, fr, env)
        cx = SymCtx(ex, fr)
        for label, clause in spec.requires().items():
            ex.oblige(f"pre:{spec.qualname}:{label}", fr, clause(cx, env))
        result = spec.fresh_result(ex, fr, env)
        for label, clause in spec.ensures().items():
            ex.assume(fr, zbool(clause(cx, env, result)))
        ex.callee_contracts_used = getattr(ex, "callee_contracts_used", set()) | {spec.name()}
        return result

    return call


def as_attr(spec, self_key="self"):
    """A property / cached_property of `self` abstracted by its contract."""

    @attr_fn
    def get(ex, fr):
        cache = fr.__dict__.setdefault("_attr_cache", {})
        if spec.name() in cache:
            return cache[spec.name()]
        env = {self_key: fr.env0[self_key] if hasattr(fr, "env0") else fr.env[self_key]}
        if hasattr(spec, "bind_call"):
            env = spec.bind_call(ex, fr, env)
        cx = SymCtx(ex, fr)
        for label, clause in spec.requires().items():
            ex.oblige(f"pre:{spec.qualname}:{label}", fr, clause(cx, env))
        result = spec.fresh_result(ex, fr, env)
        for label, clause in spec.ensures().items():
            ex.assume(fr, zbool(clause(cx, env, result)))
        cache[spec.name()] = result
        return result

    return get
