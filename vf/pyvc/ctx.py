"""One vocabulary for contract clauses, evaluated symbolically (SymCtx) or concretely (ConcCtx).

A clause is a Python function `clause(c, env, ...)` that only talks through `c`; the same text is
used for the proof obligation and for the concrete replay / CPython cross-check.
"""
from __future__ import annotations

import z3

from .values import (
    DictState,
    Ite,
    Obj,
    Opaque,
    Ref,
    Seq,
    SetVal,
    Term,
    as_seq,
    fresh_int,
    is_z3,
    ite,
    simp_int,
    zbool,
    zint,
)


def subst(v, pairs, heap=None):
    """Deep substitution of z3 variables inside a structured symbolic value."""
    if not pairs:
        return v
    if is_z3(v):
        return z3.substitute(v, *pairs)
    if isinstance(v, tuple):
        return tuple(subst(x, pairs, heap) for x in v)
    if isinstance(v, Seq):
        ln = subst(v.length, pairs, heap) if is_z3(v.length) else v.length
        return Seq(ln, lambda k, v=v: subst(v.get(k), pairs, heap), v.kind)
    if isinstance(v, Ref) and v.kind == "list" and heap is not None:
        return subst(heap[v.oid], pairs, heap)
    if isinstance(v, Ite):
        return ite(subst(v.c, pairs, heap), subst(v.a, pairs, heap), subst(v.b, pairs, heap))
    if isinstance(v, Term):
        return Term(v.cls, [subst(a, pairs, heap) for a in v.args], {k: subst(a, pairs, heap) for k, a in v.kwargs.items()})
    return v


def _mentions(expr, vars_):
    seen = set()
    todo = [expr]
    while todo:
        x = todo.pop()
        if x.get_id() in seen:
            continue
        seen.add(x.get_id())
        if any(x.eq(v) for v in vars_):
            return True
        todo.extend(x.children())
    return False


class SymCtx:
    symbolic = True

    def min(self, a, b):
        a, b = simp_int(a), simp_int(b)
        if isinstance(a, int) and isinstance(b, int):
            return min(a, b)
        return simp_int(z3.If(zint(a) < zint(b), zint(a), zint(b)))

    def __init__(self, ex, fr):
        self.ex, self.fr = ex, fr

    # ---- logic
    def And(self, *xs):
        from .exec import _and

        return _and([x for x in xs])

    def Or(self, *xs):
        from .exec import _or

        return _or([x for x in xs])

    def Not(self, x):
        return (not x) if isinstance(x, bool) else z3.Not(x)

    def Implies(self, a, b):
        if isinstance(a, bool):
            return True if not a else b
        if isinstance(b, bool):
            return True if b else z3.Not(a)
        return z3.Implies(a, b)

    def ite(self, c, a, b):
        return ite(c, a, b)

    def forall(self, lo, hi, fn):
        lo, hi = simp_int(lo), simp_int(hi)
        if isinstance(lo, int) and isinstance(hi, int):
            return self.And(*[fn(k) for k in range(lo, hi)])
        k = fresh_int("q")
        # the range of the bound variable is a path fact while the body is built (feasibility questions inside the body
        # - e.g. which branch of a conditional value can be meant - may depend on it); removed again afterwards
        self.fr.pc.append(z3.And(k >= zint(lo), k < zint(hi)))
        try:
            body = fn(k)
        finally:
            self.fr.pc.pop()
        if isinstance(body, bool):
            if body:
                return True
            return zint(hi) <= zint(lo)
        return z3.ForAll([k], z3.Implies(z3.And(k >= zint(lo), k < zint(hi)), body))

    def exists(self, lo, hi, fn):
        lo, hi = simp_int(lo), simp_int(hi)
        if isinstance(lo, int) and isinstance(hi, int):
            return self.Or(*[fn(k) for k in range(lo, hi)])
        k = fresh_int("w")
        body = fn(k)
        if isinstance(body, bool):
            return zint(hi) > zint(lo) if body else False
        return z3.Exists([k], z3.And(k >= zint(lo), k < zint(hi), body))

    # ---- data
    def eq(self, a, b):
        return self.ex.equal(a, b, self.fr)

    def ne(self, a, b):
        return self.Not(self.eq(a, b))

    def len(self, x):
        return self.ex.seq_of(x, self.fr).length

    def at(self, x, k):
        s = self.ex.seq_of(x, self.fr)
        k = simp_int(k)
        if isinstance(k, int) and k < 0:
            k = simp_int(zint(s.length) + k)
        return s.get(k)

    def is_none(self, x):
        return self.ex.is_(x, None)

    def contains(self, container, x):
        return self.ex.contains(container, x, self.fr)

    def fn(self, dotted):
        return Opaque(dotted)

    def attr(self, obj, path):
        for a in path.split("."):
            obj = self.ex.getattr(obj, a, self.fr)
        return obj

    def truth(self, v):
        return self.ex.truth(v, self.fr)

    def is_list_of(self, v):
        return isinstance(v, (Seq, Ref, tuple))

    # ---- dictionaries (graph layers)
    def _entries(self, d):
        st = self.fr.heap[d.oid] if isinstance(d, Ref) else d
        assert isinstance(st, DictState), st
        return st.entries

    def _match(self, ent, key, witness=None):
        """Condition under which `ent` defines `key`, and the binder instantiation used.
        `witness`: optional terms for the binders the key does not determine (in binder order): the existential
        is then instantiated by hand - a proof hint, sound because it only strengthens the condition."""
        if not isinstance(key, tuple):
            key = (key,)
        if len(ent.key) != len(key):
            return False, []
        pairs = []
        conds = []
        solved = set()
        binder_vars = [b[0] for b in ent.binders]
        for ek, k in zip(ent.key, key):
            if is_z3(ek) and any(ek.eq(b) for b in binder_vars) and not any(ek.eq(s) for s in solved):
                pairs.append((ek, zint(k) if not is_z3(k) else k))
                solved.add(ek)
                continue
            if is_z3(ek) and z3.is_int(ek) and not isinstance(k, (tuple, str)) and (is_z3(k) or isinstance(k, int)):
                # key component  b + offset  (e.g. range(1, n)): solve  b = k - offset
                hit = None
                for b in binder_vars:
                    if any(b.eq(s) for s in solved):
                        continue
                    off = z3.simplify(z3.substitute(ek, (b, z3.IntVal(0))))
                    if z3.is_true(z3.simplify(ek == b + off)) and not _mentions(off, binder_vars):
                        hit = (b, off)
                        break
                if hit is not None:
                    pairs.append((hit[0], z3.simplify(zint(k) - hit[1])))
                    solved.add(hit[0])
                    continue
            conds.append((ek, k))
        unsolved = [b for b in binder_vars if not any(b.eq(s) for s in solved)]
        if witness is not None and unsolved and len(witness) >= len(unsolved):
            pairs = pairs + [(b, zint(t)) for b, t in zip(unsolved, witness)]
            unsolved = []
        aux = list(getattr(ent, "aux", ()))
        rng = [z3.And(zint(lo) <= v, v < zint(hi)) for v, lo, hi in ent.binders]
        body = [subst(r, pairs) for r in rng] + [subst(ent.guard, pairs)]
        for ek, k in conds:
            r = self.ex.equal(subst(ek, pairs, self.fr.heap), k, self.fr)
            if isinstance(r, bool):
                if not r:
                    return False, pairs
                continue
            body.append(zbool(r))
        from .exec import _and

        cond = _and(body)
        qs = unsolved + aux
        if qs and not isinstance(cond, bool):
            cond = z3.Exists(qs, cond)
        return cond, pairs

    def defined(self, d, key, witness=None):
        from .exec import _or

        return _or([self._match(e, key, witness)[0] for e in self._entries(d)])

    def lookup(self, d, key):
        """Value stored under key: the latest matching insertion."""
        # a key no insertion defines evaluates to a sentinel that equals nothing (the real code raises KeyError)
        out = Opaque("<undefined-key>")
        hit = False
        for e in self._entries(d):
            cond, pairs = self._match(e, key)
            if isinstance(cond, bool) and not cond:
                continue
            if (getattr(e, "aux", ()) or len(pairs) < len(e.binders)) and not isinstance(cond, bool):
                from .exec import Unsupported

                raise Unsupported("lookup through a non-invertible key family")
            val = subst(e.value, pairs, self.fr.heap)
            out = ite(cond, val, out)
            hit = True
        if not hit:
            from .exec import Unsupported

            raise Unsupported("lookup of a key no insertion can define")
        return out

    def holds_at(self, d, key, pred, witness=None):
        """`key` is defined and the value stored under it (latest insertion) satisfies `pred`."""
        ents = list(self._entries(d))
        matches = [self._match(e, key, witness) for e in ents]
        out = []
        for n, (e, (cond, pairs)) in enumerate(zip(ents, matches)):
            if isinstance(cond, bool) and not cond:
                continue
            if (getattr(e, "aux", ()) or len(pairs) < len(e.binders)) and not isinstance(cond, bool):
                from .exec import Unsupported

                raise Unsupported("holds_at through a non-invertible key family")
            later = [self.Not(c2) for (c2, _), e2 in zip(matches[n + 1:], ents[n + 1:]) if not getattr(e2, "keep_first", False) or True]
            val = subst(e.value, pairs, self.fr.heap)
            out.append(self.And(cond, *later, pred(val)))
        return self.Or(*out)

    def dict_rest_is(self, d, base, own):
        """Apart from the insertions (whose keys all satisfy `own`), the dict is a copy of `base`."""
        st = self.fr.heap[d.oid] if isinstance(d, Ref) else d
        return self.And(st.base is base, self.forall_entries(d, lambda k, v: own(k)))

    def forall_entries(self, d, fn, name_filter=None):
        """Conjunction over all insertions: for all binders in range with guard: fn(key, value)."""
        from .exec import _and

        out = []
        for e in self._entries(d):
            if name_filter is not None and not name_filter(e.key):
                continue
            body = fn(e.key, e.value)
            if isinstance(body, bool) and body:
                continue
            qs = [b[0] for b in e.binders] + list(getattr(e, "aux", ()))
            rng = [z3.And(zint(lo) <= v, v < zint(hi)) for v, lo, hi in e.binders]
            hyp = _and(rng + [e.guard])
            f = self.Implies(hyp, body)
            if qs and not isinstance(f, bool):
                f = z3.ForAll(qs, f)
            out.append(f)
        return _and(out)

    def entry_count(self, d):
        return len(self._entries(d))


class ConcCtx:
    """Concrete evaluation of the same clauses on real Python values."""

    symbolic = False

    def __init__(self, globs=None):
        self.globs = globs or {}

    def And(self, *xs):
        return all(bool(x) for x in xs)

    def Or(self, *xs):
        return any(bool(x) for x in xs)

    def Not(self, x):
        return not x

    def Implies(self, a, b):
        return (not a) or bool(b)

    def ite(self, c, a, b):
        return a if c else b

    def min(self, a, b):
        return min(a, b)

    def forall(self, lo, hi, fn):
        return all(fn(k) for k in range(lo, hi))

    def exists(self, lo, hi, fn):
        return any(fn(k) for k in range(lo, hi))

    def eq(self, a, b):
        return _conc_eq(a, b)

    def ne(self, a, b):
        return not _conc_eq(a, b)

    def len(self, x):
        return len(x)

    def at(self, x, k):
        return list(x)[k] if not isinstance(x, (list, tuple)) else x[k]

    def is_none(self, x):
        return x is None

    def contains(self, container, x):
        return x in container

    def fn(self, dotted):
        obj = self.globs
        parts = dotted.split(".")
        cur = self.globs[parts[0]]
        for p in parts[1:]:
            cur = getattr(cur, p)
        return cur

    def attr(self, obj, path):
        for a in path.split("."):
            obj = getattr(obj, a)
        return obj

    def truth(self, v):
        return bool(v)

    def defined(self, d, key, witness=None):
        return key in d

    def lookup(self, d, key):
        return d[key]

    def forall_entries(self, d, fn, name_filter=None):
        return all(fn(k if isinstance(k, tuple) else (k,), v) for k, v in d.items() if name_filter is None or name_filter(k if isinstance(k, tuple) else (k,)))

    def entry_count(self, d):
        return len(d)

    def holds_at(self, d, key, pred, witness=None):
        return key in d and bool(pred(d[key]))

    def dict_rest_is(self, d, base, own):
        rest = {k: v for k, v in d.items() if not own(k if isinstance(k, tuple) else (k,))}
        return rest == dict(base)


def _conc_eq(a, b):
    if isinstance(a, (list, tuple)) and isinstance(b, (list, tuple)):
        return len(a) == len(b) and all(_conc_eq(x, y) for x, y in zip(a, b))
    try:
        r = a == b
        if isinstance(r, bool):
            return r
        return bool(r)
    except Exception:
        return a is b
