"""Solver front end: obligations, two back ends (z3 API, cvc5 binary on z3's `unknown`)."""
from __future__ import annotations

import os
import subprocess
import tempfile
import time

import z3

from .values import zbool

Z3_TIMEOUT_MS = int(os.environ.get("VERIF_Z3_TIMEOUT_MS", "20000"))
CVC5_TIMEOUT_MS = int(os.environ.get("VERIF_CVC5_TIMEOUT_MS", "20000"))
FEASIBLE_TIMEOUT_MS = 1500
CVC5 = "/usr/bin/cvc5"


class Obligation:
    __slots__ = ("name", "status", "backend", "seconds", "model", "detail", "pc", "goal", "mode", "case", "symtab")

    def __init__(self, name, status, backend, seconds, model=None, detail="", mode="proof"):
        self.name = name
        self.status = status  # discharged | refuted | unknown | unsupported
        self.backend = backend
        self.seconds = seconds
        self.model = model
        self.detail = detail
        self.mode = mode

    def as_dict(self):
        return {
            "name": self.name,
            "status": self.status,
            "backend": self.backend,
            "seconds": round(self.seconds, 4),
            "mode": self.mode,
            **({"detail": self.detail[:400]} if self.detail else {}),
        }


def _cvc5_check(solver, timeout_ms):
    """Ask the cvc5 binary about the assertions of a z3 solver. Returns 'unsat' | 'sat' | 'unknown'."""
    if not os.path.exists(CVC5):
        return "unknown"
    smt = solver.to_smt2()
    # z3 prints (check-sat) at the end; cvc5 needs a logic
    text = "(set-logic ALL)\n" + smt
    with tempfile.NamedTemporaryFile("w", suffix=".smt2", delete=False) as f:
        f.write(text)
        path = f.name
    try:
        out = subprocess.run(
            [CVC5, "--lang=smt2", f"--tlimit={timeout_ms}", path],
            capture_output=True,
            text=True,
            timeout=timeout_ms / 1000 + 5,
        ).stdout.strip()
    except Exception:
        out = "unknown"
    finally:
        os.unlink(path)
    first = out.splitlines()[0] if out else "unknown"
    return first if first in ("unsat", "sat") else "unknown"


class Prover:
    def __init__(self, mode="proof"):
        self.mode = mode  # "proof" (symbolic sizes) | "bounded" (concretised sizes)
        self.obligations: list[Obligation] = []
        self.solver_seconds = 0.0
        self.nforks = 0

    def _solver(self, pc, timeout):
        s = z3.Solver()
        s.set("timeout", timeout)
        for c in pc:
            s.add(zbool(c))
        return s

    def feasible(self, pc):
        s = self._solver(pc, FEASIBLE_TIMEOUT_MS)
        t = time.time()
        r = s.check()
        self.solver_seconds += time.time() - t
        return r != z3.unsat

    def satisfiable(self, pc, timeout=Z3_TIMEOUT_MS):
        """Definite satisfiability (for vacuity / reachability guards). True | False | None."""
        s = self._solver(pc, timeout)
        t = time.time()
        r = s.check()
        self.solver_seconds += time.time() - t
        if r == z3.sat:
            return True
        if r == z3.unsat:
            return False
        return None

    def prove(self, name, pc, goal, detail=""):
        """Record an obligation pc |- goal."""
        if isinstance(goal, bool):
            if goal:
                self.obligations.append(Obligation(name, "discharged", "trivial", 0.0, mode=self.mode))
                return True
            goal = z3.BoolVal(False)
        s = self._solver(pc, Z3_TIMEOUT_MS)
        s.add(z3.Not(goal))
        t = time.time()
        r = s.check()
        dt = time.time() - t
        self.solver_seconds += dt
        if r == z3.unsat:
            self.obligations.append(Obligation(name, "discharged", "z3", dt, mode=self.mode))
            return True
        if r == z3.sat:
            self.obligations.append(Obligation(name, "refuted", "z3", dt, model=s.model(), detail=detail, mode=self.mode))
            return False
        # unknown (in practice: a timeout while all cores are busy, or an unlucky instantiation order): the same query again
        # with other random seeds and a longer budget - quantifier instantiation in z3 is seed sensitive - before the
        # second opinion.  Only `unsat` / `sat` answers count; a verdict never depends on which attempt produced it.
        budget = getattr(self, "_retries_left", 2)  # at most two obligations per symbolic run get the extra attempts (bounds the run time on broken code)
        self._retries_left = budget - 1
        for attempt, seed in enumerate((7, 23) if budget > 0 else (), 1):
            s_retry = z3.Solver()
            s_retry.set("timeout", Z3_TIMEOUT_MS * (1 + attempt))
            s_retry.set("random_seed", seed)
            z3.set_param("smt.random_seed", seed)
            for c in pc:
                s_retry.add(zbool(c))
            s_retry.add(z3.Not(goal))
            t = time.time()
            rr = s_retry.check()
            dtr = time.time() - t
            self.solver_seconds += dtr
            dt += dtr
            if rr == z3.unsat:
                z3.set_param("smt.random_seed", 0)
                self.obligations.append(Obligation(name, "discharged", "z3", dt, mode=self.mode))
                return True
            if rr == z3.sat:
                z3.set_param("smt.random_seed", 0)
                self.obligations.append(Obligation(name, "refuted", "z3", dt, model=s_retry.model(), detail=detail, mode=self.mode))
                return False
        z3.set_param("smt.random_seed", 0)
        t = time.time()
        r2 = _cvc5_check(s, CVC5_TIMEOUT_MS)
        dt2 = time.time() - t
        self.solver_seconds += dt2
        if r2 == "unsat":
            self.obligations.append(Obligation(name, "discharged", "cvc5", dt + dt2, mode=self.mode))
            return True
        if r2 == "sat":
            self.obligations.append(Obligation(name, "refuted", "cvc5", dt + dt2, detail=detail + " (cvc5 sat, no model extracted)", mode=self.mode))
            return False
        self.obligations.append(Obligation(name, "unknown", "z3+cvc5", dt + dt2, detail=detail + f" z3 reason: {s.reason_unknown()}", mode=self.mode))
        return False

    def unsupported(self, name, why):
        self.obligations.append(Obligation(name, "unsupported", "-", 0.0, detail=why, mode=self.mode))
