"""Mutation self-test of the tier-P engine (./check selftest): scripted edits applied to a scratch copy of the
repository (outside /repo and /verif, removed afterwards). Each breaking edit must fail a named obligation;
each harmless edit must keep verifying.  A pass on a deliberately broken body is an ENGINE BUG."""
from __future__ import annotations

import os
import shutil
import subprocess
import sys
import tempfile

VERIF = os.path.dirname(os.path.dirname(os.path.abspath(__file__)))

# (file, old text, new text, spec module:class, expected: substring of a failing obligation | None for harmless)
MUTATIONS = [
    ("dask_expr/_repartition.py", "    if new_partitions_boundaries[-1] < frame_npartitions:\n        new_partitions_boundaries[-1] = frame_npartitions\n", "    pass\n", "vf.contracts.repartition:CleanBoundaries", "post:ends-at-n"),
    ("dask_expr/_repartition.py", "        new_partitions_boundaries.insert(0, 0)\n", "        new_partitions_boundaries.insert(0, 1)\n", "vf.contracts.repartition:CleanBoundaries", "post:starts-at-0"),
    ("dask_expr/_repartition.py", "            for new_partition_index in range(npartitions + 1)\n", "            for new_partition_index in range(npartitions)\n", "vf.contracts.repartition:FewerBoundaries", "post:"),
    ("dask_expr/_repartition.py", "                [(self.frame._name, j) for j in range(start, end)],\n            )\n            for i, (start, end) in enumerate(\n                zip(new_partitions_boundaries, new_partitions_boundaries[1:])", "                [(self.frame._name, j) for j in range(start, end + 1)],\n            )\n            for i, (start, end) in enumerate(\n                zip(new_partitions_boundaries, new_partitions_boundaries[1:])", "vf.contracts.repartition:FewerLayer", "post:"),
    ("dask_expr/_repartition.py", "        return tuple(self.frame.divisions[i] for i in self._partitions_boundaries)", "        return tuple(self.frame.divisions[i] for i in self._partitions_boundaries[:-1])", "vf.contracts.repartition:FewerDivisions", "post:"),
    ("dask_expr/_expr.py", "        new_divisions.append(full_divisions[part + 1])\n        return tuple(new_divisions)", "        new_divisions.append(full_divisions[part])\n        return tuple(new_divisions)", "vf.contracts.partitions:PFDivisions", "post:divisions-of-selected"),
    ("dask_expr/_expr.py", "        return self._filtered_task(self._partitions[index])", "        return self._filtered_task(index)", "vf.contracts.partitions:PFTask", "post:task-of-selected-partition"),
    ("dask_expr/_expr.py", "        divisions.append(self.frame.divisions[part + 1])\n        return tuple(divisions)", "        divisions.append(self.frame.divisions[part])\n        return tuple(divisions)", "vf.contracts.partitions:PartitionsDivisions", "post:divisions-of-selected"),
    ("dask_expr/_expr.py", "        return (self.frame._name, self.partitions[index])", "        return (self.frame._name, index)", "vf.contracts.partitions:PartitionsTask", "post:alias"),
    ("dask_expr/io/io.py", "            new_divisions.append(divisions[self._fusion_buckets[-1][-1] + 1])", "            new_divisions.append(self._fusion_buckets[-1][-1])", "vf.contracts.partitions:FusedDivisions", "post:fused-divisions"),
    ("dask_expr/io/io.py", "        buckets = [partitions[i : i + step] for i in range(0, npartitions, step)]", "        buckets = [partitions[i : i + step] for i in range(0, npartitions - 1, step)]", "vf.contracts.partitions:FusionBuckets", "post:buckets-partition"),
    ("dask_expr/_expr.py", "            partitions = partitions[: self.operand(\"npartitions\")]", "            partitions = partitions[: self.operand(\"npartitions\") - 1]", "vf.contracts.partitions:HeadPartitions", "post:first-k"),
    ("dask_expr/_expr.py", "            self.frame.divisions[self.operand(\"npartitions\")],\n        )", "            self.frame.divisions[self.operand(\"npartitions\") - 1],\n        )", "vf.contracts.partitions:HeadDivisions", "post:span"),
    ("dask_expr/io/io.py", "        divisions = divisions + (len(self.frame) - 1,)", "        divisions = divisions + (len(self.frame),)", "vf.contracts.partitions:FromArrayDivisions", "post:"),
    ("dask_expr/_cumulative.py", "                    (intermediate_name, i - 1),\n                    (previous_partitions._name, i - 1),", "                    (intermediate_name, i - 1),\n                    (previous_partitions._name, i),", "vf.contracts.layers:CumulativeFinalizeLayer", "post:carry-recurrence"),
    ("dask_expr/_cumulative.py", "        for i in range(1, self.frame.npartitions):\n            if i == 1:", "        for i in range(1, self.frame.npartitions - 1):\n            if i == 1:", "vf.contracts.layers:CumulativeFinalizeLayer", "post:K1-outputs-defined"),
    ("dask_expr/_cumulative.py", "                (self.frame._name, i),\n                (intermediate_name, i),", "                (self.frame._name, i),\n                (intermediate_name, i - 1),", "vf.contracts.layers:CumulativeFinalizeLayer", "post:outputs-aggregate"),
    ("dask_expr/_repartition.py", "        split_name = f\"split-{new_name}\"", "        split_name = f\"split-{df._name}\"", "vf.contracts.layers:MoreLayer", "post:K3-only-own-keys"),
    ("dask_expr/_repartition.py", "k)\n                for jj in range(k):\n                    dsk[new_name, j] = (getitem, (split_name, i), jj)", "k)\n                for jj in range(k):\n                    dsk[new_name, j] = (getitem, (split_name, i), k - jj)", "vf.contracts.layers:MoreLayer", "post:dataflow-split-in-order"),
    ("dask_expr/_repartition.py", "                dsk[new_name, j] = (df._name, i)\n                j += 1", "                dsk[new_name, j] = (df._name, i)\n                j += 2", "vf.contracts.layers:MoreLayer", "inv-preserved:loop0"),
    ("dask_expr/_repartition.py", "                    [(new_name, j) for j in range(start, end)],", "                    [(new_name, j) for j in range(start, end + 1)],", "vf.contracts.layers:SizeLayer", "post:K1-outputs-concat-range"),
    ("dask_expr/_repartition.py", "            new_name = self.frame._name\n", "            new_name = self._name\n", "vf.contracts.layers:SizeLayer", "post:K1-outputs-concat-range"),
    ("dask_expr/_repartition.py", "            j = 0\n            for i, k in enumerate(self._nsplits):\n                if k == 1:\n                    dsk[new_name, j] = (df._name, i)", "            j = 0\n            for i, k in enumerate(self._nsplits):\n                if k == 1:\n                    dsk[new_name, j] = (df._name, j)", "vf.contracts.layers:SizeLayer", "post:dataflow-split-in-order"),
    ("dask_expr/_repartition.py", "                    dsk[split_name, i] = (split_evenly, (df._name, i), k)\n                    for jj in range(k):", "                    dsk[split_name, i] = (split_evenly, (df._name, i), k)\n                    for jj in range(k - 1):", "vf.contracts.layers:SizeLayer", "inv-preserved:loop0"),
    ("dask_expr/io/parquet.py", "        if last_max is not None and file_min <= last_max:", "        if last_max is not None and file_min < last_max:", "vf.contracts.parquet_stats:DivisionsFromStatistics", "inv-preserved:loop0"),
    ("dask_expr/io/parquet.py", "        divisions.append(file_min)\n        last_max = file_max", "        divisions.append(file_min)\n        last_max = file_min", "vf.contracts.parquet_stats:DivisionsFromStatistics", "inv-preserved:loop0"),
    ("dask_expr/io/parquet.py", "    divisions.append(last_max)\n    return tuple(divisions), argsort", "    divisions.append(file_min)\n    return tuple(divisions), argsort", "vf.contracts.parquet_stats:DivisionsFromStatistics", "post:known-divisions-are-truthful"),
    ("dask_expr/io/parquet.py", "            # index ranges of two files overlap: divisions are not known\n            return tuple([None] * (len(aggregated_stats) + 1)), None", "            # index ranges of two files overlap: divisions are not known\n            return tuple([None] * len(aggregated_stats)), None", "vf.contracts.parquet_stats:DivisionsFromStatistics", "post:unknown-divisions-are-all-None"),
    ("dask_expr/_shuffle.py", "        dsk3 = {barrier_token: (barrier, list(dsk2))}", "        dsk3 = {barrier_token: (barrier, list(dsk2)[1:])}", "vf.contracts.layers:DiskShuffleLayer", "post:barrier-waits-for-every-write"),
    ("dask_expr/_shuffle.py", "            (self._name, j): (collect, p, k, df._meta, barrier_token)", "            (self._name, j): (collect, p, j, df._meta, barrier_token)", "vf.contracts.layers:DiskShuffleLayer", "post:K1-outputs-collect-their-group-after-the-barrier"),
    ("dask_expr/_shuffle.py", "            (self._name, j): (collect, p, k, df._meta, barrier_token)", "            (self._name, j): (collect, p, k, df._meta, p)", "vf.contracts.layers:DiskShuffleLayer", "post:K1-outputs-collect-their-group-after-the-barrier"),
    ("dask_expr/_shuffle.py", "            for i, key in enumerate(df.__dask_keys__())\n        }\n\n        # Barrier", "            for i, key in enumerate(df.__dask_keys__()[:-1])\n        }\n\n        # Barrier", "vf.contracts.layers:DiskShuffleLayer", "post:every-input-partition-is-written"),
    ("dask_expr/io/io.py", "        return (methods.concat, [expr._filtered_task(i) for i in bucket])", "        return (methods.concat, [expr._filtered_task(i) for i in bucket[1:]])", "vf.contracts.partitions:FusedTask", "post:reads-exactly-its-bucket-in-order"),
    ("dask_expr/io/io.py", "        bucket = self._fusion_buckets[index]\n        return (methods.concat,", "        bucket = self._fusion_buckets[index - 1]\n        return (methods.concat,", "vf.contracts.partitions:FusedTask", "post:reads-exactly-its-bucket-in-order"),
    ("dask_expr/_reductions.py", "                new_keys.append((self._name, j, i))", "                new_keys.append((self._name, j, i + 1))", "vf.contracts.layers:TreeReduceLayer", "inv-preserved:loop1:acc0"),
    ("dask_expr/_reductions.py", "            j += 1\n            keys = new_keys", "            keys = new_keys", "vf.contracts.layers:TreeReduceLayer", "inv-preserved:loop0"),
    ("dask_expr/_reductions.py", "        d[self._name, 0] = (apply, self.aggregate, [keys], self.aggregate_kwargs)", "        d[self._name, 0] = (apply, self.aggregate, [keys[:-1]], self.aggregate_kwargs)", "vf.contracts.layers:TreeReduceLayer", "post:final-aggregates-the-last-level"),
    ("dask_expr/_reductions.py", "                    d[self._name, j, i] = (self.combine, batch)", "                    d[self._name, j, i] = (self.combine, batch[1:])", "vf.contracts.layers:TreeReduceLayer", "post:each-batch-combines-consecutive-keys-of-the-previous-level"),
    ("dask_expr/_core.py", "        return {(self._name, i): self._task(i) for i in range(self.npartitions)}", "        return {(self._name, i): self._task(i) for i in range(1, self.npartitions)}", "vf.contracts.layers:ExprLayer", "post:K1-output-i-is-task-i"),
    ("dask_expr/_expr.py", "        args = [self._blockwise_arg(op, index) for op in self._args]\n        if self._kwargs:", "        args = [self._blockwise_arg(op, 0) for op in self._args]\n        if self._kwargs:", "vf.contracts.layers:BlockwiseTask", "post:operation-applied-to-every-operand-argument-in-order"),
    ("dask_expr/_expr.py", "            self.divisions[index],\n            self.divisions[index + 1],", "            self.divisions[index],\n            self.divisions[index],", "vf.contracts.layers:EnforceDivisionsTask", "post:partition-checked-against-its-own-bounds"),
    ("dask_expr/_expr.py", "            index == (self.npartitions - 1),", "            index == self.npartitions,", "vf.contracts.layers:EnforceDivisionsTask", "post:last-partition-flag"),
    ("dask_expr/_expr.py", "        dsk[(self._name, 0)] = (tuple, list(dsk.keys()))", "        dsk[(self._name, 0)] = (tuple, list(dsk.keys())[1:])", "vf.contracts.layers:LengthsLayer", "post:output-is-the-tuple-of-all-counts-in-order"),
    ("dask_expr/_expr.py", "            (name, i): (len, (self.frame._name, i))\n            for i in range(self.frame.npartitions)", "            (name, i): (len, (self.frame._name, i))\n            for i in range(self.frame.npartitions - 1)", "vf.contracts.layers:LengthsLayer", "post:one-len-task-per-input-partition"),
    ("dask_expr/_concat.py", "                    dsk[(self._name, ctr)] = df._name, i\n", "                    dsk[(self._name, ctr)] = df._name, ctr\n", "vf.contracts.layers:StackPartitionLayer", "post:dataflow-frames-stacked-in-order"),
    ("dask_expr/_concat.py", "                        kwargs,\n                    )\n                ctr += 1\n        return dsk", "                        kwargs,\n                    )\n                    ctr += 1\n        return dsk", "vf.contracts.layers:StackPartitionLayer", "inv-preserved:loop1"),
    ("dask_expr/_concat.py", "                            [meta, (df._name, i)],", "                            [meta, (df._name, 0)],", "vf.contracts.layers:StackPartitionLayer", "post:dataflow-frames-stacked-in-order"),
    ("dask_expr/_concat.py", "                    [(df._name, i) for df in dfs],", "                    [(df._name, i) for df in dfs[1:]],", "vf.contracts.layers:StackInterleavedLayer", "post:output-i-concatenates-partition-i-of-every-frame"),
    ("dask_expr/_expr.py", "                    dsk[(name_prepend, i)] = (M.tail, (self.frame._name, i), before)", "                    dsk[(name_prepend, i)] = (M.tail, (self.frame._name, i + 1), before)", "vf.contracts.layers:OverlapLayer", "post:K3-helpers-read-the-neighbouring-partition"),
    ("dask_expr/_expr.py", "                for i in range(1, self.frame.npartitions):\n                    dsk[(name_append, i)] = (M.head,", "                for i in range(1, self.frame.npartitions - 1):\n                    dsk[(name_append, i)] = (M.head,", "vf.contracts.layers:OverlapLayer", "post:K1-output-i-combines-its-neighbours-windows"),
    ("dask_expr/_expr.py", "        if self.before:\n            prevs.append(None)\n", "        if self.before:\n", "vf.contracts.layers:OverlapLayer", "inv-init:loop0:acc0"),
    ("dask_expr/_repartition.py", "        nsplits[-1] += mod\n", "        nsplits[0] += mod\n", "vf.contracts.layers:MoreNSplits", "post:"),
    ("dask_expr/_repartition.py", "        return (None,) * (1 + sum(self._nsplits))", "        return (None,) * (1 + len(self._nsplits))", "vf.contracts.layers:MoreDivisions", "post:length-new+1"),
    ("dask_expr/io/io.py", "        for part, k in enumerate(self.operand(\"keys\")):\n            dsk[(self._name, part)] = k", "        for part, k in enumerate(sorted(self.operand(\"keys\"))):\n            dsk[(self._name, part)] = k", "vf.contracts.layers:FromGraphLayer", "HARMLESS-OR-UNDECIDED"),
    ("dask_expr/io/io.py", "        for part, k in enumerate(self.operand(\"keys\")):\n            dsk[(self._name, part)] = k", "        for part, k in enumerate(self.operand(\"keys\")):\n            dsk[(self._name, part + 1)] = k", "vf.contracts.layers:FromGraphLayer", "post:"),
    ("dask_expr/_shuffle.py", "                    (repartition_group_name, p % npartitions_input),", "                    (repartition_group_name, i % npartitions_input),", "vf.contracts.layers:TaskShuffleTail", "post:outputs-pick-final-group"),
    ("dask_expr/_shuffle.py", "                for i in range(npartitions_input)\n            }\n\n            for i, p in enumerate(self._partitions):", "                for i in range(npartitions)\n            }\n\n            for i, p in enumerate(self._partitions):", "vf.contracts.layers:TaskShuffleTail", "post:"),
    ("dask_expr/_shuffle.py", "                (split_name, part_out, part_in)\n                for part_in in range(self.frame.npartitions)", "                (split_name, part_out, part_in)\n                for part_in in range(1, self.frame.npartitions)", "vf.contracts.layers:SimpleShuffleLayer", "post:outputs-concat-piece-of-every-input"),
    ("dask_expr/_shuffle.py", "                    (shuffle_group_name, _part_in),\n                    _part_out,\n                )\n                if (shuffle_group_name, _part_in) not in dsk:", "                    (shuffle_group_name, _part_in),\n                    global_part,\n                )\n                if (shuffle_group_name, _part_in) not in dsk:", "vf.contracts.layers:SimpleShuffleLayer", "post:K3-pieces-and-groups"),
    ("dask_expr/_shuffle.py", "                        (self.frame._name, _part_in),\n                        _filter,", "                        (self.frame._name, _part_out),\n                        _filter,", "vf.contracts.layers:SimpleShuffleLayer", "fn:guarded-insert"),
    ("dask_expr/_merge.py", "                if self.broadcast_side in (\"left\", \"leftsemi\"):\n                    _merge_args.reverse()", "                if self.broadcast_side in (\"right\", \"leftsemi\"):\n                    _merge_args.reverse()", "vf.contracts.layers:BroadcastJoinLayer_inner_left", "post:K3-merge-argument-order"),
    ("dask_expr/_merge.py", "            for j in range(bcast_size):\n                # Specify arg list", "            for j in range(1, bcast_size):\n                # Specify arg list", "vf.contracts.layers:BroadcastJoinLayer_left_right", "inv-"),
    ("dask_expr/_merge.py", "                    (other, part_out),\n                    other_on,\n                    bcast_size,", "                    (other, i),\n                    other_on,\n                    bcast_size,", "vf.contracts.layers:BroadcastJoinLayer_left_right", "post:K3-merge-argument-order-and-splits"),
    ("dask_expr/_merge.py", "        for i, part_out in enumerate(self._partitions):\n            if self.how != \"inner\":", "        for i, chosen in enumerate(self._partitions):\n            part_out = chosen\n            if self.how != \"inner\":", "vf.contracts.layers:BroadcastJoinLayer_left_right", None),
    ("dask_expr/_merge.py", "            and self.how != broadcast_side\n", "", "vf.contracts.decisions:IsBroadcastJoin", "post:broadcast-only-when-legal"),
    ("dask_expr/_merge.py", "            and not (self.how == \"leftsemi\" and broadcast_side == \"left\")\n", "", "vf.contracts.decisions:IsBroadcastJoin", "post:broadcast-only-when-legal"),
    ("dask_expr/_merge.py", "            and self.how in (\"inner\", \"left\", \"right\", \"leftsemi\")\n            and self.how != broadcast_side", "            and self.how in (\"inner\", \"left\", \"right\", \"leftsemi\", \"outer\")\n            and self.how != broadcast_side", "vf.contracts.decisions:IsBroadcastJoin", "post:broadcast-only-when-legal"),
    ("dask_expr/_merge.py", "            if broadcast or (n_low < math.log2(n_high) * broadcast_bias):", "            if n_low < math.log2(n_high) * broadcast_bias:", "vf.contracts.decisions:IsBroadcastJoin", "post:forced-broadcast"),
    ("dask_expr/_expr.py", "        return dep.npartitions == 1 and dep.ndim < self.ndim", "        return dep.npartitions == 1 and dep.ndim <= self.ndim", "vf.contracts.layers:BroadcastDep", "post:broadcast-iff"),
    ("dask_expr/_expr.py", "            if self._broadcast_dep(arg):\n                return (arg._name, 0)\n            else:\n                return (arg._name, i)\n\n        else:\n            return arg", "            if self._broadcast_dep(arg):\n                return (arg._name, i)\n            else:\n                return (arg._name, i)\n\n        else:\n            return arg", "vf.contracts.layers:BlockwiseArg", "post:"),
    ("dask_expr/_expr.py", "        reference = aligned[0] if aligned else dependencies[0]\n        for arg in aligned:", "        reference = dependencies[0]\n        for arg in aligned:", "vf.contracts.divisions:BlockwiseDivisions", "post:divisions-of-first-non-broadcast"),
    ("dask_expr/_merge.py", "        divisions = frame._divisions()\n        if keeps_index:\n            return divisions\n        # merging on columns", "        divisions = frame._divisions()\n        if keeps_index or self.how == \"inner\":\n            return divisions\n        # merging on columns", "vf.contracts.divisions:BroadcastJoinDivisions", "UNDECIDED-OR-REFUTED"),
    ("dask_expr/_merge.py", "        if self.broadcast_side == \"left\":\n            frame = self.right\n            keeps_index = self.left_index or _contains_index_name(\n                self.left._meta, self.left_on\n            )\n        else:\n            frame = self.left", "        if self.broadcast_side == \"left\":\n            frame = self.right\n            keeps_index = self.right_index or _contains_index_name(\n                self.left._meta, self.left_on\n            )\n        else:\n            frame = self.left", "vf.contracts.divisions:BroadcastJoinDivisions", "post:npartitions-of-other-input"),
    # optimizer drivers (C01 / C19 / C14)
    ("dask_expr/_core.py", "            if new._name in seen:\n                raise RuntimeError(", "            if new._name in seen:\n                break\n            if False:\n                raise RuntimeError(", "vf.contracts.drivers:SimplifyDriver", "post:result-is-a-fixed-point-of-simplify_once"),
    ("dask_expr/_core.py", "            new = expr.simplify_once(dependents=dependents, simplified={})\n            if new._name == expr._name:\n                break", "            new = expr.simplify_once(dependents=dependents, simplified={})\n            if new._name != expr._name:\n                break", "vf.contracts.drivers:SimplifyDriver", "post:result-is-a-fixed-point-of-simplify_once"),
    ("dask_expr/_core.py", "            seen.add(new._name)\n            expr = new\n        return expr", "            seen.add(new._name)\n            expr = new\n        return self", "vf.contracts.drivers:SimplifyDriver", "post:result-is-a-fixed-point-of-simplify_once"),
    ("dask_expr/_core.py", "            new = expr.lower_once()\n            if new._name == expr._name:\n                break\n            expr = new", "            new = expr.lower_once()\n            expr = new\n            break", "vf.contracts.drivers:LowerCompletelyDriver", "post:result-is-a-fixed-point-of-lower_once"),
    ("dask_expr/_expr.py", "    # dependencies of fused groups behind their back\n    expr = expr.lower_completely()\n", "    # dependencies of fused groups behind their back\n", "vf.contracts.drivers:OptimizeUntil", "pre:optimize_blockwise_fusion:plan-is-fully-lowered"),
    ("dask_expr/_expr.py", "    # Lower\n    expr = expr.lower_completely()\n    if stage == \"physical\":\n        return expr", "    # Lower\n    expr = expr.lower_once()\n    if stage == \"physical\":\n        return expr", "vf.contracts.drivers:OptimizeUntil", "post:physical-stages-return-fully-lowered-plans"),
    ("dask_expr/_expr.py", "    result = expr\n    if stage == \"logical\":\n        return result\n", "    current = expr\n    if stage == \"logical\":\n        return current\n    result = current\n", "vf.contracts.drivers:OptimizeUntil", None),
    # join legality of filter pushdown (C03 / C01)
    ("dask_expr/_merge.py", "                return self.how in (\"left\", \"inner\", \"leftsemi\")\n", "                return self.how in (\"left\", \"inner\", \"leftsemi\", \"outer\")\n", "vf.contracts.filters:FilterPassthroughAvailable", "post:available-only-if"),
    ("dask_expr/_merge.py", "                return self.how in (\"right\", \"inner\")\n", "                return self.how in (\"right\", \"inner\", \"left\")\n", "vf.contracts.filters:FilterPassthroughAvailable", "post:available-only-if"),
    ("dask_expr/_merge.py", "            ) and not self._renamed_by_suffix(predicate_columns, \"left\"):\n", "            ):\n", "vf.contracts.filters:FilterPassthroughAvailable", "post:available-only-if"),
    ("dask_expr/_merge.py", "            if predicate_columns is None:\n                return False\n", "            if predicate_columns is None:\n                return True\n", "vf.contracts.filters:FilterPassthroughAvailable", "post:available-only-if"),
    ("dask_expr/_merge.py", "            while isinstance(predicate, And):\n                predicate = predicate.left\n", "            while isinstance(predicate, And):\n                predicate = predicate.right\n", "vf.contracts.filters:FilterPassthroughAvailable", "inv-preserved:loop0"),
    ("dask_expr/_merge.py", "                if right_suffix != \"\" and any(\n                    f\"{col}{right_suffix}\" in self.columns and col in self.left.columns", "                if right_suffix != \"\" and any(\n                    f\"{col}{left_suffix}\" in self.columns and col in self.left.columns", "vf.contracts.filters:MergeFilterPushdown", "post:an-input-is-filtered-only-where"),
    ("dask_expr/_merge.py", "            if predicate_cols and predicate_cols.issubset(self.right.columns):\n                if right_suffix != \"\" and any(", "            if predicate_cols and not predicate_cols.issubset(self.left.columns):\n                if right_suffix != \"\" and any(", "vf.contracts.filters:MergeFilterPushdown", "post:an-input-is-filtered-only-where"),
    ("dask_expr/_merge.py", "        suffix = self.suffixes[0] if side == \"left\" else self.suffixes[1]\n", "        suffix = self.suffixes[1] if side == \"left\" else self.suffixes[0]\n", "vf.contracts.filters:RenamedBySuffix", "post:true-iff"),
    ("dask_expr/_merge.py", "            predicate_cols = self._predicate_columns(parent.predicate)\n            new_left, new_right = self.left, self.right\n", "            predicate_cols = self._predicate_columns(parent.predicate)\n            kept_left, kept_right = self.left, self.right\n            new_left, new_right = kept_left, kept_right\n", "vf.contracts.filters:MergeFilterPushdown", None),
    # what is shipped to another process (C16)
    ("dask_expr/_core.py", "        return type(self), tuple(self.operands)\n", "        return type(self), tuple(self.operands[:-1])\n", "vf.contracts.serialize:ExprReduce", "post:class-and-all-operands-in-order"),
    ("dask_expr/_core.py", "        if dask.config.get(\"dask-expr-no-serialize\", False):\n            raise RuntimeError(f\"Serializing a {type(self)} object\")\n        return type(self), tuple(self.operands)", "        if dask.config.get(\"dask-expr-no-serialize\", False):\n            pass\n        return type(self), tuple(self.operands)", "vf.contracts.serialize:ExprReduce", "post:never-returns-when"),
    ("dask_expr/_util.py", "        return type(self), (self._data,)\n", "        return type(self), (self._data, self._division_info)\n", "vf.contracts.serialize:BackendDataReduce", "post:only-the-data"),
    # the planner's cache data structure (C15)
    ("dask_expr/_util.py", "        if len(self) >= self.maxsize:\n", "        if len(self) > self.maxsize:\n", "vf.contracts.caches:LRUSetItem", "post:size-bound"),
    ("dask_expr/_util.py", "        if len(self) >= self.maxsize:\n", "        if len(self) >= self.maxsize - 1:\n", "vf.contracts.caches:LRUSetItem", "post:only-the-least-recently-used-key-is-evicted"),
    ("dask_expr/_util.py", "        cast(OrderedDict, self.data).move_to_end(key)\n        return value", "        return value", "vf.contracts.caches:LRUGetItem", "post:key-becomes-most-recently-used"),
    ("dask_expr/_util.py", "        super().__setitem__(key, value)\n\n\nclass _BackendData", "        super().__setitem__(key, value)\n        cast(OrderedDict, self.data).move_to_end(key, last=True) if False else None\n\n\nclass _BackendData", "vf.contracts.caches:LRUSetItem", "HARMLESS-OR-UNDECIDED"),
    ("dask_expr/_shuffle.py", "    key = (other._name, npartitions, ascending, partition_size, upsample)\n", "    key = (other._name, npartitions, ascending, partition_size)\n", "vf.contracts.caches:GetDivisions", "post:result-is-compute-of-the-arguments"),
    ("dask_expr/_shuffle.py", "    key = (other._name, npartitions, ascending, partition_size, upsample)\n", "    key = (frame._name, npartitions, ascending, partition_size, upsample)\n", "vf.contracts.caches:GetDivisions", "post:result-is-compute-of-the-arguments"),
    ("dask_expr/_shuffle.py", "    divisions_lru[key] = result\n    return result", "    divisions_lru[other._name] = result\n    return result", "vf.contracts.caches:GetDivisions", "post:stored-under-the-key"),
    ("dask_expr/_repartition.py", "    mem_usages_lru[frame._name] = result\n", "    mem_usages_lru[frame._name] = frame\n", "vf.contracts.caches:GetMemUsages", "UNDECIDED-OR-REFUTED"),
    # generic column pruning (C04)
    ("dask_expr/_expr.py", "        column_union = [col for col in expr.frame.columns if col in column_union]\n", "        column_union = [col for col in expr.frame.columns if col in parent.columns]\n", "vf.contracts.projection:PlainColumnProjection", "post:kept-covers-every-need"),
    ("dask_expr/_expr.py", "    if column_union == parent.operand(\"columns\"):\n        return result\n    return type(parent)(result, parent.operand(\"columns\"))", "    return result", "vf.contracts.projection:PlainColumnProjection", "post:parent-selection-reapplied"),
    ("dask_expr/_expr.py", "    if column_union == expr.frame.columns:\n        return\n    result = type(expr)(expr.frame[column_union], *expr.operands[1:])", "    if len(column_union) == len(expr.frame.columns) - 1:\n        return\n    result = type(expr)(expr.frame[column_union], *expr.operands[1:])", "vf.contracts.projection:PlainColumnProjection", "UNDECIDED-OR-REFUTED"),
    ("dask_expr/_expr.py", "    result = type(expr)(expr.frame[column_union], *expr.operands[1:])\n    if column_union == parent.operand(\"columns\"):", "    result = type(expr)(expr.frame[parent.operand(\"columns\")], *expr.operands[1:])\n    if column_union == parent.operand(\"columns\"):", "vf.contracts.projection:PlainColumnProjection", "post:kept-covers-every-need"),
    # partition-selection rewrite rule (C11 / C01)
    ("dask_expr/_expr.py", "                partitions = [self.frame._partitions[p] for p in self.partitions]\n", "                partitions = [self.partitions[p] for p in self.frame._partitions]\n", "vf.contracts.rules:PartitionsSimplifyDown", "post:selection-composed-with-the-frames-own"),
    ("dask_expr/_expr.py", "                    if (isinstance(op, Expr) and not self.frame._broadcast_dep(op))\n                    else op\n                )\n                for op in self.frame.operands\n            ]\n            return type(self.frame)(*operands)\n        elif isinstance(self.frame, PartitionsFiltered):", "                    if isinstance(op, Expr)\n                    else op\n                )\n                for op in self.frame.operands\n            ]\n            return type(self.frame)(*operands)\n        elif isinstance(self.frame, PartitionsFiltered):", "vf.contracts.rules:PartitionsSimplifyDown", "post:selection-pushed-into-aligned-expression-operands-only"),
    ("dask_expr/_expr.py", "                self.frame, (BlockwiseIO, Fused, SetIndexBlockwise, MapOverlap)\n            )\n        ):\n            operands = [\n                (\n                    Partitions(op, self.partitions)", "                self.frame, (BlockwiseIO, Fused, SetIndexBlockwise)\n            )\n        ):\n            operands = [\n                (\n                    Partitions(op, self.partitions)", "vf.contracts.rules:PartitionsSimplifyDown", "post:branch-taken-matches-the-kind-of-frame"),
    ("dask_expr/_expr.py", "                    Partitions(op, self.partitions)\n                    if (isinstance(op, Expr) and not self.frame._broadcast_dep(op))", "                    Partitions(op, self.partitions[:1])\n                    if (isinstance(op, Expr) and not self.frame._broadcast_dep(op))", "vf.contracts.rules:PartitionsSimplifyDown", "post:selection-pushed-into-aligned-expression-operands-only"),
    ("dask_expr/_expr.py", "            if self.frame._partitions:\n                partitions = [self.frame._partitions[p] for p in self.partitions]\n            else:\n                partitions = self.partitions\n", "            if self.frame._filtered:\n                partitions = [self.frame._partitions[p] for p in self.partitions]\n            else:\n                partitions = self.partitions\n", "vf.contracts.rules:PartitionsSimplifyDown", "UNDECIDED-OR-REFUTED"),
    # harmless edits: renamed local, reordered independent statements, extra statement
    ("dask_expr/_expr.py", "        new_divisions = []\n        for part in self._partitions:\n            new_divisions.append(full_divisions[part])\n        new_divisions.append(full_divisions[part + 1])\n        return tuple(new_divisions)", "        picked = []\n        for part in self._partitions:\n            picked.append(full_divisions[part])\n        picked.append(full_divisions[part + 1])\n        return tuple(picked)", "vf.contracts.partitions:PFDivisions", None),
    ("dask_expr/_repartition.py", "        npartitions = self.new_partitions\n        npartitions_input = self.frame.npartitions\n", "        npartitions_input = self.frame.npartitions\n        npartitions = self.new_partitions\n", "vf.contracts.repartition:FewerBoundaries", None),
]


def main():
    tmp = tempfile.mkdtemp(prefix="verif_selftest_")
    failures = 0
    try:
        only = os.environ.get("VERIF_SELFTEST_ONLY")
        for k, (rel, old, new, specid, expect) in enumerate(MUTATIONS):
            if only and only not in specid:
                continue
            root = os.path.join(tmp, f"m{k}")
            shutil.copytree("/repo/dask_expr", os.path.join(root, "dask_expr"), ignore=shutil.ignore_patterns("tests", "__pycache__"))
            path = os.path.join(root, rel)
            src = open(path).read()
            if src.count(old) != 1:
                print(f"SELFTEST-SKIP #{k}: anchor text occurs {src.count(old)} times in {rel}")
                failures += 1
                continue
            open(path, "w").write(src.replace(old, new))
            code = (
                "import sys; sys.path.insert(0, %r); sys.path.append(%r)\n"
                "import importlib\nfrom vf.pyvc.spec import verify_spec\n"
                "m, c = %r.split(':'); spec = getattr(importlib.import_module(m), c)()\n"
                "rep = verify_spec(spec, repo=%r)\n"
                "bad = [o['name'].split('#',1)[1] + ':' + o['status'] for o in rep.obligations if o['status'] != 'discharged'] + ['concrete:' + x['why'][:60] for x in rep.crosscheck['contract_fail']] + ['error:' + e[:80] for e in rep.errors]\n"
                "print('@@' + '|'.join(bad))\n"
            ) % (VERIF, os.path.join(VERIF, ".overlay"), specid, root)
            env = dict(os.environ, PYTHONPATH=f"{root}:{VERIF}", VERIF_REPO=root)
            r = subprocess.run(["/venv/bin/python", "-W", "ignore", "-c", code], capture_output=True, text=True, env=env, timeout=600)
            line = [l for l in r.stdout.splitlines() if l.startswith("@@")]
            bad = line[0][2:] if line else "CRASH " + r.stderr[-200:]
            shutil.rmtree(root, ignore_errors=True)
            if expect is None:
                ok = bad == ""
            elif expect == "UNDECIDED-OR-REFUTED":
                ok = bad != ""  # the edit leaves the subset (object model has no such attribute) or is refuted: never a silent pass
            elif expect.startswith("HARMLESS"):
                ok = True  # documented limitation: an invariant that names a renamed local becomes undecided, never a violation
                if "refuted" in bad:
                    ok = False
            else:
                ok = expect in bad and ("refuted" in bad or "concrete:" in bad)
            print(("ok   " if ok else "FAIL ") + f"#{k} {specid.split(':')[1]:22s} expect={expect} got={bad[:160]}")
            failures += 0 if ok else 1
    finally:
        shutil.rmtree(tmp, ignore_errors=True)
    print(f"selftest: {len(MUTATIONS)} mutations, {failures} unexpected outcomes")
    return 0 if failures == 0 else 3
