"""./check <property> [--tier quick|thorough] [--replay path]"""
from __future__ import annotations

import argparse
import importlib
import json
import os
import sys
import traceback

HERE = os.path.dirname(os.path.dirname(os.path.abspath(__file__)))
sys.path.insert(0, HERE)
sys.path.append(os.path.join(HERE, ".overlay"))  # appended: never shadow /venv's own packages


def main():
    ap = argparse.ArgumentParser()
    ap.add_argument("prop")
    ap.add_argument("--tier", default=None)
    ap.add_argument("--replay", default=None)
    a = ap.parse_args()
    tier = os.environ.get("VERIF_TIER") or a.tier or "quick"
    if tier not in ("quick", "thorough"):
        tier = "quick"
    from vf.common import Run, env_seed

    if a.prop == "spec:all":
        # developer entry: every tier-P contract, one line per contract that does not fully verify
        from vf.common import Run as _Run
        from vf.contracts.registry import all_specs
        from vf.props._p import run_specs

        r = _Run("P")
        reps = run_specs(r, all_specs(), None)
        bad = 0
        for rep in reps:
            nd = [o for o in rep.obligations if o["status"] != "discharged"]
            if nd or rep.crosscheck["contract_fail"] or rep.errors:
                bad += 1
                print("NOT-VERIFIED", rep.spec.name(), "|", "; ".join(o["name"].split("#", 1)[1] + ":" + o["status"] for o in nd)[:300], "| concrete:", len(rep.crosscheck["contract_fail"]), "| errors:", len(rep.errors))
        print(f"tier P: {len(reps)} contracts, {len(r.obligations)} obligations, {sum(1 for o in r.obligations if o['status'] == 'discharged')} discharged, {bad} contracts not verified, solver {r.solver_seconds:.1f}s")
        sys.exit(1 if bad else 0)
    if a.prop.startswith("spec:"):
        # developer entry: ./check spec:vf.contracts.layers:CumulativeFinalizeLayer  (one tier-P contract, verbose)
        _, modname, clsname = a.prop.split(":")
        from vf.pyvc.spec import verify_spec

        spec = getattr(importlib.import_module(modname), clsname)()
        rep = verify_spec(spec)
        for o in rep.obligations:
            print(f"  {o['status']:<12} {o['name']}  x{o['instances']} {o['seconds']:.2f}s {o['detail'][:300]}")
        for r in rep.refutations:
            print("  REFUTED", json.dumps({k: v for k, v in r.items() if k != "model"}, default=repr)[:600])
        print("  crosscheck:", rep.crosscheck["inputs"], "inputs;", rep.crosscheck["contract_fail"][:2])
        for e in rep.errors:
            print("  ERROR", e)
        sys.exit(0)
    if a.prop == "selftest":
        from vf import selftest

        sys.exit(selftest.main())
    try:
        mod = importlib.import_module(f"vf.props.{a.prop}")
    except Exception:
        # a broken driver is a checker error (exit 3), never a verdict about the repository
        print("CHECKER-ERROR: cannot load the driver of " + a.prop + ": " + traceback.format_exc()[-800:])
        sys.exit(3)
    if a.replay:
        payload = json.load(open(a.replay))
        from vf.replay import replay

        ok = replay(payload)
        print(("REPRODUCED " if ok else "NOT-REPRODUCED ") + payload["contract"])
        sys.exit(1 if ok else 0)
    run = Run(a.prop, tier, env_seed())
    try:
        mod.run(run)
    except Exception:
        run.errors.append("property driver crashed: " + traceback.format_exc()[-1500:])
    sys.exit(run.finish())


if __name__ == "__main__":
    main()
