"""./check <property> [--tier quick|thorough] [--replay path]"""
from __future__ import annotations

import argparse
import importlib
import json
import os
import sys
import traceback

HERE = os.path.dirname(os.path.dirname(os.path.abspath(__file__)))
sys.path.insert(0, HERE)
sys.path.append(os.path.join(HERE, ".overlay"))  # appended: never shadow /venv's own packages


def main():
    ap = argparse.ArgumentParser()
    ap.add_argument("prop")
    ap.add_argument("--tier", default=None)
    ap.add_argument("--replay", default=None)
    a = ap.parse_args()
    tier = os.environ.get("VERIF_TIER") or a.tier or "quick"
    if tier not in ("quick", "thorough"):
        tier = "quick"
    from vf.common import Run, env_seed

    if a.prop == "selftest":
        from vf import selftest

        sys.exit(selftest.main())
    mod = importlib.import_module(f"vf.props.{a.prop}")
    if a.replay:
        payload = json.load(open(a.replay))
        from vf.replay import replay

        ok = replay(payload)
        print(("REPRODUCED " if ok else "NOT-REPRODUCED ") + payload["contract"])
        sys.exit(1 if ok else 0)
    run = Run(a.prop, tier, env_seed())
    try:
        mod.run(run)
    except Exception:
        run.errors.append("property driver crashed: " + traceback.format_exc()[-1500:])
    sys.exit(run.finish())


if __name__ == "__main__":
    main()
