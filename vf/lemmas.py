"""Lean 4 lemmas backing facts the SMT obligations assume (induction the solver will not do).
Each lemma file is re-checked by `lean` on every run that uses it; `sorry` / `axiom` are rejected."""
from __future__ import annotations

import hashlib
import os
import re
import shutil
import subprocess
import time

from vf.common import VERIF

_done = {}


def check_lemma(run, name):
    path = os.path.join(VERIF, "lemmas", name + ".lean")
    if name in _done:
        res = _done[name]
    else:
        src = open(path).read()
        code = re.sub(r"/-.*?-/", "", src, flags=re.S)
        code = re.sub(r"--.*", "", code)
        res = {"lemma": name, "file": f"lemmas/{name}.lean", "sha256_16": hashlib.sha256(src.encode()).hexdigest()[:16], "theorems": re.findall(r"^theorem\s+(\S+)", code, flags=re.M)}
        bad = re.findall(r"\b(sorry|axiom|admit|unsafe|native_decide)\b", code)
        lean = shutil.which("lean")
        if bad:
            res.update(status="rejected", detail=f"contains {sorted(set(bad))}")
        elif lean is None:
            res.update(status="not-checked", detail="lean not on PATH")
        else:
            t0 = time.time()
            try:
                r = subprocess.run([lean, path], capture_output=True, text=True, timeout=900)
                out = (r.stdout + r.stderr).strip()
                ok = r.returncode == 0 and "error" not in out
                res.update(status="checked" if ok else "failed", seconds=round(time.time() - t0, 2), detail=out[-400:] if not ok else "", checker="lean 4 (kernel), no imports")
            except subprocess.TimeoutExpired:
                res.update(status="failed", detail="lean timed out")
        _done[name] = res
    if res not in run.lemmas:
        run.lemmas.append(res)
    if res["status"] != "checked":
        run.errors.append(f"lemma {name}: {res['status']} {res.get('detail', '')}")
    return res["status"] == "checked"
