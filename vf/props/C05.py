"""C05 - results do not depend on task scheduling; tasks never mutate their inputs (bounded; DESIGN 5 C05).
R: frame condition on every task callable of every materialised corpus graph (arguments are fingerprinted
before and after the call), determinism under re-execution, sampled dependency-respecting orders, thread counts.
No schedule space is enumerated: 'all schedules' is only reached through lemma L3 (contracts => order-independence)."""
from __future__ import annotations

import gc
import random
import zlib
import warnings

import numpy as np
import pandas as pd

import dask
from dask.base import tokenize
from dask.core import get_dependencies, istask

from vf.rt import cases as K
from vf.rt import corpus as C
from vf.rt import den as D
from vf.rt.pool import bump, run_cases, viol


class Mutation(Exception):
    pass


_log = []


def _fp(x):
    """Deep fingerprint of a task argument (pandas objects by content incl. index/columns/dtypes/names/attrs)."""
    try:
        if isinstance(x, (pd.DataFrame, pd.Series, pd.Index)):
            extra = (tuple(map(str, getattr(x, "columns", []))), str(getattr(x, "dtypes", getattr(x, "dtype", ""))), str(getattr(x, "name", "")), str(getattr(getattr(x, "index", None), "names", "")), repr(getattr(x, "attrs", "")))
            return ("pd", tokenize(x), extra)
        if isinstance(x, (list, tuple)):
            return tuple(_fp(y) for y in x)
        if isinstance(x, dict):
            return tuple(sorted((repr(k), _fp(v)) for k, v in x.items()))
        if isinstance(x, np.ndarray):
            return ("np", x.shape, str(x.dtype), x.tobytes() if x.dtype != object else repr(x.tolist()))
        if isinstance(x, (int, float, str, bool, type(None), bytes)):
            return x
        return ("obj", type(x).__name__)
    except Exception:
        return ("unfingerprintable", type(x).__name__)


def _wrap(f):
    # Fused._execute_task binds its inputs into the private per-task sub-graph dict it was built with
    # (placeholders "_0", "_1", ...); that dict belongs to the task itself, not to another task or the user
    skip0 = getattr(f, "__qualname__", "") == "Fused._execute_task"

    def call(*args, **kw):
        watched = args[1:] if skip0 else args
        before = _fp(watched)
        out = f(*args, **kw)
        after = _fp(watched)
        if before != after:
            _log.append((getattr(f, "__qualname__", getattr(f, "__name__", repr(f))), _diff(before, after)))
        return out

    call.__name__ = getattr(f, "__name__", "task")
    call._verif_wrapped = f
    return call


def _diff(a, b):
    if isinstance(a, tuple) and isinstance(b, tuple) and len(a) == len(b):
        for i, (x, y) in enumerate(zip(a, b)):
            if x != y:
                return f"argument {i}: " + _diff(x, y) if not (isinstance(x, tuple) and x and x[0] == "pd") else f"argument {i}: pandas object changed ({x[2]} -> {y[2]})"
    return f"{str(a)[:80]} -> {str(b)[:80]}"


def instrument(g):
    """Wrap the callable of every task (also inside nested tasks and fused sub-graphs)."""

    def tr(x):
        if istask(x):
            f = x[0]
            args = tuple(tr(a) for a in x[1:])
            return (_wrap(f),) + args
        if isinstance(x, list):
            return [tr(a) for a in x]
        if isinstance(x, dict) and any(istask(v) for v in x.values()):
            return {k: tr(v) for k, v in x.items()}
        return x

    return {k: tr(v) for k, v in g.items()}


def random_order_get(g, keys, rng, mode):
    """Execute in a sampled dependency-respecting order (random / consumers-first-adversarial)."""
    deps = {k: get_dependencies(g, k) for k in g}
    done = {}
    remaining = set(g)
    from dask.core import _execute_task

    while remaining:
        ready = [k for k in remaining if all(d in done for d in deps[k])]
        if not ready:
            raise RuntimeError("cycle")
        ready.sort(key=repr)
        if mode == "random":
            k = rng.choice(ready)
        elif mode == "lifo":
            k = ready[-1]
        else:
            k = ready[0]
        done[k] = _execute_task(g[k], done)
        remaining.discard(k)
    flat = []
    st = [keys]
    while st:
        x = st.pop()
        if isinstance(x, list):
            st.extend(reversed(x))
        else:
            flat.append(done[x])
    return flat


def check_case(case, common, out):
    cid = K.case_id(case)
    try:
        prog, q = K.build(case)
    except Exception as ex:
        out["notes"][f"refused at construction: {case[3]}"] = f"{type(ex).__name__}: {str(ex)[:80]}"
        return
    if not hasattr(q, "expr") or "disk" in prog.tags:
        return
    replay = {"kind": "call", "module": "vf.props.C05", "func": "replay_case", "args": {"case": list(case), **({"default_method": True} if common.get("default_method") else {})}}
    tabs = K.tabs_for(case[0], case[1])
    src_before = {k: tokenize(v) for k, v in tabs.items()}
    with warnings.catch_warnings():
        warnings.simplefilter("ignore")
        try:
            opt = q.optimize(fuse=common.get("fuse", True))
            g = dict(opt.__dask_graph__())
            keys = opt.__dask_keys__()
        except Exception:
            return
        rng = random.Random(zlib.crc32(cid.encode()) & 0xFFFF)  # not hash(): str hashes differ between interpreters, the sampled orders must not
        results = []
        raised = []
        MODES = ("sync-instrumented", "random", "lifo", "fifo", "threads")
        for mode in MODES:
            del _log[:]
            try:
                if mode == "sync-instrumented":
                    vals = dask.get(instrument(g), keys)
                elif mode == "threads":
                    vals = dask.threaded.get(g, keys, num_workers=common.get("threads", 8))
                else:
                    vals = random_order_get(g, keys, rng, mode)
            except Exception as ex:
                raised.append((mode, type(ex).__name__, str(ex)[:200]))
                continue
            bump(out, "C05.task:arguments-unchanged+order-independent", f"{cid}|{mode}", rule="program x layout x execution mode (instrumented sync, random / lifo / fifo dependency-respecting orders, 8 threads); every task call fingerprints its arguments before and after")
            for fname, what in _log[:3]:
                viol(out, "C05.task:mutates-its-argument", f"{cid}|task={fname}", what, replay)
            results.append((mode, list(vals) if isinstance(vals, (list, tuple)) else [vals]))
        if raised and len(raised) == len(MODES) and len({r[1] for r in raised}) == 1:
            # the plan fails with the same explicit error under EVERY execution order: not a dependence on scheduling
            # (whether the error is a legitimate refusal is the business of C01 / C02, which compare with the unoptimized plan and pandas)
            out["notes"][f"fails under every execution order: {case[3]}"] = f"{raised[0][1]}: {raised[0][2][:80]}"
        else:
            for mode, ename, msg in raised:
                viol(out, f"C05.exec[{mode}]:raises", cid, f"{ename}: {msg} (other execution orders: {[m for m, _ in results] or 'none'} succeed, or fail differently)", replay)
        base = results[0] if results else None
        for mode, vals in results[1:]:
            if len(vals) != len(base[1]):
                viol(out, "C05.exec:result-depends-on-order", f"{cid}|{mode}", f"{len(vals)} vs {len(base[1])} partitions", replay)
                continue
            for i, (a, b) in enumerate(zip(base[1], vals)):
                r = D.equiv(a, b) if isinstance(a, (pd.DataFrame, pd.Series, pd.Index)) or not isinstance(a, (list, tuple)) else True
                if r is False:
                    viol(out, "C05.exec:result-depends-on-order", f"{cid}|{mode}|partition={i}", f"{base[0]}={D.describe(a)} {mode}={D.describe(b)}", replay)
                    break
        # the same collection computed again, and the user's inputs
        try:
            r1 = q.compute()
            r2 = q.compute()
            bump(out, "C05.compute:repeatable", cid, rule="the same collection computed twice")
            if D.equiv(r1, r2, prog.order_free and "shuffle" in prog.tags) is False:
                viol(out, "C05.compute:second-compute-differs", cid, f"first={D.describe(r1)} second={D.describe(r2)}", replay)
        except Exception:
            pass
    for k, v in tabs.items():
        if tokenize(v) != src_before[k]:
            viol(out, "C05.source:user-frame-modified", f"{cid}|table={k}", "the pandas frame handed to from_pandas changed during compute", replay)
    if len(out["samples"]) < 2:
        out["samples"].append({"case": cid, "tasks": len(g)})


def source_case(case, common, out):
    """from_pandas keeps a private copy: later in-place edits of the user's frame do not reach the collection."""
    import dask_expr as dx

    kind, npart = case
    n = 24
    i = np.arange(n)
    idx = {"sorted": i, "unsorted": (i * 7) % n, "dups": np.sort((i * 3) % 7)[::-1].copy()}[kind]
    pdf = pd.DataFrame({"a": i % 5, "b": i * 1.0, "s": [f"s{x}" for x in i]}, index=idx)
    orig = pdf.copy(deep=True)
    sig = f"from_pandas|index={kind}|npartitions={npart}"
    replay = {"kind": "call", "module": "vf.props.C05", "func": "replay_source", "args": {"case": list(case)}}
    with warnings.catch_warnings():
        warnings.simplefilter("ignore")
        for sort in (True, False):
            df = dx.from_pandas(pdf, npartitions=npart, sort=sort)
            first = df.a.sum().compute(), df[df.b > 3].compute()
            pdf.iloc[:, 0] = -1
            pdf.loc[pdf.index[0], "b"] = 999.0
            gc.collect()
            bump(out, "C05.source:private-copy", f"{sig}|sort={sort}", rule="collection results after the user edits the source frame in place, for sorted / unsorted / duplicated indexes")
            after = df.a.sum().compute(), df[df.b > 3].compute(), (df.a + 1).sum().compute(), df.b.max().compute()
            exp = orig.a.sum(), orig[orig.b > 3], (orig.a + 1).sum(), orig.b.max()
            if after[0] != exp[0] or after[2] != exp[2] or after[3] != exp[3] or D.equiv(after[1], exp[1], order_free=True) is False:
                viol(out, "C05.source:collection-sees-later-edits-of-the-user-frame", f"{sig}|sort={sort}", f"a.sum() {first[0]} -> {after[0]} (expected {exp[0]}); b.max() {after[3]} (expected {exp[3]})", replay)
            pdf = orig.copy(deep=True)


def replay_case(case, default_method=False, _initialised=False):
    from vf.rt.pool import _init

    if not _initialised:
        _init()
    if default_method:
        import dask

        with dask.config.set({"dataframe.shuffle.method": None}):
            return replay_case(case, _initialised=True)
    out = {"counts": {}, "violations": [], "samples": [], "errors": [], "notes": {}}
    ls = case[2]
    ls = (ls[0], tuple(tuple(x) if isinstance(x, list) else x for x in ls[1]) if isinstance(ls[1], list) else ls[1], ls[2])
    check_case((case[0], case[1], ls, case[3]), {}, out)
    for v in out["violations"]:
        print(v["contract"], "|", v["signature"], "|", v["detail"][:300])
    return bool(out["violations"])


def replay_source(case):
    from vf.rt.pool import _init

    _init()
    out = {"counts": {}, "violations": [], "samples": [], "errors": [], "notes": {}}
    source_case(tuple(case), {}, out)
    for v in out["violations"]:
        print(v["contract"], "|", v["signature"], "|", v["detail"][:300])
    return bool(out["violations"])


def run(run):
    rng = random.Random(run.seed)
    hand = list(C.PROGRAMS)
    extra = ["sortkw:ignore_index", "sortkw:ignore_index_two"]
    C.PROGRAMS["sortkw:ignore_index"] = C.Prog("sortkw:ignore_index", lambda t: t.df.sort_values("u", ascending=False, ignore_index=True), tags={"sort"}, index_free=False)
    C.PROGRAMS["sortkw:ignore_index_two"] = C.Prog("sortkw:ignore_index_two", lambda t: t.df.sort_values(["a", "u"], ignore_index=True)[["a", "u"]], tags={"sort"})
    d1 = C.generated_depth1(["id", "sum_u", "gb", "cols_ub"])
    if run.tier == "quick":
        cases = K.standard_cases(hand, ["range"], [("np", 3, True)]) + K.standard_cases(d1, ["range"], [("np", 4, False)]) + K.standard_cases(hand[::2], ["dupint"], [("np", 5, True)])
    else:
        cases = K.standard_cases(hand + d1, ["range", "dupint", "str"], [("np", 2, True), ("np", 3, True), ("np", 5, False), ("np", 8, True)])
        cases += K.standard_cases(C.generated_depth2(rng, 1500), ["range"], [("np", 3, True)])
    run_cases(run, "vf.props.C05", "check_case_reg", cases, {"fuse": True, "threads": 8})
    picks = [n for n in hand if n.startswith("drop_duplicates")]
    run_cases(run, "vf.props.C05", "check_case_default_method", K.standard_cases(picks, ["range", "dupint"], [("np", 3, True), ("np", 5, False)]), {"fuse": True, "threads": 8})
    run_cases(run, "vf.props.C05", "source_case", [(k, n) for k in ("sorted", "unsorted", "dups") for n in (1, 3, 5)], {}, chunk=1)
    run.lemmas.append({"name": "L3 order-independence of evaluating a finite DAG of deterministic, non-mutating tasks", "status": "assumed (stated, not machine-checked in this run)"})
    # tier P (the part of the property a contract can carry): tasks of the generic Blockwise layer and of the overlap layer
    # communicate through explicit graph keys only - every argument is a literal or the key (dependency, i) / (dependency, 0)
    from vf.contracts.registry import run_property_specs

    run_property_specs(run, "C05")
    run.assume("L3: in a closed acyclic graph (C09) of deterministic tasks that do not mutate their arguments every dependency-respecting evaluation order yields the same value for every key; it is the only route by which this check says anything about ALL schedules")
    run.assume("NOT decided: interference between threads inside pandas / numpy / partd, on-disk state of the disk shuffle under concurrent runs, schedulers that do not respect dependencies; no schedule space is enumerated (sampled orders only)")
    run.trust("argument fingerprints use dask.base.tokenize (content hash of pandas objects) plus labels / dtypes / names / attrs")


def check_case_default_method(case, common, out):
    """The same contract with dask's DEFAULT shuffle method (the worker pool pins "tasks"; on a single machine the default is the
    order-scrambling disk shuffle): operations whose result picks rows by order (drop_duplicates keep=first/last) must choose an
    order-preserving method themselves, so their result may not depend on the execution order under the default either."""
    import dask

    with dask.config.set({"dataframe.shuffle.method": None}):
        check_case(case, dict(common, default_method=True), out)


def check_case_reg(case, common, out):
    if "sortkw:ignore_index" not in C.PROGRAMS:
        C.PROGRAMS["sortkw:ignore_index"] = C.Prog("sortkw:ignore_index", lambda t: t.df.sort_values("u", ascending=False, ignore_index=True), tags={"sort"})
        C.PROGRAMS["sortkw:ignore_index_two"] = C.Prog("sortkw:ignore_index_two", lambda t: t.df.sort_values(["a", "u"], ignore_index=True)[["a", "u"]], tags={"sort"})
    check_case(case, common, out)
