"""C12 - a shuffle is a permutation that co-locates equal keys consistently across frames (DESIGN 5 C12).
S: exhaustive routing check of the real SimpleShuffle/TaskShuffle._layer on stub frames through the abstract
graph interpreter; R: run-time contracts on df.shuffle(...) and on cross-frame key placement."""
from __future__ import annotations

import itertools
import warnings

import numpy as np
import pandas as pd

from vf.rt.pool import bump, run_cases, viol

S_RULE = "all (n_in <= n_out, max_branch) up to the bound x output-partition subsets; real _layer() on a stub frame interpreted over rows (origin, v) for every v < n_out; distinct by (n_in, n_out, max_branch, subset)"


def s_case(case, common, out):
    """One (class, n_in, n_out, max_branch) point: every subset P in the list."""
    from dask_expr._shuffle import SimpleShuffle, TaskShuffle

    from vf.rt import graphsem as G
    from vf.rt.stub import stub_frame

    cname, n_in, n_out, mb, subsets = case
    cls = {"SimpleShuffle": SimpleShuffle, "TaskShuffle": TaskShuffle}[cname]
    meta = pd.DataFrame({"x": pd.Series([], dtype="int64"), "_partitions": pd.Series([], dtype="int64")})
    fr = stub_frame(npartitions=n_in, meta=meta, tag=f"s{n_in}")
    sem = G.default_semantics()
    for P in subsets:
        P = list(P) if P is not None else None
        sig = f"{cname}|n_in={n_in}|n_out={n_out}|max_branch={mb}|P={P}"
        replay = {"kind": "call", "module": "vf.props.C12", "func": "replay_s", "args": {"case": [cname, n_in, n_out, mb, [P]]}}
        staged = cname == "TaskShuffle" and n_in > mb and (len(P) if P is not None else n_out) > mb
        bump(out, "C12.S.layer:routing", sig if staged or P is not None else None, tier="S", rule=S_RULE)
        try:
            sh = cls(fr, "_partitions", n_out, False, {"max_branch": mb}, P)
            layer = sh._layer()
            keys = sh.__dask_keys__()
        except Exception as ex:
            viol(out, "C12.S.layer:raises", sig, f"{type(ex).__name__}: {str(ex)[:160]}", replay)
            continue
        sel = P if P is not None else list(range(n_out))
        if len(keys) != len(sel):
            viol(out, "C12.S.layer:output-count", sig, f"{len(keys)} output keys for {len(sel)} requested partitions", replay)
            continue
        # K3: every key of the layer is derived from the shuffle's own name
        foreign = [k for k in layer if not (isinstance(k, tuple) and isinstance(k[0], str) and sh._name in k[0])]
        if foreign:
            viol(out, "C12.S.layer:K3-foreign-key", sig, f"key {foreign[0]!r} is not derived from the expression's name", replay)
        inputs = {(fr._name, i): tuple((i, v, v, v) for v in range(n_out)) for i in range(n_in)}
        try:
            outs = G.run_layer(layer, inputs, keys, sem)
        except Exception as ex:
            viol(out, "C12.S.layer:not-executable", sig, f"{type(ex).__name__}: {str(ex)[:160]}", replay)
            continue
        for g, part in enumerate(outs):
            exp = sorted((i, sel[g]) for i in range(n_in))
            got = sorted((r[0], r[3]) for r in part)
            if got != exp:
                viol(out, "C12.S.layer:output-holds-wrong-rows", sig, f"output {g} (partition {sel[g]}) holds rows (origin, key) {got[:6]}, expected {exp[:6]}", replay)
                break
    if len(out["samples"]) < 2:
        out["samples"].append({"class": cname, "n_in": n_in, "n_out": n_out, "max_branch": mb, "subsets": len(subsets)})


def replay_s(case):
    out = {"counts": {}, "violations": [], "samples": [], "errors": [], "notes": {}}
    s_case((case[0], case[1], case[2], case[3], [tuple(p) if p is not None else None for p in case[4]]), {}, out)
    for v in out["violations"]:
        print(v["contract"], "|", v["signature"], "|", v["detail"][:300])
    return bool(out["violations"])


def s_cases(tier):
    cases = []
    bound = 9 if tier == "quick" else 13
    for n_in in range(1, bound + 1):
        for n_out in range(n_in, bound + 1):
            for mb in ((2, 3, 4) if tier == "quick" else (2, 3, 4, 5, 8)):
                if n_out <= 4:
                    subs = [None] + [c for r in range(1, n_out + 1) for c in itertools.permutations(range(n_out), r)][:40]
                elif n_out <= 6:
                    subs = [None] + [c for r in (1, 2, 3, n_out - 1) for c in itertools.combinations(range(n_out), r)][:30] + [tuple(range(1, n_out)), tuple(reversed(range(n_out))), (n_out - 1, 0)]
                else:
                    subs = [None, (n_out - 1,), (0, n_out - 1), tuple(range(1, n_out)), tuple(range(0, n_out, 2)), tuple(range(mb + 1)), tuple(range(1, mb + 2)) if mb + 2 <= n_out else (0,), (2, 1, 0) + tuple(range(3, min(n_out, mb + 3)))]
                cases.append(("TaskShuffle", n_in, n_out, mb, subs))
            if n_out <= 6:
                cases.append(("SimpleShuffle", n_in, n_out, 32, [None, (0,), (n_out - 1,), tuple(reversed(range(n_out)))]))
    return cases


# ---------------------------------------------------------------------------------------------
# R tier
# ---------------------------------------------------------------------------------------------
def _frames():
    n = 60
    i = np.arange(n)
    pdf = pd.DataFrame(
        {
            "ki": (i * 7) % 11,
            "kf": ((i * 7) % 11).astype("float64"),
            "ks": [f"s{(x * 7) % 11}" for x in i],
            "kn": pd.array([None if x % 9 == 0 else (x * 7) % 11 for x in i], dtype="Int64"),
            "kc": pd.Categorical([f"c{(x * 5) % 4}" for x in i]),
            "v": i,
        },
        index=pd.Index((i * 3) % 17, name="id"),
    )
    return pdf


def r_case(case, common, out):
    import dask
    import dask_expr as dx

    on, nin, nout, method, mb, ignore_index, subset = case
    pdf = _frames()
    sig = f"on={on}|n_in={nin}|n_out={nout}|method={method}|max_branch={mb}|ignore_index={ignore_index}|P={subset}"
    replay = {"kind": "call", "module": "vf.props.C12", "func": "replay_r", "args": {"case": list(case)}}
    with warnings.catch_warnings(), dask.config.set({"dataframe.shuffle.method": method}):
        warnings.simplefilter("ignore")
        df = dx.from_pandas(pdf, npartitions=nin, sort=False)
        kw = {}
        if mb is not None:
            kw["max_branch"] = mb
        try:
            if on == "__index__":
                sh = df.shuffle(on_index=True, npartitions=nout, ignore_index=ignore_index, **kw)
            else:
                sh = df.shuffle(on, npartitions=nout, ignore_index=ignore_index, **kw)
            full = [p.compute() for p in sh.to_delayed()] if subset is None else None
            if subset is not None:
                whole = [p.compute() for p in sh.to_delayed()]
                got = sh.partitions[list(subset)].compute()
                exp = pd.concat([whole[p] for p in subset])
                bump(out, "C12.R.shuffle:subset==full[subset]", sig, rule="requested subsets of output partitions against the full shuffle")
                if sorted(got.v.tolist()) != sorted(exp.v.tolist()):
                    viol(out, "C12.R.shuffle:subset-differs", sig, f"subset holds v={sorted(got.v.tolist())[:8]}.. ({len(got)} rows), full shuffle's partitions hold {len(exp)} rows", replay)
                # the requested subset and its complement, as two selections of the same shuffle in ONE graph
                rest = [p for p in range(sh.npartitions) if p not in set(subset)]
                if rest:
                    both = dx.concat([sh.partitions[list(subset)], sh.partitions[rest]]).compute()
                    bump(out, "C12.R.shuffle:two-selections-one-graph", sig, rule="a subset and its complement concatenated in one graph hold every row once")
                    if sorted(both.v.tolist()) != sorted(pdf.v.tolist()):
                        viol(out, "C12.R.shuffle:two-selections-one-graph-differs", sig, f"{len(both)} rows, expected {len(pdf)}", replay)
                return
        except Exception as ex:
            viol(out, "C12.R.shuffle:raises", sig, f"{type(ex).__name__}: {str(ex)[:200]}", replay)
            return
    bump(out, "C12.R.shuffle:permutation+co-location", sig, rule="key column kind x (n_in, n_out) x method x max_branch x ignore_index")
    allv = sorted(v for p in full for v in p.v.tolist())
    if allv != sorted(pdf.v.tolist()):
        viol(out, "C12.R.shuffle:not-a-permutation", sig, f"{len(allv)} rows out, {len(pdf)} rows in; multiset of v differs", replay)
    if len(full) != sh.npartitions:
        viol(out, "C12.R.shuffle:partition-count", sig, f"{len(full)} vs npartitions={sh.npartitions}", replay)
    keycols = [on] if isinstance(on, str) else list(on)
    where = {}
    # the key of an output row is looked up in the input through the unique column v (the index itself may
    # have been dropped by ignore_index=True)
    src = pdf.reset_index().set_index("v")
    for pi, p in enumerate(full):
        if on == "__index__" or on == "id":
            keys = [(src.loc[v, "id"],) for v in p.v.tolist()]
        else:
            keys = [tuple(None if pd.isna(x) else x for x in src.loc[v, keycols]) for v in p.v.tolist()]
        for k in keys:
            if where.setdefault(k, pi) != pi:
                viol(out, "C12.R.shuffle:equal-keys-split", sig, f"key {k!r} appears in output partitions {where[k]} and {pi}", replay)
                return
    out.setdefault("placement", {})[sig] = where


def x_case(case, common, out):
    """Cross-frame consistency: the same key values held as int / float / nullable / index get the same partition."""
    import dask
    import dask_expr as dx

    nin1, nin2, nout, how = case
    pdf = _frames()
    sig = f"cross|n_in=({nin1},{nin2})|n_out={nout}|{how}"
    replay = {"kind": "call", "module": "vf.props.C12", "func": "replay_x", "args": {"case": list(case)}}
    with warnings.catch_warnings(), dask.config.set({"dataframe.shuffle.method": "tasks"}):
        warnings.simplefilter("ignore")
        a = dx.from_pandas(pdf[["ki", "v"]].rename(columns={"ki": "k"}), npartitions=nin1, sort=False)
        variants = {
            "float-column": dx.from_pandas(pdf[["kf", "v"]].rename(columns={"kf": "k"}), npartitions=nin2, sort=False),
            "int-index-by-name": dx.from_pandas(pdf[["ki", "v"]].set_index("ki").rename_axis("k"), npartitions=nin2, sort=False),
            "float-index-by-name": dx.from_pandas(pdf[["kf", "v"]].set_index("kf").rename_axis("k"), npartitions=nin2, sort=False),
            "float32-column": dx.from_pandas(pdf[["kf", "v"]].rename(columns={"kf": "k"}).astype({"k": "float32"}), npartitions=nin2, sort=False),
            "nullable-Int64-column": dx.from_pandas(pdf[["ki", "v"]].rename(columns={"ki": "k"}).astype({"k": "Int64"}), npartitions=nin2, sort=False),
            "UInt8-column": dx.from_pandas(pdf[["ki", "v"]].rename(columns={"ki": "k"}).astype({"k": "UInt8"}), npartitions=nin2, sort=False),
            # the index carries the NAME of the key column but other values: the column is the key
            "int-column-under-equally-named-index": dx.from_pandas(pdf[["ki", "v"]].rename(columns={"ki": "k"}).set_axis(pd.Index((np.arange(len(pdf)) * 5) % 13, name="k")), npartitions=nin2, sort=False),
        }
        try:
            pa = [p.compute() for p in a.shuffle("k", npartitions=nout).to_delayed()]
        except Exception as ex:
            viol(out, "C12.R.cross:raises", sig, f"{type(ex).__name__}: {str(ex)[:160]}", replay)
            return
        place = {}
        for pi, p in enumerate(pa):
            for k in p.k.tolist():
                place[float(k)] = pi
        for vname, b in variants.items():
            try:
                pb = [p.compute() for p in b.shuffle("k", npartitions=nout).to_delayed()]
            except Exception as ex:
                viol(out, "C12.R.cross:raises", f"{sig}|{vname}", f"{type(ex).__name__}: {str(ex)[:160]}", replay)
                continue
            bump(out, "C12.R.cross:same-key-same-partition-across-dtypes", f"{sig}|{vname}", rule="int column vs float64 / float32 / nullable Int64 / UInt8 column, int index, float index, column under an equally named index holding equal key values, equal npartitions")
            for pi, p in enumerate(pb):
                ks = p.k.tolist() if "k" in p.columns else p.index.tolist()
                bad = [k for k in ks if place.get(float(k), pi) != pi]
                if bad:
                    viol(out, "C12.R.cross:key-placed-differently", f"{sig}|{vname}", f"key {bad[0]!r}: partition {place[float(bad[0])]} in the int-column frame, {pi} in the {vname} frame", replay)
                    break
        # the same key NAMED differently in the call: by label, by a list of labels, as a key Series, as a one-column key
        # frame (seed C12_7: a key Series hashed as a Series instead of as a one-column frame gets other partition numbers)
        bf = variants["float-column"]
        key_forms = {
            "int-column/on=['k']": lambda: a.shuffle(["k"], npartitions=nout),
            "int-column/on=a.k (Series)": lambda: a.shuffle(a.k, npartitions=nout),
            "int-column/on=a[['k']] (DataFrame)": lambda: a.shuffle(a[["k"]], npartitions=nout),
            "float-column/on=b.k (Series)": lambda: bf.shuffle(bf.k, npartitions=nout),
            "float-column/on=b[['k']] (DataFrame)": lambda: bf.shuffle(bf[["k"]], npartitions=nout),
            "int-column/on=a.k (Series)/disk": lambda: a.shuffle(a.k, npartitions=nout, shuffle_method="disk"),
        }
        for vname, mk in key_forms.items():
            try:
                pb = [p.compute() for p in mk().to_delayed()]
            except Exception as ex:
                viol(out, "C12.R.cross:raises", f"{sig}|{vname}", f"{type(ex).__name__}: {str(ex)[:160]}", replay)
                continue
            bump(out, "C12.R.cross:same-key-same-partition-across-key-forms", f"{sig}|{vname}", rule="the key of one frame given by label / list of labels / key Series / one-column key frame, int and float values, equal npartitions")
            if sorted(v for p in pb for v in p.v.tolist()) != sorted(pdf.v.tolist()):
                viol(out, "C12.R.cross:not-a-permutation", f"{sig}|{vname}", f"{sum(len(p) for p in pb)} rows out, {len(pdf)} rows in", replay)
                continue
            for pi, p in enumerate(pb):
                bad = [k for k in p.k.tolist() if place.get(float(k), pi) != pi]
                if bad:
                    viol(out, "C12.R.cross:key-placed-differently", f"{sig}|{vname}", f"key {bad[0]!r}: partition {place[float(bad[0])]} in the frame shuffled on='k', {pi} in the frame shuffled with {vname}", replay)
                    break
        # the consumer relying on it: a hash join of the int-keyed and the float-keyed frame
        try:
            m = a.merge(variants["float-column"], on="k", how=how, broadcast=False)
            got = m.compute()
            exp = pdf[["ki", "v"]].rename(columns={"ki": "k"}).merge(pdf[["kf", "v"]].rename(columns={"kf": "k"}), on="k", how=how)
            bump(out, "C12.R.cross:hash-join-row-count", sig, rule="hash join int-keyed x float-keyed frame against pandas")
            if len(got) != len(exp):
                viol(out, "C12.R.cross:hash-join-loses-rows", sig, f"{len(got)} rows, pandas {len(exp)}", replay)
        except Exception as ex:
            viol(out, "C12.R.cross:raises", f"{sig}|merge", f"{type(ex).__name__}: {str(ex)[:160]}", replay)
        # two-column key, the two frames store the key columns in a different column order
        try:
            two = pdf[["ki", "ks", "v"]].rename(columns={"ki": "k1", "ks": "k2"})
            fa = dx.from_pandas(two[["k1", "k2", "v"]], npartitions=nin1, sort=False)
            fb = dx.from_pandas(two[["v", "k2", "k1"]].assign(v=two.v + 1000), npartitions=nin2, sort=False)
            pa2 = [p.compute() for p in fa.shuffle(["k1", "k2"], npartitions=nout).to_delayed()]
            pb2 = [p.compute() for p in fb.shuffle(["k1", "k2"], npartitions=nout).to_delayed()]
            bump(out, "C12.R.cross:two-column-key-same-partition-across-column-orders", sig, rule="key (k1, k2) in frames storing the columns as k1,k2,v and v,k2,k1")
            place2 = {}
            for pi, p in enumerate(pa2):
                for k in zip(p.k1.tolist(), p.k2.tolist()):
                    place2[k] = pi
            for pi, p in enumerate(pb2):
                bad = [k for k in zip(p.k1.tolist(), p.k2.tolist()) if place2.get(k, pi) != pi]
                if bad:
                    viol(out, "C12.R.cross:key-placed-differently", f"{sig}|two-column-key|column-order", f"key {bad[0]!r}: partition {place2[bad[0]]} in the (k1,k2,v) frame, {pi} in the (v,k2,k1) frame", replay)
                    break
            m2 = fa.merge(fb, on=["k1", "k2"], how=how, broadcast=False).compute()
            e2 = two[["k1", "k2", "v"]].merge(two[["v", "k2", "k1"]].assign(v=two.v + 1000), on=["k1", "k2"], how=how)
            bump(out, "C12.R.cross:hash-join-row-count", f"{sig}|two-column-key", rule="hash join int-keyed x float-keyed frame against pandas")
            if len(m2) != len(e2):
                viol(out, "C12.R.cross:hash-join-loses-rows", f"{sig}|two-column-key", f"{len(m2)} rows, pandas {len(e2)}", replay)
        except Exception as ex:
            viol(out, "C12.R.cross:raises", f"{sig}|two-column-key", f"{type(ex).__name__}: {str(ex)[:160]}", replay)
        # two-column key of which ONE part is the named index of one input (int64) and a float64 column of the other:
        # both inputs of the hash join must be placed by the whole key (seed C12_8: the side whose key list mentions
        # the index name was partitioned by the index alone)
        left_p = pdf[["ki", "v"]].assign(r=pdf.v.to_numpy() % 3).set_index("ki").rename_axis("k1")
        right_p = pd.DataFrame({"p": pdf.kf.to_numpy(), "q": pdf.v.to_numpy() % 3, "w": pdf.v.to_numpy() + 1000})
        for sort in (False, True):
            for method in ("tasks", "disk"):
                if method == "disk" and (sort or how != "inner"):
                    continue
                lbl = f"{sig}|index-level+column-key|sort={sort}|{method}"
                try:
                    dl = dx.from_pandas(left_p, npartitions=nin1, sort=sort)
                    dr = dx.from_pandas(right_p, npartitions=nin2, sort=False)
                    for mirrored in (False, True):
                        if not mirrored:
                            got = dl.merge(dr, left_on=["k1", "r"], right_on=["p", "q"], how=how, broadcast=False, shuffle_method=method).compute()
                            exp = left_p.merge(right_p, left_on=["k1", "r"], right_on=["p", "q"], how=how)
                        else:
                            got = dr.merge(dl, left_on=["q", "p"], right_on=["r", "k1"], how=how, broadcast=False, shuffle_method=method).compute()
                            exp = right_p.merge(left_p, left_on=["q", "p"], right_on=["r", "k1"], how=how)
                        bump(out, "C12.R.cross:hash-join-row-count", f"{lbl}|mirrored={mirrored}", rule="hash join int-keyed x float-keyed frame against pandas")
                        pairs = lambda x: sorted((int(a_), int(b_)) for a_, b_ in zip(x.v.fillna(-1), x.w.fillna(-1)))
                        if len(got) != len(exp):
                            viol(out, "C12.R.cross:hash-join-loses-rows", f"{lbl}|mirrored={mirrored}", f"{len(got)} rows, pandas {len(exp)}", replay)
                        elif pairs(got) != pairs(exp):
                            viol(out, "C12.R.cross:hash-join-pairs-other-rows", f"{lbl}|mirrored={mirrored}", f"the (v, w) pairs differ from pandas; first {pairs(got)[:3]} vs {pairs(exp)[:3]}", replay)
                except Exception as ex:
                    viol(out, "C12.R.cross:raises", lbl, f"{type(ex).__name__}: {str(ex)[:160]}", replay)


def replay_r(case):
    from vf.rt.pool import _init

    _init()
    out = {"counts": {}, "violations": [], "samples": [], "errors": [], "notes": {}}
    c = list(case)
    c[0] = tuple(c[0]) if isinstance(c[0], list) else c[0]
    c[6] = tuple(c[6]) if c[6] is not None else None
    r_case(tuple(c), {}, out)
    for v in out["violations"]:
        print(v["contract"], "|", v["signature"], "|", v["detail"][:300])
    return bool(out["violations"])


def replay_x(case):
    from vf.rt.pool import _init

    _init()
    out = {"counts": {}, "violations": [], "samples": [], "errors": [], "notes": {}}
    x_case(tuple(case), {}, out)
    for v in out["violations"]:
        print(v["contract"], "|", v["signature"], "|", v["detail"][:300])
    return bool(out["violations"])


def run(run):
    from vf.rt import graphsem as G

    n, bad = G.check_assumed_contracts()
    run.count("C12.assumed-contracts:cross-checked-against-real-functions", n, "assumed", tier="R", rule="assumed contracts of shuffle_group / shuffle_group_2 / shuffle_group_get / boundary_slice / split_evenly / concat evaluated against the real dask functions on small frames")
    for b in bad:
        run.errors.append(f"assumed contract disagrees with the real function: {b!r}"[:300])
    run_cases(run, "vf.props.C12", "s_case", s_cases(run.tier), {}, chunk=6)
    ons = ["ki", "kf", "ks", "kn", "kc", ("ki", "ks"), "__index__", "id"]
    grid = []
    for on in ons:
        for (nin, nout) in ((3, 3), (3, 5), (5, 2), (7, 7)) if run.tier == "quick" else ((1, 4), (3, 3), (3, 5), (5, 2), (7, 7), (9, 13), (12, 5)):
            for method, mb in (("tasks", None), ("tasks", 2), ("disk", None)):
                if method == "disk" and (nin, nout) not in ((3, 5), (7, 7)):
                    continue
                grid.append((on, nin, nout, method, mb, False, None))
        grid.append((on, 4, 6, "tasks", 2, True, None))
        grid.append((on, 5, 9, "tasks", 2, False, (0, 2, 4, 6)))
        grid.append((on, 7, 9, "tasks", 2, False, (1, 2, 3, 4, 5, 8)))
        grid.append((on, 3, 4, "tasks", None, False, (3, 1)))
        if on in ("ki", "ks", ("ki", "ks"), "__index__"):
            grid.append((on, 4, 6, "disk", None, False, (3, 4, 5)))
    run_cases(run, "vf.props.C12", "r_case", grid, {}, chunk=3)
    xs = [(a, b, n, how) for (a, b, n) in ((3, 4, 5), (2, 6, 6), (5, 5, 3)) for how in ("inner", "left")]
    run_cases(run, "vf.props.C12", "x_case", xs, {}, chunk=1)
    run.assume("hash quality and the p2p shuffle are outside the claim; disk shuffle is only checked end-to-end (tier R)")
    from vf.contracts.registry import run_property_specs

    run_property_specs(run, "C12")
    run.trust("abstract graph interpreter vf/rt/graphsem.py with assumed contracts for dask.dataframe.shuffle.{shuffle_group, shuffle_group_2, shuffle_group_get}, dask.dataframe.core._concat, operator.getitem (cross-checked on every run)")
    run.assume("A2: the float expressions stages = ceil(log(n_in)/log(max_branch)) and nsplits = ceil(n_in ** (1/stages)) are executed concretely in CPython for every (n_in, max_branch) of the bound, not proved")
