"""C09 - node-wise run-time contracts (bounded) + tier-P kernels where available; see DESIGN.md section 5."""
from vf.props._nodewise_driver import standard_run


def run(run):
    standard_run(run, "C09")
