"""C11 - selecting partitions / head / tail commutes with the computation (bounded; DESIGN 5 C11)."""
from __future__ import annotations

import itertools
import os
import shutil
import tempfile
import warnings

import numpy as np
import pandas as pd

from vf.rt import cases as K
from vf.rt import corpus as C
from vf.rt import den as D
from vf.rt.pool import bump, run_cases, viol

RULE = "program-or-source x layout x selection; non-trivial iff the selection is not the identity and the collection has >= 2 partitions"


def _parts_of(coll):
    """Per-partition outputs of the fully computed (optimized) collection."""
    with warnings.catch_warnings():
        warnings.simplefilter("ignore")
        o = coll.optimize(fuse=False)
        low = o.expr.lower_completely()
        return D.execute_lowered(low)


def selections(n, rng):
    sels = [[0], [n - 1], list(range(n))]
    if n >= 2:
        sels += [[1], [n - 1, 0], [0, 0], list(range(1, n))]
    if n >= 3:
        sels += [[2, 0], [1, 2], [n - 2, n - 1], [1, 1, 0]]
    if n >= 4:
        sels += [list(range(0, n, 2)), [3, 1]]
    out = []
    for s in sels:
        if s not in out:
            out.append(s)
    return out


def _concat(parts):
    parts = list(parts)
    if not parts:
        return None
    if all(isinstance(p, pd.Index) for p in parts):
        out = parts[0]
        for p in parts[1:]:
            out = out.append(p)
        return out
    return pd.concat(parts)


def check_collection(q, cid, prog_order_free, out, replay, rng, index_free=False, plan_dependent_layout=False):
    try:
        if not hasattr(q, "partitions"):
            return
        q.npartitions
    except Exception as ex:
        out["notes"][f"npartitions raises: {cid}"] = f"{type(ex).__name__}: {str(ex)[:80]}"
        return
    try:
        parts = _parts_of(q)
    except Exception as ex:
        out["notes"][f"full compute fails: {cid}"] = f"{type(ex).__name__}: {str(ex)[:80]}"
        return
    if not all(isinstance(p, (pd.DataFrame, pd.Series, pd.Index)) for p in parts):
        return
    n = q.npartitions
    if len(parts) != n:
        return  # C06's business
    for sel in selections(n, rng):
        nontrivial = n >= 2 and sel != list(range(n))
        bump(out, "C11.partitions:x.partitions[P]==parts[P]", f"{cid}|{sel}" if nontrivial else None, rule=RULE)
        exp = _concat([parts[p] for p in sel])
        if plan_dependent_layout and sel != list(range(n)):
            # quantile-based sorts: the partition boundaries depend on what the optimizer moves below the
            # sort, so the reference is the same selection evaluated without optimization
            ref = D.den(q.partitions[sel].expr, cache=False)
            if ref[0] == "err":
                continue
            exp = ref[1]
        try:
            with warnings.catch_warnings():
                warnings.simplefilter("ignore")
                got = q.partitions[sel].compute()
        except Exception as ex:
            viol(out, "C11.partitions:selection-raises", f"{cid}|P={sel}", f"{type(ex).__name__}: {str(ex)[:200]} (the full collection computes)", replay)
            continue
        r = D.equiv(got, exp, index_free=index_free)
        if r is False and prog_order_free:
            r = D.equiv(got, exp, order_free=True)
        if r is False:
            viol(out, "C11.partitions:x.partitions[P]!=parts[P]", f"{cid}|P={sel}", f"got={D.describe(got)} expected={D.describe(exp)}", replay)
    # to_delayed
    try:
        with warnings.catch_warnings():
            warnings.simplefilter("ignore")
            dl = q.to_delayed()
            vals = [d.compute() for d in dl]
        bump(out, "C11.to_delayed:parts", cid, rule="to_delayed() yields the partitions of the computed collection")
        if len(vals) != n:
            viol(out, "C11.to_delayed:count", cid, f"{len(vals)} delayed objects, npartitions={n}", replay)
        else:
            for i, (a, b) in enumerate(zip(vals, parts)):
                r = D.equiv(a, b)
                if r is False and prog_order_free:
                    r = D.equiv(a, b, order_free=True)
                if r is False:
                    viol(out, "C11.to_delayed:partition-differs", f"{cid}|partition={i}", f"got={D.describe(a)} expected={D.describe(b)}", replay)
                    break
    except Exception as ex:
        viol(out, "C11.to_delayed:raises", cid, f"{type(ex).__name__}: {str(ex)[:200]}", replay)
    # head / tail
    if prog_order_free:
        return
    whole = _concat(parts)

    def _rows(x, a, b):
        return x[a:b] if isinstance(x, pd.Index) else x.iloc[a:b]

    for nrows, k in [(3, 1), (2, 2), (7, 2), (4, -1), (50, -1), (5, n)]:
        if k > n:
            continue
        sub = _concat(parts if k == -1 else parts[:k])
        exp = _rows(sub, 0, nrows)
        bump(out, "C11.head:first-n-rows-of-first-k-partitions", f"{cid}|{nrows},{k}" if n >= 2 else None, rule=RULE)
        try:
            with warnings.catch_warnings():
                warnings.simplefilter("ignore")
                got = q.head(nrows, npartitions=k)
        except Exception as ex:
            viol(out, "C11.head:raises", f"{cid}|head({nrows}, npartitions={k})", f"{type(ex).__name__}: {str(ex)[:200]}", replay)
            continue
        # When the first k partitions hold fewer than n rows dask only warns; pushing head below a sort may
        # then return further rows of the following partitions: accepted iff the result is a prefix of the
        # whole collection, at least as long as the first-k-partitions answer and at most n rows.
        ok = len(exp) <= len(got) <= nrows and D.equiv(got, _rows(whole, 0, len(got)), index_free=index_free) is not False
        if plan_dependent_layout and not ok:
            ref = D.den(q.head(nrows, npartitions=k, compute=False).expr, cache=False)
            ok = ref[0] == "err" or D.equiv(got, ref[1], index_free=index_free) is not False or (len(got) <= nrows and D.equiv(got, _rows(whole, 0, len(got)), index_free=index_free) is not False)
        if not ok:
            viol(out, "C11.head:differs", f"{cid}|head({nrows}, npartitions={k})", f"got={D.describe(got)} expected={D.describe(exp)}", replay)
    for nrows in (2, 5):
        last = parts[-1]
        exp = _rows(last, max(len(last) - nrows, 0), None)
        bump(out, "C11.tail:last-n-rows-of-last-partition", f"{cid}|{nrows}" if n >= 2 else None, rule=RULE)
        try:
            with warnings.catch_warnings():
                warnings.simplefilter("ignore")
                got = q.tail(nrows)
        except Exception as ex:
            viol(out, "C11.tail:raises", f"{cid}|tail({nrows})", f"{type(ex).__name__}: {str(ex)[:200]}", replay)
            continue
        ok = len(exp) <= len(got) <= nrows and D.equiv(got, _rows(whole, len(whole) - len(got), None), index_free=index_free) is not False
        if not ok:
            viol(out, "C11.tail:differs", f"{cid}|tail({nrows})", f"got={D.describe(got)} expected={D.describe(exp)}", replay)
    # head of a head / tail of a tail: the outer selection never returns more than the inner one holds
    for inner, outer in ((2, 5), (4, 3)):
        for kind in ("head", "tail"):
            try:
                with warnings.catch_warnings():
                    warnings.simplefilter("ignore")
                    first = getattr(q, kind)(inner, compute=False)
                    exp = first.compute()
                    got = getattr(first, kind)(outer)
            except Exception as ex:
                viol(out, f"C11.{kind}:raises", f"{cid}|{kind}({inner}).{kind}({outer})", f"{type(ex).__name__}: {str(ex)[:200]}", replay)
                continue
            bump(out, f"C11.{kind}:nested", f"{cid}|{inner},{outer}", rule="x.head(a).head(b) / x.tail(a).tail(b) against the first / last min(a, b) rows of the computed inner selection")
            want = _rows(exp, 0, outer) if kind == "head" else _rows(exp, max(len(exp) - outer, 0), None)
            if D.equiv(got, want, index_free=index_free) is False:
                viol(out, f"C11.{kind}:differs", f"{cid}|{kind}({inner}).{kind}({outer})", f"got={D.describe(got)} expected={D.describe(want)}", replay)


def check_case(case, common, out):
    import random
    import zlib

    cid = K.case_id(case)
    rng = random.Random(zlib.crc32(cid.encode()) & 0xFFFF)  # not hash(): str hashes differ between interpreters, the sampled orders must not
    try:
        prog, q = K.build(case)
    except Exception as ex:
        out["notes"][f"refused at construction: {case[3]}"] = f"{type(ex).__name__}: {str(ex)[:80]}"
        return
    replay = {"kind": "call", "module": "vf.props.C11", "func": "replay_case", "args": {"case": list(case)}}
    toks = set(case[3].split(":"))
    if prog.undefined:
        return
    if "idx" in toks and prog.index_free:
        return  # the result IS the labels that the program leaves undefined
    check_collection(q, cid, prog.order_free, out, replay, rng, index_free=prog.index_free, plan_dependent_layout=("sort" in prog.tags or bool(toks & {"repart2", "repart5"}) or "repartition" in case[3]))
    if len(out["samples"]) < 2:
        out["samples"].append({"case": cid})


# ---- data sources ---------------------------------------------------------------------------
def source_collections(tmp):
    """name -> collection, for every kind of source the property lists."""
    import dask
    import dask_expr as dx
    from dask import delayed

    pdf = C.tables(20)["df"]
    out = {}
    out["from_pandas"] = dx.from_pandas(pdf, npartitions=4)
    out["from_pandas_unsorted"] = dx.from_pandas(pdf.iloc[::-1], npartitions=3, sort=False)
    out["from_array"] = dx.from_array(np.arange(44).reshape(11, 4), chunksize=3, columns=list("wxyz"))
    out["from_array_1d"] = dx.from_array(np.arange(10), chunksize=3)
    pieces = [pdf.iloc[0:5], pdf.iloc[5:6], pdf.iloc[6:14], pdf.iloc[14:20]]
    out["from_map"] = dx.from_map(C._identity, pieces, meta=pdf.iloc[:0], enforce_metadata=False)
    out["from_map_divs"] = dx.from_map(C._identity, pieces, meta=pdf.iloc[:0], divisions=(0, 5, 6, 14, 19), enforce_metadata=False)
    out["from_delayed"] = dx.from_delayed([delayed(p) for p in pieces], meta=pdf.iloc[:0])
    out["from_delayed_prefix"] = dx.from_delayed([delayed(p) for p in pieces], meta=pdf.iloc[:0], prefix="mydata", divisions=(0, 5, 6, 14, 19))
    out["persisted"] = dx.from_pandas(pdf, npartitions=4).assign(z=1).persist()
    csvdir = os.path.join(tmp, "csv")
    os.makedirs(csvdir, exist_ok=True)
    for i, p in enumerate(pieces):
        p.drop(columns=["e"]).to_csv(os.path.join(csvdir, f"part{i}.csv"), index=False)
    out["read_csv"] = dx.read_csv(os.path.join(csvdir, "*.csv"))
    pqdir = os.path.join(tmp, "pq")
    dx.from_pandas(pdf, npartitions=5).to_parquet(pqdir)
    out["read_parquet_fsspec"] = dx.read_parquet(pqdir, filesystem="fsspec")
    out["read_parquet_arrow"] = dx.read_parquet(pqdir, filesystem="arrow")
    out["read_parquet_arrow_divs"] = dx.read_parquet(pqdir, filesystem="arrow", calculate_divisions=True)
    from dask_expr.datasets import timeseries

    out["timeseries"] = timeseries(start="2000-01-01", end="2000-01-05", freq="6h", partition_freq="1D", seed=3)
    return out


CHAINS = {
    "id": lambda x: x,
    "elemwise": lambda x: x + 1 if not hasattr(x, "columns") else x.assign(zz=1),
    "filter_first_col": lambda x: x[x[x.columns[0]] == x[x.columns[0]]] if hasattr(x, "columns") else x[x == x],
    "bcast": lambda x: (x[x.columns[0]] if hasattr(x, "columns") else x).pipe(lambda s: s.astype("float64") if False else s).pipe(lambda s: s.to_frame().assign(m=1).iloc[:, 0]) if False else (x[x.columns[0]] if hasattr(x, "columns") else x),
}


def check_source(case, common, out):
    import random

    sname, chain = case
    tmp = tempfile.mkdtemp(prefix="verif_c11_")
    try:
        src = source_collections(tmp)[sname]
        q = src
        if chain == "elemwise":
            q = src.assign(zz=1) if (getattr(src, "ndim", 1) == 2) else src + 1
        elif chain == "filter":
            c0 = src.columns[0] if (getattr(src, "ndim", 1) == 2) else None
            q = src[src[c0].notnull()] if c0 is not None else src[src.notnull()]
        elif chain == "bcast":
            c0 = src.columns[-1] if (getattr(src, "ndim", 1) == 2) else None
            s = src[c0] if c0 is not None else src
            if str(s.dtype).startswith(("int", "float")):
                q = s - s.min()
            else:
                q = s
        elif chain == "proj":
            q = src[[src.columns[-1]]] if (getattr(src, "ndim", 1) == 2) else src
        cid = f"source={sname}|chain={chain}"
        replay = {"kind": "call", "module": "vf.props.C11", "func": "replay_source", "args": {"case": list(case)}}
        check_collection(q, cid, False, out, replay, random.Random(1))
    finally:
        shutil.rmtree(tmp, ignore_errors=True)


def replay_case(case):
    from vf.rt.pool import _init

    _init()
    out = {"counts": {}, "violations": [], "samples": [], "errors": [], "notes": {}}
    ls = case[2]
    ls = (ls[0], tuple(tuple(x) if isinstance(x, list) else x for x in ls[1]) if isinstance(ls[1], list) else ls[1], ls[2])
    check_case((case[0], case[1], ls, case[3]), {}, out)
    for v in out["violations"]:
        print(v["contract"], "|", v["signature"], "|", v["detail"][:300])
    return bool(out["violations"])


def replay_source(case):
    from vf.rt.pool import _init

    _init()
    out = {"counts": {}, "violations": [], "samples": [], "errors": [], "notes": {}}
    check_source(tuple(case), {}, out)
    for v in out["violations"]:
        print(v["contract"], "|", v["signature"], "|", v["detail"][:300])
    return bool(out["violations"])


# head()/tail() of a sorted frame are tree reductions over the INPUT partitions (NFirst / NLast, batches of split_every = 8):
# these programs are also run on more input partitions than one batch holds, so that the combine level exists
MANY_INPUT_PARTITIONS = ["sort_unique", "sort_two", "sort_scrambled_key", "sort_scrambled_key_desc", "set_index_scrambled_key", "set_index_unique", "set_index_filter"]

SOURCES = ["from_pandas", "from_pandas_unsorted", "from_array", "from_array_1d", "from_map", "from_map_divs", "from_delayed", "from_delayed_prefix", "persisted", "read_csv", "read_parquet_fsspec", "read_parquet_arrow", "read_parquet_arrow_divs", "timeseries"]


def run(run):
    import random

    rng = random.Random(run.seed)
    hand = [n for n, p in C.PROGRAMS.items() if "head" not in p.tags and "tail" not in p.tags]
    d1 = [n for n in C.generated_depth1(["id", "cols_ub", "filter_b", "col_a"]) if not (set(n.split(":")) & {"head_all", "head_k2", "tail", "parts"})]
    if run.tier == "quick":
        cases = K.standard_cases(hand, ["range"], [("np", 3, True)]) + K.standard_cases(hand[::2], ["dupint"], [("np", 4, False)]) + K.standard_cases(d1, ["range"], [("np", 4, True)])
        cases += K.standard_cases(MANY_INPUT_PARTITIONS, ["range"], [("np", 12, True)], n=36)
    else:
        cases = K.standard_cases(hand + d1, ["range", "dupint", "str"], [("np", 2, True), ("np", 3, True), ("np", 5, False), ("np", 7, True)])
        cases += K.standard_cases(MANY_INPUT_PARTITIONS, ["range"], [("np", 12, True), ("np", 20, False)], n=40)
        cases += K.standard_cases([n for n in C.generated_depth2(rng, 1500) if not (set(n.split(":")) & {"head_all", "head_k2", "tail", "parts", "head3", "tail2", "part1", "head4_all"})], ["range"], [("np", 4, True)])
    run_cases(run, "vf.props.C11", "check_case", cases, {})
    src_cases = [(s, c) for s in SOURCES for c in ("id", "elemwise", "filter", "bcast", "proj")]
    run_cases(run, "vf.props.C11", "check_source", src_cases, {}, chunk=2)
    from vf.contracts.registry import run_property_specs

    run_property_specs(run, "C11")
    run.assume("the partitions of 'the fully computed collection' are those of its optimized (fuse=False) plan executed with dask.get")
    run.trust("vf/rt/corpus.py program catalogue; temporary csv/parquet datasets written under a private temp directory and removed")
