"""C14 - blockwise fusion only changes task granularity (bounded run-time contracts; DESIGN 5 C14)."""
from __future__ import annotations

import warnings

import pandas as pd

from vf.rt import cases as K
from vf.rt import corpus as C
from vf.rt import den as D
from vf.rt import nodewise as N
from vf.rt.pool import bump, run_cases, viol

RULE = "program x layout: fused plan against the unfused simplified-physical plan; non-trivial iff at least one Fused node was built"


def _parts(plan):
    with D.suspended(), warnings.catch_warnings():
        warnings.simplefilter("ignore")
        try:
            low = plan.lower_completely()
            return ("ok", D.execute_lowered(low))
        except Exception as ex:
            return ("err", f"{type(ex).__name__}: {str(ex)[:200]}")


def fused_invariants(fused):
    """Data-structure invariant of every Fused node + closure of its per-partition sub-graph."""
    from dask_expr._expr import Fused

    out = []
    n = 0
    for node in N.iter_nodes(fused):
        if not isinstance(node, Fused):
            continue
        n += 1
        members = {e._name for e in node.exprs}
        deps = {d._name for d in node.dependencies()}
        root = node.exprs[0]
        for e in node.exprs:
            for op in e.dependencies():
                if op._name not in members and op._name not in deps:
                    out.append(("fused-operand-escapes", f"{type(e).__name__} operand {type(op).__name__} is neither a member nor a dependency of {node._name[:40]}"))
            if isinstance(e, Fused):
                continue
            if e.npartitions != root.npartitions and not e.npartitions == 1:
                out.append(("fused-member-partition-count", f"member {type(e).__name__} has {e.npartitions} partitions, root has {root.npartitions}"))
        for i in range(node.npartitions):
            try:
                task = node._task(i)
            except Exception as ex:
                out.append(("fused-task-raises", f"_task({i}): {type(ex).__name__}: {str(ex)[:120]}"))
                break
            sub = task[1]
            if (node._name if not isinstance(task[2], tuple) else task[2]) is None:
                pass
            outkey = task[2]
            if outkey not in sub:
                out.append(("fused-output-undefined", f"_task({i}) output {outkey!r} not defined in its sub-graph"))
            names = {k[0] for k in sub if isinstance(k, tuple)}
            for k, v in sub.items():
                for ref in N._key_like_refs(v, names):
                    if ref not in sub:
                        out.append(("fused-dangling-reference", f"_task({i}): {str(k)[:60]} references {str(ref)[:60]} which the sub-graph does not define"))
                        break
            # placeholders "_<k>" must be bound to exactly the external arguments
            nargs = len(task) - 3
            place = sorted(v for v in sub.values() if isinstance(v, str) and v.startswith("_") and v[1:].isdigit())
            if place and int(place[-1][1:]) >= nargs:
                out.append(("fused-placeholder-unbound", f"_task({i}) uses placeholder {place[-1]} but only {nargs} arguments are passed"))
            for k_, key in enumerate(task[3:]):
                if sub.get(key, "<missing>") not in {f"_{j}" for j, other in enumerate(task[3:]) if other == key}:
                    out.append(("fused-input-bound-to-wrong-position", f"_task({i}): input #{k_} {str(key)[:60]} is bound to {sub.get(key, '<missing>')!r}, expected '_{k_}'"))
                    break
            if out:
                break
    return n, out


def check_case(case, common, out):
    from dask_expr._expr import optimize_blockwise_fusion, optimize_until

    cid = K.case_id(case)
    try:
        prog, q = K.build(case)
    except Exception as ex:
        out["notes"][f"refused at construction: {case[3]}"] = f"{type(ex).__name__}: {str(ex)[:80]}"
        return
    if not hasattr(q, "expr") or prog.undefined:
        return
    replay = {"kind": "call", "module": "vf.props.C14", "func": "replay_case", "args": {"case": list(case)}}
    D.clear_cache()
    variants = [("plain", q.expr)]
    if common.get("nested"):
        # re-optimizing an already fused collection builds nested groups
        try:
            variants.append(("reoptimized", (q.optimize(fuse=True) + 0 if False else q.optimize(fuse=True)).expr))
        except Exception:
            pass
    for vname, expr in variants:
        try:
            plan = optimize_until(expr, "simplified-physical")
        except Exception:
            continue  # C01's business
        ref = _parts(plan)
        if ref[0] == "err":
            continue
        try:
            fused = optimize_blockwise_fusion(plan)
        except Exception as ex:
            viol(out, "C14.fusion:raises", f"{cid}|{vname}", f"{type(ex).__name__}: {str(ex)[:200]}", replay)
            continue
        nf, inv = fused_invariants(fused)
        bump(out, "C14.fusion:partitions-divisions-schema-unchanged", cid if nf else None, rule=RULE)
        for kind, detail in inv:
            viol(out, f"C14.fused-invariant:{kind}", f"{cid}|{vname}", detail, replay)
        if fused.npartitions != plan.npartitions:
            viol(out, "C14.fusion:npartitions-changed", f"{cid}|{vname}", f"{plan.npartitions} -> {fused.npartitions}", replay)
        if tuple(fused.divisions) != tuple(plan.divisions) and not (all(pd.isna(d) if d is not None else True for d in fused.divisions) and all(pd.isna(d) if d is not None else True for d in plan.divisions)):
            viol(out, "C14.fusion:divisions-changed", f"{cid}|{vname}", f"{str(plan.divisions)[:120]} -> {str(fused.divisions)[:120]}", replay)
        try:
            m0, m1 = plan._meta, fused._meta
            if type(m0) is not type(m1) or (hasattr(m0, "columns") and list(m0.columns) != list(m1.columns)) or (hasattr(m0, "dtypes") and hasattr(m0, "columns") and list(map(str, m0.dtypes)) != list(map(str, m1.dtypes))):
                viol(out, "C14.fusion:schema-changed", f"{cid}|{vname}", f"{D.describe(m0)[:120]} -> {D.describe(m1)[:120]}", replay)
        except NotImplementedError:
            pass
        got = _parts(fused)
        if got[0] == "err":
            viol(out, "C14.fusion:fused-plan-fails", f"{cid}|{vname}", got[1], replay)
            continue
        if len(got[1]) != len(ref[1]):
            viol(out, "C14.fusion:partition-count-differs", f"{cid}|{vname}", f"{len(ref[1])} -> {len(got[1])}", replay)
            continue
        for i, (a, b) in enumerate(zip(ref[1], got[1])):
            r = D.equiv(a, b)
            if r is False and (prog.order_free or "sort" in prog.tags):
                # a disk/task shuffle may order rows inside a partition differently between two executions
                r = D.equiv(a, b, order_free=True)
            if r is False:
                viol(out, "C14.fusion:partition-content-differs", f"{cid}|{vname}|partition={i}", f"unfused={D.describe(a)} fused={D.describe(b)}", replay)
                break
    # the public path: optimize(fuse=True) against optimize(fuse=False)
    try:
        unf = q.optimize(fuse=False).expr
    except Exception:
        unf = None  # C01's business
    if unf is not None:
        ref = _parts(unf)
        if ref[0] == "ok":
            bump(out, "C14.public:optimize(fuse=True)~optimize(fuse=False)", cid, rule="every program x layout: partitions of optimize(fuse=True) against optimize(fuse=False)")
            try:
                fz = q.optimize(fuse=True).expr
                got = _parts(fz)
            except Exception as ex:
                got = ("err", f"{type(ex).__name__}: {str(ex)[:200]}")
            if got[0] == "err":
                viol(out, "C14.public:fused-plan-fails", cid, got[1], replay)
            elif len(got[1]) != len(ref[1]):
                viol(out, "C14.public:partition-count-differs", cid, f"{len(ref[1])} -> {len(got[1])}", replay)
            else:
                for i, (a, b) in enumerate(zip(ref[1], got[1])):
                    r = D.equiv(a, b)
                    if r is False and (prog.order_free or "sort" in prog.tags):
                        r = D.equiv(a, b, order_free=True)
                    if r is False:
                        viol(out, "C14.public:partition-content-differs", f"{cid}|partition={i}", f"unfused={D.describe(a)} fused={D.describe(b)}", replay)
                        break
    if len(out["samples"]) < 2:
        out["samples"].append({"case": cid})


def replay_case(case):
    from vf.rt.pool import _init

    _init()
    out = {"counts": {}, "violations": [], "samples": [], "errors": [], "notes": {}}
    ls = case[2]
    ls = (ls[0], tuple(tuple(x) if isinstance(x, list) else x for x in ls[1]) if isinstance(ls[1], list) else ls[1], ls[2])
    check_case((case[0], case[1], ls, case[3]), {"nested": True}, out)
    for v in out["violations"]:
        print(v["contract"], "|", v["signature"], "|", v["detail"][:300])
    return bool(out["violations"])


def run(run):
    import random

    rng = random.Random(run.seed)
    hand = list(C.PROGRAMS)
    d1 = C.generated_depth1()
    if run.tier == "quick":
        cases = K.standard_cases(hand, ["range"], [("np", 3, True), ("np", 4, False)]) + K.standard_cases(d1 + C.generated_depth2(rng, 200), ["range"], [("np", 3, True)])
        cases += K.standard_cases(hand[::2], ["dupint"], [("np", 1, True), ("np", 5, True)])
    else:
        lays = [("np", 1, True), ("np", 2, True), ("np", 3, True), ("np", 5, False), ("np", 7, True)]
        cases = K.standard_cases(hand + d1, ["range", "dupint", "str", "dt"], lays)
        cases += K.standard_cases(C.generated_depth2(rng, 2500), ["range"], [("np", 3, True), ("np", 4, False)])
    run_cases(run, "vf.props.C14", "check_case", cases, {"nested": True})
    from vf.contracts.registry import run_property_specs

    run_property_specs(run, "C14")
    run.assume("per-partition comparison by executing both plans with dask.get; rows inside a shuffled partition compared as a multiset")
    run.trust("vf/rt/corpus.py program catalogue")
