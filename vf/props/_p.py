"""Shared helper: discharge a list of tier-P specs and file the results under a Run."""
from __future__ import annotations

import concurrent.futures as cf
import multiprocessing as mp
import os


def _one(args):
    modname, clsname = args
    import importlib
    import sys

    from vf.pyvc.spec import verify_spec

    spec = getattr(importlib.import_module(modname), clsname)()
    rep = verify_spec(spec)
    rep.spec_id = (modname, clsname)
    # make the report picklable: drop z3 objects
    rep.raw = []
    rep.spec = None
    return rep


def run_specs(run, specs, pid=None, parallel=True):
    """Verify all specs that list `pid` (or all if pid is None)."""
    import importlib

    todo = [s for s in specs if pid is None or pid in s.props]
    ids = [(type(s).__module__, type(s).__name__) for s in todo]
    reps = []
    if parallel and len(ids) > 2:
        ctx = mp.get_context("spawn")
        with cf.ProcessPoolExecutor(max_workers=min(8, len(ids)), mp_context=ctx) as ex:
            reps = list(ex.map(_one, ids))
    else:
        reps = [_one(i) for i in ids]
    for rep, s in zip(reps, todo):
        rep.spec = s
        run.add_function_report(rep)
    from vf.lemmas import check_lemma

    for name in sorted({l for s in todo for l in getattr(s, "lemmas", [])}):
        check_lemma(run, name)
    return reps
