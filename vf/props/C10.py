"""C10 - execution knobs change performance only, never results (bounded metamorphic contract; DESIGN 5 C10)."""
from __future__ import annotations

import itertools
import warnings

import numpy as np
import pandas as pd

from vf.rt import corpus as C
from vf.rt import den as D
from vf.rt.pool import bump, run_cases, viol

RULE = "program x layout x knob setting compared with the default setting and with pandas; distinct by program x layout x knob value"

SPLIT_EVERY = [False, 2, 3, 8]
SPLIT_OUT = [1, 2, 3, True]
BROADCAST = [None, True, False, 0.1, 2.0]
NPART = [None, 1, 2, 5]
UPSAMPLE = [1.0, 2.0]
MAX_BRANCH = [None, 2, 3, 8]
METHOD = ["tasks", "disk"]


def _kw(**k):
    return {a: b for a, b in k.items() if b is not None and b != "default"}


# name -> (function(dask frames, knobs) , pandas function, knob grid, order_free, index_free)
def _programs():
    P = {}

    def add(name, dask_fn, pandas_fn, grid, order_free=False, index_free=False):
        P[name] = (dask_fn, pandas_fn, grid, order_free, index_free)

    add("sum", lambda t, k: t.df.u.sum(**_kw(split_every=k["split_every"])), lambda t: t.df.u.sum(), {"split_every": SPLIT_EVERY})
    add("frame_mean", lambda t, k: t.df[["b", "u"]].mean(**_kw(split_every=k["split_every"])), lambda t: t.df[["b", "u"]].mean(), {"split_every": SPLIT_EVERY})
    add("frame_std", lambda t, k: t.df[["b", "u"]].std(**_kw(split_every=k["split_every"])), lambda t: t.df[["b", "u"]].std(), {"split_every": SPLIT_EVERY})
    add("count", lambda t, k: t.df.count(**_kw(split_every=k["split_every"])), lambda t: t.df.count(), {"split_every": SPLIT_EVERY})
    add("cov", lambda t, k: t.df[["a", "b", "u"]].cov(**_kw(split_every=k["split_every"])), lambda t: t.df[["a", "b", "u"]].cov(), {"split_every": SPLIT_EVERY})
    add("nlargest", lambda t, k: t.df.u.nlargest(5, **_kw(split_every=k["split_every"])), lambda t: t.df.u.nlargest(5), {"split_every": SPLIT_EVERY})
    add("value_counts", lambda t, k: t.df.a.value_counts(**_kw(split_every=k["split_every"], split_out=k["split_out"])), lambda t: t.df.a.value_counts(), {"split_every": SPLIT_EVERY, "split_out": SPLIT_OUT}, True)
    add("unique", lambda t, k: t.df.a.unique(**_kw(split_every=k["split_every"], split_out=k["split_out"])), lambda t: pd.Series(t.df.a.unique(), name="a"), {"split_every": SPLIT_EVERY, "split_out": SPLIT_OUT}, True, True)
    add("drop_duplicates", lambda t, k: t.df[["a", "f"]].drop_duplicates(**_kw(split_every=k["split_every"], split_out=k["split_out"])), lambda t: t.df[["a", "f"]].drop_duplicates(), {"split_every": SPLIT_EVERY, "split_out": SPLIT_OUT}, True, True)
    # var / std over partitions that hold NO observation of a column (emptied by a filter, or all values missing there):
    # the combine step of the tree must skip them like the un-batched reduction does (seed C10_7)
    add("frame_var_emptied_partitions", lambda t, k: t.df[t.df.u > 30][["b", "u"]].var(**_kw(split_every=k["split_every"])), lambda t: t.df[t.df.u > 30][["b", "u"]].var(), {"split_every": SPLIT_EVERY})
    add("series_std_emptied_partitions", lambda t, k: t.df[(t.df.u < 9) | (t.df.u > 50)].b.std(**_kw(split_every=k["split_every"])), lambda t: t.df[(t.df.u < 9) | (t.df.u > 50)].b.std(), {"split_every": SPLIT_EVERY})
    add("frame_std_all_missing_in_partition", lambda t, k: t.df[["b", "u"]].assign(b=t.df.b.where(t.df.u > 30)).std(**_kw(split_every=k["split_every"])), lambda t: t.df[["b", "u"]].assign(b=t.df.b.where(t.df.u > 30)).std(), {"split_every": SPLIT_EVERY})
    add("series_var_ddof0_all_missing_in_partition", lambda t, k: t.df.b.where(t.df.u > 30).var(ddof=0, **_kw(split_every=k["split_every"])), lambda t: t.df.b.where(t.df.u > 30).var(ddof=0), {"split_every": SPLIT_EVERY})
    # idxmax / idxmin through every tree shape (seed C10_8): k is unique and not monotone, b has ties and missing values
    for fn in ("idxmax", "idxmin"):
        add(f"series_{fn}", lambda t, k, fn=fn: getattr(t.df.assign(k=(t.df.u * 37) % 101).k, fn)(**_kw(split_every=k["split_every"])), lambda t, fn=fn: getattr(t.df.assign(k=(t.df.u * 37) % 101).k, fn)(), {"split_every": SPLIT_EVERY})
        add(f"frame_{fn}", lambda t, k, fn=fn: getattr(t.df.assign(k=(t.df.u * 37) % 101)[["b", "k", "u"]], fn)(**_kw(split_every=k["split_every"])), lambda t, fn=fn: getattr(t.df.assign(k=(t.df.u * 37) % 101)[["b", "k", "u"]], fn)(), {"split_every": SPLIT_EVERY})
        add(f"filtered_frame_{fn}", lambda t, k, fn=fn: getattr(t.df.assign(k=(t.df.u * 37) % 101)[t.df.a > 0][["b", "k"]], fn)(**_kw(split_every=k["split_every"])), lambda t, fn=fn: getattr(t.df.assign(k=(t.df.u * 37) % 101)[t.df.a > 0][["b", "k"]], fn)(), {"split_every": SPLIT_EVERY})
    add("nunique", lambda t, k: t.df.a.nunique(**_kw(split_every=k["split_every"])), lambda t: t.df.a.nunique(), {"split_every": SPLIT_EVERY})
    for agg in ("sum", "mean", "var", "std", "count", "min", "first", "last", "size", "prod"):
        add(
            f"gb_{agg}",
            lambda t, k, agg=agg: getattr(t.df.groupby("a").u if agg != "size" else t.df.groupby("a"), agg)(**_kw(split_every=k["split_every"], split_out=k["split_out"])),
            lambda t, agg=agg: getattr(t.df.groupby("a").u if agg != "size" else t.df.groupby("a"), agg)(),
            {"split_every": SPLIT_EVERY, "split_out": SPLIT_OUT},
            True,
        )
    for agg in ("var", "std", "mean", "sum"):
        add(
            f"gb_nankey_{agg}",
            lambda t, k, agg=agg: getattr(t.df.groupby("b", dropna=False, observed=True).u, agg)(**_kw(split_every=k["split_every"], split_out=k["split_out"])),
            lambda t, agg=agg: getattr(t.df.groupby("b", dropna=False, observed=True).u, agg)(),
            {"split_every": SPLIT_EVERY, "split_out": SPLIT_OUT},
            True,
        )
    add("gb_two_keys_agg", lambda t, k: t.df.groupby(["a", "f"]).agg({"u": "sum", "b": "mean"}, **_kw(split_every=k["split_every"], split_out=k["split_out"])), lambda t: t.df.groupby(["a", "f"]).agg({"u": "sum", "b": "mean"}), {"split_every": SPLIT_EVERY, "split_out": SPLIT_OUT}, True)
    add("gb_nunique", lambda t, k: t.df.groupby("a").f.nunique(**_kw(split_every=k["split_every"], split_out=k["split_out"])), lambda t: t.df.groupby("a").f.nunique(), {"split_every": SPLIT_EVERY, "split_out": SPLIT_OUT}, True)
    add("gb_median", lambda t, k: t.df.groupby("a").u.median(**_kw(split_every=k["split_every"], shuffle_method=k["method"])), lambda t: t.df.groupby("a").u.median(), {"split_every": [None, 2, 8], "method": METHOD}, True)
    add("gb_cov", lambda t, k: t.df.groupby("a")[["b", "u"]].cov(**_kw(split_every=k["split_every"], split_out=k["split_out"])), lambda t: t.df.groupby("a")[["b", "u"]].cov(), {"split_every": [None, 2], "split_out": [1, 2]}, True)
    for how in ("inner", "left", "right", "outer", "leftsemi"):
        add(
            f"merge_{how}",
            lambda t, k, how=how: t.df.merge(t.df2 if how != "leftsemi" else t.df2[["a"]], on="a", how=how, **_kw(broadcast=k["broadcast"], npartitions=k["npartitions"], shuffle_method=k["method"])),
            (lambda t, how=how: t.df.merge(t.df2, on="a", how=how)) if how != "leftsemi" else (lambda t: t.df[t.df.a.isin(t.df2.a)]),
            {"broadcast": BROADCAST, "npartitions": NPART, "method": METHOD},
            True,
            True,
        )
        add(
            f"merge_small_left_{how}",
            lambda t, k, how=how: t.df2.merge(t.df if how != "leftsemi" else t.df[["a"]], on="a", how=how, **_kw(broadcast=k["broadcast"], npartitions=k["npartitions"])),
            (lambda t, how=how: t.df2.merge(t.df, on="a", how=how)) if how != "leftsemi" else (lambda t: t.df2[t.df2.a.isin(t.df.a)]),
            {"broadcast": BROADCAST, "npartitions": NPART},
            True,
            True,
        )
    # joins whose key columns have different names on the two sides (each side is shuffled / split by ITS key)
    for how in ("inner", "left", "right"):
        add(
            f"merge_diffkeys_small_left_{how}",
            lambda t, k, how=how: t.df2[["a", "w"]].rename(columns={"a": "ka"}).merge(t.df[["a", "u"]], left_on="ka", right_on="a", how=how, **_kw(broadcast=k["broadcast"], npartitions=k["npartitions"])),
            lambda t, how=how: t.df2[["a", "w"]].rename(columns={"a": "ka"}).merge(t.df[["a", "u"]], left_on="ka", right_on="a", how=how),
            {"broadcast": BROADCAST, "npartitions": NPART},
            True,
            True,
        )
        add(
            f"merge_diffkeys_small_right_{how}",
            lambda t, k, how=how: t.df[["a", "u"]].merge(t.df2[["a", "w"]].rename(columns={"a": "ka"}), left_on="a", right_on="ka", how=how, **_kw(broadcast=k["broadcast"], npartitions=k["npartitions"])),
            lambda t, how=how: t.df[["a", "u"]].merge(t.df2[["a", "w"]].rename(columns={"a": "ka"}), left_on="a", right_on="ka", how=how),
            {"broadcast": BROADCAST, "npartitions": NPART},
            True,
            True,
        )
    # keys of different numeric dtypes on the two sides (cast before hashing), every join strategy
    for how in ("inner", "left"):
        add(
            f"merge_float32_key_{how}",
            lambda t, k, how=how: t.df[["a", "u"]].astype({"a": "float32"}).merge(t.df2[["a", "w"]].astype({"a": "float64"}), on="a", how=how, **_kw(broadcast=k["broadcast"], npartitions=k["npartitions"])),
            lambda t, how=how: t.df[["a", "u"]].astype({"a": "float32"}).merge(t.df2[["a", "w"]].astype({"a": "float64"}), on="a", how=how),
            {"broadcast": BROADCAST, "npartitions": NPART},
            True,
            True,
        )
    # set_index(drop=False) keeps the column for every partition count hint
    add("set_index_keep_column", lambda t, k: t.df[["u", "a", "f"]].set_index("f", drop=False, **_kw(npartitions=k["npartitions"], upsample=k["upsample"])), lambda t: t.df[["u", "a", "f"]].set_index("f", drop=False), {"npartitions": [None, 1, 2, 7], "upsample": UPSAMPLE}, True)
    add("set_index_keep_column_presorted", lambda t, k: t.df[["u", "a", "g"]].set_index("g", drop=False, **_kw(npartitions=k["npartitions"])), lambda t: t.df[["u", "a", "g"]].set_index("g", drop=False), {"npartitions": [None, 1, 2, 7]}, True)
    # normalised value counts of a column with missing values: the tree reduction and the shuffle reduction divide by a length
    for dropna in (True, False):
        add(
            f"value_counts_normalize_dropna{dropna}",
            lambda t, k, dropna=dropna: t.df.b.value_counts(normalize=True, dropna=dropna, **_kw(split_every=k["split_every"], split_out=k["split_out"])),
            lambda t, dropna=dropna: t.df.b.value_counts(normalize=True, dropna=dropna),
            {"split_every": SPLIT_EVERY, "split_out": SPLIT_OUT},
            True,
        )
    add("sort_values", lambda t, k: t.df.sort_values(["a", "u"], **_kw(npartitions=k["npartitions"], upsample=k["upsample"], shuffle_method=k["method"])), lambda t: t.df.sort_values(["a", "u"]), {"npartitions": NPART, "upsample": UPSAMPLE, "method": METHOD})
    add("sort_desc", lambda t, k: t.df.sort_values("u", ascending=False, **_kw(npartitions=k["npartitions"], upsample=k["upsample"])), lambda t: t.df.sort_values("u", ascending=False), {"npartitions": NPART, "upsample": UPSAMPLE})
    add("set_index", lambda t, k: t.df.set_index("u", **_kw(npartitions=k["npartitions"], upsample=k["upsample"], shuffle_method=k["method"])), lambda t: t.df.set_index("u").sort_index(), {"npartitions": NPART, "upsample": UPSAMPLE, "method": METHOD})
    add("set_index_dups", lambda t, k: t.df.set_index("a", **_kw(npartitions=k["npartitions"], upsample=k["upsample"])), lambda t: t.df.set_index("a"), {"npartitions": NPART, "upsample": UPSAMPLE}, True)
    add("set_index_presorted", lambda t, k: t.df.set_index("g", **_kw(npartitions=k["npartitions"], upsample=k["upsample"])), lambda t: t.df.set_index("g"), {"npartitions": NPART, "upsample": UPSAMPLE}, True)
    add("set_index_presorted_loc", lambda t, k: t.df.set_index("g", **_kw(npartitions=k["npartitions"], upsample=k["upsample"])).loc[4:4], lambda t: t.df.set_index("g").loc[4:4], {"npartitions": NPART, "upsample": UPSAMPLE}, True)
    add("shuffle", lambda t, k: t.df.shuffle("a", **_kw(npartitions=k["npartitions"], max_branch=k["max_branch"], shuffle_method=k["method"])), lambda t: t.df, {"npartitions": [None, 2, 7, 13], "max_branch": MAX_BRANCH, "method": METHOD}, True)
    add("shuffle_then_gb", lambda t, k: t.df.shuffle("a", **_kw(npartitions=k["npartitions"], max_branch=k["max_branch"])).map_partitions(lambda p: p.groupby("a").u.sum()), lambda t: t.df.groupby("a").u.sum(), {"npartitions": [None, 2, 7], "max_branch": MAX_BRANCH}, True)
    return P


PROGS = None


def progs():
    global PROGS
    if PROGS is None:
        PROGS = _programs()
    return PROGS


def settings(grid, tier):
    """Default setting first; then one-knob-at-a-time variations (quick) or the full product (thorough)."""
    names = list(grid)
    default = {n: None for n in ("split_every", "split_out", "broadcast", "npartitions", "upsample", "method", "max_branch")}
    out = [dict(default)]
    if tier == "thorough":
        for combo in itertools.product(*[grid[n] for n in names]):
            s = dict(default)
            s.update(dict(zip(names, combo)))
            if s not in out:
                out.append(s)
    else:
        for n in names:
            for v in grid[n]:
                s = dict(default)
                s[n] = v
                if s not in out:
                    out.append(s)
        if len(names) >= 2:  # a few pairs
            for combo in list(itertools.product(*[grid[n] for n in names]))[:: max(1, len(list(itertools.product(*[grid[n] for n in names]))) // 6)]:
                s = dict(default)
                s.update(dict(zip(names, combo)))
                if s not in out:
                    out.append(s)
    return out


def check_case(case, common, out):
    import dask

    pname, nrows, npart, known = case
    dask_fn, pandas_fn, grid, order_free, index_free = progs()[pname]
    tabs = C.tables(nrows)
    lay = C.Layout("np", npart, known)
    tp = C.build_context(tabs, lay, lazy=False)
    try:
        with warnings.catch_warnings():
            warnings.simplefilter("ignore")
            exp = ("ok", pandas_fn(tp))
    except Exception as ex:
        exp = ("err", repr(ex)[:100])
    base = None
    for s in settings(grid, common.get("tier", "quick")):
        sid = ",".join(f"{k}={v}" for k, v in s.items() if v is not None) or "default"
        cid = f"{pname}|n={nrows}|np={npart}:{'known' if known else 'unknown'}|{sid}"
        replay = {"kind": "call", "module": "vf.props.C10", "func": "replay_case", "args": {"case": list(case)}}
        for fuse in (True, False) if (common.get("tier") == "thorough" or s == settings(grid, "quick")[0]) else (True,):
            try:
                with warnings.catch_warnings(), dask.config.set({"dataframe.shuffle.method": s.get("method") or "tasks"}):
                    warnings.simplefilter("ignore")
                    t = C.build_context(tabs, lay, lazy=True)
                    q = dask_fn(t, {**s, "method": None if "method" not in grid else s.get("method")})
                    got = ("ok", q.compute(fuse=fuse) if hasattr(q, "compute") else q)
            except Exception as ex:
                got = ("err", f"{type(ex).__name__}: {str(ex)[:160]}")
            bump(out, "C10.knobs:result(knobs)~result(default)~pandas", f"{cid}|fuse={fuse}", rule=RULE)
            if base is None:
                base = got
                if got[0] == "err":
                    out["notes"][f"default setting fails: {pname} np={npart}"] = got[1][:100]
                    return
                if exp[0] == "ok" and D.equiv(got[1], exp[1], order_free, index_free) is False:
                    # agreement with pandas is C02's property; here it is only recorded
                    out["notes"][f"default setting differs from pandas: {pname} np={npart}"] = "see C02"
                continue
            if got[0] == "err":
                # a knob value may be rejected explicitly (ValueError/NotImplementedError at construction); anything
                # else is a failure that the default setting does not have
                if got[1].startswith(("ValueError", "NotImplementedError")):
                    out["notes"][f"knob refused: {pname} {sid}"] = got[1][:100]
                else:
                    viol(out, "C10.knobs:setting-fails", f"{cid}|fuse={fuse}", got[1], replay)
                continue
            if D.equiv(got[1], base[1], order_free, index_free) is False:
                viol(out, "C10.knobs:result-depends-on-knob", f"{cid}|fuse={fuse}", f"default={D.describe(base[1])} with knobs={D.describe(got[1])}", replay)
    if len(out["samples"]) < 2:
        out["samples"].append({"program": pname, "layout": f"np={npart}", "settings": [",".join(f"{k}={v}" for k, v in s.items() if v is not None) or "default" for s in settings(grid, "quick")][:8]})


def replay_case(case):
    from vf.rt.pool import _init

    _init()
    out = {"counts": {}, "violations": [], "samples": [], "errors": [], "notes": {}}
    check_case(tuple(case), {"tier": "thorough"}, out)
    for v in out["violations"]:
        print(v["contract"], "|", v["signature"], "|", v["detail"][:300])
    return bool(out["violations"])


def run(run):
    names = list(progs())
    if run.tier == "quick":
        layouts = [(40, 5, True), (40, 12, False)]
    else:
        layouts = [(40, 2, True), (40, 5, True), (40, 12, False), (40, 20, True), (12, 3, True), (60, 35, True)]
    cases = [(p, n, k, kn) for p in names for (n, k, kn) in layouts]
    run_cases(run, "vf.props.C10", "check_case", cases, {"tier": run.tier}, chunk=1)
    from vf.contracts.registry import run_property_specs

    run_property_specs(run, "C10")
    run.assume("results compared up to row order / partition layout (and index labels after joins); pandas as the additional oracle for the default setting")
    run.assume("p2p shuffle method is outside the claim (distributed is not installed)")
    run.trust("knob program list in vf/props/C10.py; comparator vf/rt/den.py")
