"""C01 - optimization never changes what a query computes (bounded run-time contracts; see DESIGN 5 C01)."""
from __future__ import annotations

from vf.rt import cases as K
from vf.rt import corpus as C
from vf.rt import den as D
from vf.rt.pool import bump, run_cases, viol

STAGES = ["simplified-logical", "tuned-logical", "physical", "simplified-physical", "fused"]
_rc = None

STAGE_RULE = "program x dataset x layout; non-trivial iff the optimized plan differs from the logical one and the reference result is non-empty"
RULE_RULE = "every _simplify_*/_tune_*/_lower firing checked den(out)~den(ref); distinct by rule name x program"


def _rules():
    global _rc
    if _rc is None:
        from vf.rt.install import RuleContract

        _rc = RuleContract().install()
    return _rc


def _nonempty(v):
    try:
        return len(v) > 0
    except Exception:
        return True


def check_case(case, common, out, collect=None):
    from dask_expr._expr import optimize_until

    rc = _rules() if common.get("rules", True) else None
    cid = K.case_id(case)
    try:
        prog, q = K.build(case)
    except Exception as ex:
        # the API refuses the program on this layout when it is built (e.g. rolling on unknown divisions)
        out["notes"][f"refused at construction: {case[3]} on {case[2]}"] = f"{type(ex).__name__}: {str(ex)[:100]}"
        return
    if not hasattr(q, "expr"):
        bump(out, "C01.stage:den(optimize_until(e,stage))~den(e)", None, rule=STAGE_RULE, n=0)
        return
    if prog.undefined:
        return  # result not defined by the documented semantics (see corpus.Prog.undefined)
    expr = q.expr
    D.clear_cache()
    if rc:
        rc.violations.clear()
        rc.intermediate_not_evaluable.clear()
        f0 = rc.fired
    ref = D.den(expr)
    if ref[0] == "err":
        out["notes"][f"reference evaluation fails for {case[3]}"] = ref[1][:120]
        return
    replay = {"kind": "call", "module": "vf.props.C01", "func": "replay_case", "args": {"case": list(case)}}
    stage_failed = False
    for stage in STAGES:
        try:
            opt = optimize_until(expr, stage)
        except Exception as ex:
            viol(out, f"C01.stage[{stage}]:optimizer-raises", cid, f"{type(ex).__name__}: {str(ex)[:300]} (unoptimized lowering computes fine)", replay)
            stage_failed = True
            continue
        changed = opt._name != expr._name
        got = D.run_as_is(opt)
        key = cid if (changed and _nonempty(ref[1])) else None
        bump(out, "C01.stage:den(optimize_until(e,stage))~den(e)", key, rule=STAGE_RULE)
        if got[0] == "err":
            viol(out, f"C01.stage[{stage}]:optimized-fails-unoptimized-succeeds", cid, got[1], replay)
            stage_failed = True
            continue
        r = D.equiv_headtail(ref[1], got[1], case[3], prog.order_free, prog.index_free)
        if r is False:
            viol(out, f"C01.stage[{stage}]:result-differs", cid, f"unoptimized={D.describe(ref[1])} optimized={D.describe(got[1])}", replay)
            stage_failed = True
    # the public path
    try:
        pub = ("ok", q.compute())
    except Exception as ex:
        pub = ("err", f"{type(ex).__name__}: {str(ex)[:200]}")
    bump(out, "C01.compute:compute()~den(e)", cid, rule="FrameBase.compute() (optimize + fuse) against the unoptimized reference")
    if pub[0] == "err":
        viol(out, "C01.compute:optimized-fails-unoptimized-succeeds", cid, pub[1], replay)
    elif D.equiv_headtail(ref[1], pub[1], case[3], prog.order_free, prog.index_free) is False:
        viol(out, "C01.compute:result-differs", cid, f"unoptimized={D.describe(ref[1])} compute()={D.describe(pub[1])}", replay)
    if rc:
        for msg in rc.harness_errors:
            out["errors"].append("rule contract: " + msg)
        rc.harness_errors.clear()
        fired = rc.fired - f0
        for rname, r_ref, r_out, why in rc.violations:
            viol(out, f"C01.rule[{rname}]:den(out)~den(ref)", f"{cid} ref={r_ref[:80]}", f"{why}; out={r_out}", replay)
        for rname in set(v[0] for v in rc.violations):
            pass
        bump(out, "C01.rule:den(out)~den(ref)", None, rule=RULE_RULE, n=fired)
        for rname, n in list(rc.by_rule.items()):
            bump(out, "C01.rule:den(out)~den(ref)", f"{rname}|{case[3]}", rule=RULE_RULE, n=0)
        rc.by_rule.clear()
        if stage_failed:
            for rname, r_ref, r_out, why in rc.intermediate_not_evaluable[:3]:
                out["notes"][f"rule output not evaluable: {rname} in {case[3]}"] = why[:100]
    if len(out["samples"]) < 2:
        out["samples"].append({"case": cid, "stages": STAGES, "reference": D.describe(ref[1])[:160]})


def replay_case(case):
    out = {"counts": {}, "violations": [], "samples": [], "errors": [], "notes": {}}
    from vf.rt.pool import _init

    _init()
    check_case(tuple(case[:2]) + (tuple(case[2]),) + (case[3],), {"rules": True}, out)
    for v in out["violations"]:
        print(v["contract"], "|", v["signature"], "|", v["detail"][:300])
    return bool(out["violations"])


QUICK_LAYOUTS = [("np", 3, True), ("np", 5, True), ("np", 2, False), ("np", 1, True)]
QUICK_DATASETS = ["range", "dupint"]


def program_sets(tier, seed):
    import random

    rng = random.Random(seed)
    hand = [n for n in C.PROGRAMS]
    d1 = C.generated_depth1()
    two, three, extra = C.predicate_formulas(rng if tier == "thorough" else None)
    preds = [f"pred:{f}:cols_ub" for f in extra + three[:60] + two[::6]]
    if tier == "quick":
        d2 = C.generated_depth2(rng, 250)
    else:
        d2 = C.generated_depth2(rng, 2500)
        preds = [f"pred:{f}:{c}" for f in extra + three + two for c in ("cols_ub", "sum_u")]
    return hand, d1, d2, preds


def run(run):
    hand, d1, d2, preds = program_sets(run.tier, run.seed)
    if run.tier == "quick":
        cases = K.standard_cases(hand, ["range"], [("np", 3, True), ("np", 5, False)]) + K.standard_cases(hand, ["dupint"], [("np", 4, True)])
        cases += K.standard_cases(d1 + d2 + preds, ["range"], [("np", 3, True)])
        # a skewed layout (one-row first partition, an empty partition): rules that look at "the first k partitions"
        cases += K.standard_cases(hand + d1, ["range"], [("cuts", ((2, 0, 3, 7), (0, 3, 4)), True)])  # the first piece must not be all-missing in the sort keys (known finding of C02)
    else:
        lays = [("np", 1, True), ("np", 2, True), ("np", 3, True), ("np", 5, True), ("np", 7, False), ("np", 3, False)]
        cases = K.standard_cases(hand, ["range", "dupint", "float", "str", "dt"], lays)
        cases += K.standard_cases(hand, ["range"], [("cuts", ((3, 0, 4, 5), (2, 5)), False), ("cuts", ((1, 1, 1, 9), (1, 0, 6)), True)])
        cases += K.standard_cases(d1 + d2 + preds, ["range"], [("np", 3, True), ("np", 5, False)])
        cases += K.standard_cases(d1, ["dupint", "str"], [("np", 4, True)])
    run_cases(run, "vf.props.C01", "check_case", cases, {"rules": True})
    # tier P: the optimizer's drivers (loops and stage pipeline) and the hand-written layers a rewrite rule targets
    from vf.contracts.registry import run_property_specs

    run_property_specs(run, "C01")
    run.assume("pandas / numpy semantics; dask.get as reference executor; comparison up to row order / index labels only where the program leaves them undefined (flag per program)")
    run.assume("p2p shuffle / hash join are outside the claim (distributed is not installed)")
    run.trust("vf/rt/corpus.py program catalogue and comparator vf/rt/den.py")
