"""C08 - expression names are deterministic and collision-free (DESIGN 5 C08).
P: contract on every `_name` definition (all operands flow into the token) + name-format lemma (z3 strings);
S: class table scan for same-head same-arity classes; R: names across interpreters / hash seeds / construction
order, single-parameter variations, Expr.__new__ postcondition."""
from __future__ import annotations

import json
import os
import random
import subprocess
import sys
import warnings

import numpy as np
import pandas as pd

VERIF = os.path.dirname(os.path.dirname(os.path.dirname(os.path.abspath(__file__))))


# ---------------------------------------------------------------------------------------------
# variation families: any two members must get different names; the same member built twice the same name
# ---------------------------------------------------------------------------------------------
def variation_families(dx, pdf, pdf_b):
    df = dx.from_pandas(pdf, npartitions=3)
    fam = {}
    scal = [0, 1, 2, 1.0, True, 0.0, -0.0, 1.5, "1", np.int64(1), np.float32(1.0), None]
    fam["add_scalar"] = [(repr(v) + type(v).__name__, lambda v=v: df.u + v) for v in scal if v is not None and not isinstance(v, str)]
    fam["div_scalar"] = [(repr(v), lambda v=v: df.b / v) for v in (0.0, -0.0, 1.0, -1.0, 2)]
    fam["fillna"] = [(repr(v) + type(v).__name__, lambda v=v: df.b.fillna(v)) for v in (0, 0.0, -0.0, 1, True, 1.5)]
    fam["clip"] = [(repr(v), lambda v=v: df.b.clip(lower=v[0], upper=v[1])) for v in ((0, 5), (0.0, 5), (0, 5.0), (1, 5), (0, 6), (None, 5), (0, None))]
    fam["isin"] = [(repr(v), lambda v=v: df.a.isin(v)) for v in ([1, 2], [2, 1, 3], [1], [1.0, 2.0], ["1", "2"], [1, 2, 2, 4])]
    fam["head"] = [(repr(v), lambda v=v: df.head(v[0], npartitions=v[1], compute=False)) for v in ((3, 1), (4, 1), (3, 2), (3, -1))]
    fam["getitem"] = [(repr(v), lambda v=v: df[v]) for v in ("a", "b", ["a"], ["a", "b"], ["b", "a"])]
    fam["filter"] = [(k, f) for k, f in (("a>1", lambda: df[df.a > 1]), ("a>=1", lambda: df[df.a >= 1]), ("a>2", lambda: df[df.a > 2]), ("b>1", lambda: df[df.b > 1]), ("a>1.0", lambda: df[df.a > 1.0]))]
    fam["groupby"] = [(k, f) for k, f in (
        ("a.sum", lambda: df.groupby("a").u.sum()), ("a.mean", lambda: df.groupby("a").u.mean()), ("f.sum", lambda: df.groupby("f").u.sum()),
        ("a.sum.b", lambda: df.groupby("a").b.sum()), ("a.sum.so2", lambda: df.groupby("a").u.sum(split_out=2)), ("a.sum.se2", lambda: df.groupby("a").u.sum(split_every=2)),
        ("a.sum.sortF", lambda: df.groupby("a", sort=False).u.sum()), ("af.sum", lambda: df.groupby(["a", "f"]).u.sum()))]
    df2 = dx.from_pandas(pdf_b, npartitions=2)
    fam["merge"] = [(k, f) for k, f in (
        ("inner", lambda: df.merge(df2, on="a")), ("left", lambda: df.merge(df2, on="a", how="left")), ("outer", lambda: df.merge(df2, on="a", how="outer")),
        ("sfx", lambda: df.merge(df2, on="a", suffixes=("_l", "_r"))), ("bcast", lambda: df.merge(df2, on="a", broadcast=True)), ("np2", lambda: df.merge(df2, on="a", npartitions=2)),
        ("ind", lambda: df.merge(df2, on="a", indicator=True)))]
    fam["sort"] = [(k, f) for k, f in (
        ("u", lambda: df.sort_values("u")), ("u.desc", lambda: df.sort_values("u", ascending=False)), ("b", lambda: df.sort_values("b")), ("b.first", lambda: df.sort_values("b", na_position="first")),
        ("u.np2", lambda: df.sort_values("u", npartitions=2)), ("u.up2", lambda: df.sort_values("u", upsample=2.0)), ("au", lambda: df.sort_values(["a", "u"])))]
    fam["repartition"] = [(repr(v), lambda v=v: df.repartition(**v)) for v in ({"npartitions": 2}, {"npartitions": 5}, {"divisions": (0, 6, 11)}, {"divisions": (0.0, 6.0, 11.0)}, {"divisions": (0, 5, 11)}, {"divisions": (0, 6, 11), "force": True})]
    fam["set_index"] = [(k, f) for k, f in (("u", lambda: df.set_index("u")), ("u.keep", lambda: df.set_index("u", drop=False)), ("a", lambda: df.set_index("a")), ("u.sorted", lambda: df.set_index("u", sorted=True)), ("u.np2", lambda: df.set_index("u", npartitions=2)))]
    fam["shift"] = [(repr(v), lambda v=v: df.u.shift(v)) for v in (1, 2, -1)]
    fam["rolling"] = [(repr(v), lambda v=v: getattr(df.u.rolling(v[0], center=v[1]), v[2])()) for v in ((2, False, "sum"), (3, False, "sum"), (2, True, "sum"), (2, False, "mean"))]
    fam["astype"] = [(repr(v), lambda v=v: df.a.astype(v)) for v in ("float64", "float32", "int32", "int64")]
    fam["map_partitions"] = [(k, f) for k, f in (("f1", lambda: df.map_partitions(_mp1)), ("f2", lambda: df.map_partitions(_mp2)), ("f1.kw", lambda: df.map_partitions(_mp1, k=2)), ("f1.kw3", lambda: df.map_partitions(_mp1, k=3)))]
    ts = [pd.Timestamp("2024-01-01 12:00", tz="UTC"), pd.Timestamp("2024-01-01 13:00", tz="Europe/Paris"), pd.Timestamp("2024-01-01 12:00")]
    fam["timestamp_scalar"] = [(repr(v), lambda v=v: df.e.dt.tz_localize("UTC") > v if v.tz is not None else df.e > v) for v in ts[:2]] + [("naive", lambda: df.e > ts[2])]
    big = dx.from_pandas(pd.DataFrame({"u": np.arange(60), "a": np.arange(60) % 4, "b": np.arange(60) * 0.5}), npartitions=12)
    fam["reduction_split_every"] = [(repr(v), lambda v=v: big.u.sum(split_every=v)) for v in (2, 3, 5, 8, False)]
    fam["groupby_split_every"] = [(repr(v), lambda v=v: big.groupby("a").u.sum(split_every=v)) for v in (2, 3, 8)]
    fam["frame_reduction_split_every"] = [(repr(v), lambda v=v: big[["u", "b"]].max(split_every=v)) for v in (2, 4, 8)]
    # equal-looking inputs with different data
    other = pdf.copy()
    other.loc[other.index[5], "u"] = -7
    fam["input_data"] = [("pdf", lambda: dx.from_pandas(pdf, npartitions=3).u.sum()), ("pdf_one_cell_changed", lambda: dx.from_pandas(other, npartitions=3).u.sum()), ("pdf_np2", lambda: dx.from_pandas(pdf, npartitions=2).u.sum()), ("pdf_nosort", lambda: dx.from_pandas(pdf, npartitions=3, sort=False).u.sum())]
    arr = np.arange(12.0)
    arr2 = arr.copy()
    arr2[3] = -1
    fam["input_array"] = [("arr", lambda: dx.from_array(arr, chunksize=4)), ("arr_changed", lambda: dx.from_array(arr2, chunksize=4)), ("arr_chunk3", lambda: dx.from_array(arr, chunksize=3))]
    return fam


GRAPHS = {}


def _mp1(p, k=1):
    return p.assign(z=p.u * k)


def _mp2(p, k=1):
    return p.assign(z=p.u + k)


def _tables():
    from vf.rt import corpus as C

    t = C.tables(12)
    return t["df"], t["df2"]


def collect_names(order="forward", warm=False):
    """name of every node + graph keys of the optimized plans of every family member and corpus program."""
    import dask
    import dask_expr as dx

    from vf.rt import cases as K
    from vf.rt import corpus as C

    dask.config.set({"dataframe.shuffle.method": "tasks"})
    pdf, pdf_b = _tables()
    out = {}
    if warm:  # unrelated queries built first
        w = dx.from_pandas(pd.DataFrame({"q": range(7)}), npartitions=2)
        (w.q + 1).sum().optimize()
        w[w.q > 2].q.max().optimize()
    fams = variation_families(dx, pdf, pdf_b)
    items = [(f"{fn}/{k}", mk) for fn, members in fams.items() for k, mk in members]
    progs = [n for n in C.PROGRAMS if not n.startswith(("shuffle_disk",)) and (C.PROGRAMS[n].only is None or "C08" in C.PROGRAMS[n].only)]
    for n in progs:
        items.append((f"prog/{n}", (lambda n=n: K.build(("range", 12, ("np", 3, True), n))[1])))
    if order == "reverse":
        items = items[::-1]
    elif order == "shuffled":
        random.Random(7).shuffle(items)
    with warnings.catch_warnings():
        warnings.simplefilter("ignore")
        for key, mk in items:
            try:
                q = mk()
                if not hasattr(q, "expr"):
                    continue
                rec = {"name": q.expr._name, "nodes": sorted({e._name for e in q.expr.walk()})}
                try:
                    o = q.optimize(fuse=False)
                    rec["opt"] = o.expr._name
                    g = o.__dask_graph__()
                    rec["keys"] = sorted(map(str, g.keys()))[:400]
                    GRAPHS[key] = dict(g)
                    rec["fused"] = q.optimize(fuse=True).expr._name
                except Exception as ex:
                    rec["opt"] = "ERR " + type(ex).__name__
                out[key] = rec
            except Exception as ex:
                out[key] = {"name": "ERR " + type(ex).__name__ + str(ex)[:60]}
    return out


def fresh_names(hashseed, order, warm):
    code = (
        "import sys, json, warnings; warnings.filterwarnings('ignore'); sys.path.insert(0, %r); sys.path.append(%r)\n"
        "from vf.props import C08\n"
        "print('@@' + json.dumps(C08.collect_names(%r, %r)))\n"
    ) % (VERIF, os.path.join(VERIF, ".overlay"), order, warm)
    env = dict(os.environ)
    if hashseed == "random":
        env.pop("PYTHONHASHSEED", None)
    else:
        env["PYTHONHASHSEED"] = str(hashseed)
    r = subprocess.run([sys.executable, "-W", "ignore", "-c", code], capture_output=True, text=True, env=env, timeout=1500)
    for line in r.stdout.splitlines():
        if line.startswith("@@"):
            return json.loads(line[2:])
    raise RuntimeError("fresh interpreter failed: " + r.stderr[-500:])


# ---------------------------------------------------------------------------------------------
def class_table(run):
    """S: distinct classes that can produce the same name head with the same operand arity."""
    from dask.utils import funcname

    from vf.rt.install import all_expr_classes

    classes = sorted(all_expr_classes(), key=lambda c: (c.__module__, c.__name__))
    heads = {}
    for c in classes:
        try:
            op = c.__dict__.get("operation", None) or getattr(c, "operation", None)
            from dask_expr._expr import Blockwise

            if issubclass(c, Blockwise) and op is not None and not isinstance(op, property) and not hasattr(op, "func") and "_name" not in c.__dict__:
                h = funcname(op.__func__ if isinstance(op, staticmethod) else op)
            else:
                h = funcname(c).lower()
        except Exception:
            h = c.__name__.lower()
        heads.setdefault(h, []).append(c)
    clashes = []
    for h, cs in heads.items():
        for i, a in enumerate(cs):
            for b in cs[i + 1 :]:
                run.count("C08.S.class-table:same-head-same-arity-pairs", 1, None, tier="S", rule="all pairs of distinct Expr classes sharing a name head; non-trivial iff the arities of their parameter lists can coincide")
                if len(a._parameters) == len(b._parameters):
                    clashes.append((h, a, b))
                    run.count("C08.S.class-table:same-head-same-arity-pairs", 0, f"{a.__name__}/{b.__name__}", tier="S")
    return classes, heads, clashes


def check_clash(run, h, a, b):
    """Two classes with equal head and arity must not be distinguishable in behaviour on equal operands:
    identical _task/_layer/operation/_meta/_divisions code objects, or one is a subclass that only restricts use."""
    def code(c, name):
        f = getattr(c, name, None)
        f = getattr(f, "func", f)
        f = getattr(f, "fget", f)
        f = getattr(f, "__func__", f)
        return getattr(f, "__code__", f)

    same = all(code(a, n) is code(b, n) for n in ("_task", "_layer", "operation", "_meta", "_divisions", "_lower"))
    return same


def run(run):
    import dask_expr as dx

    from vf.contracts import names as NC

    # ---- P
    funcs, obs = NC.run_all()
    run.functions.extend([{**f, "obligations": sum(1 for o in obs if o["name"].startswith(f["file"] + "::" + f["qualname"])), "discharged": sum(1 for o in obs if o["name"].startswith(f["file"] + "::" + f["qualname"]) and o["status"] == "discharged"), "crosscheck_inputs": 0, "solver_s": 0.0} for f in funcs])
    for o in obs:
        run.obligations.append(o)
        if o["status"] == "refuted":
            run.violation(o["name"], "no-model", o["detail"], {"kind": "none", "obligation": o["name"], "verifier_output": o["detail"]}, confirmed=False, tier="P")
        elif o["status"] != "discharged":
            run.undecided.append(o["name"] + ": " + o["status"])
    # ---- S
    classes, heads, clashes = class_table(run)
    ALLOWED = json.load(open(os.path.join(VERIF, "vf", "contracts", "name_clash_table.json")))
    for h, a, b in clashes:
        key = "/".join(sorted([a.__name__, b.__name__]))
        if check_clash(run, h, a, b):
            continue
        if key not in ALLOWED:
            run.violation("C08.S.class-table:new-same-head-same-arity-pair", key, f"classes {a.__name__} and {b.__name__} share the name head {h!r} and the operand arity {len(a._parameters)} but differ in behaviour, and the pair is not in the committed table of known pairs (each with the operand positions that tell them apart): a refactoring created a new way for two different expressions to get one name", {"kind": "none"}, tier="S")
    run.notes.append(f"class table: {len(classes)} Expr classes, {len(heads)} heads, {len(clashes)} same-head same-arity pairs, {len(ALLOWED)} of them recorded in vf/contracts/name_clash_table.json (assumed distinguishable by operand domain)")
    run.assume("the same-head same-arity class pairs listed in vf/contracts/name_clash_table.json are ASSUMED never to be instantiated on equal operand tuples through the public API (their operand domains differ at the recorded positions); only the appearance of a NEW pair is detected")
    # ---- R: this interpreter
    base = collect_names("forward", False)
    again = collect_names("forward", False)
    for k, rec in base.items():
        run.count("C08.R.same-process:same-query-same-name", 1, k, rule="every family member / corpus program built twice in one interpreter")
        if again.get(k, {}).get("name") != rec.get("name"):
            run.violation("C08.R.same-process:name-changes-on-rebuild", k, f"{rec.get('name')} vs {again.get(k, {}).get('name')}", {"kind": "none"})
    fams = {}
    for k, rec in base.items():
        if k.startswith("prog/") or str(rec.get("name", "")).startswith("ERR"):
            continue
        fams.setdefault(k.split("/")[0], []).append((k, rec))
    for fn, members in fams.items():
        for i, (ka, ra) in enumerate(members):
            for kb, rb in members[i + 1 :]:
                run.count("C08.R.variations:different-parameter-different-name", 1, f"{ka}|{kb}", rule="all pairs inside a single-parameter variation family")
                if ra["name"] == rb["name"]:
                    run.violation("C08.R.variations:two-queries-share-a-name", f"{ka} vs {kb}", f"both are named {ra['name']} (optimized {ra.get('opt')})", {"kind": "call", "module": "vf.props.C08", "func": "replay_pair", "args": {"a": ka, "b": kb}})
    # ---- R: the tasks of two different queries never collide under one key (graphs are merged by plain dict union)
    from vf.rt.nodewise import _task_equal

    for fn, members in fams.items():
        for i, (ka, ra) in enumerate(members):
            for kb, rb in members[i + 1 :]:
                ga, gb = GRAPHS.get(ka), GRAPHS.get(kb)
                if not ga or not gb:
                    continue
                run.count("C08.R.variations:shared-keys-carry-equal-tasks", 1, f"{ka}|{kb}", rule="graphs of two members of a variation family: every key defined by both has the same task")
                for k in ga.keys() & gb.keys():
                    if not _task_equal(ga[k], gb[k]):
                        run.violation("C08.R.variations:one-key-two-different-tasks", f"{ka} vs {kb}", f"key {str(k)[:100]} is defined with different tasks by the two queries; computing them together lets one overwrite the other", {"kind": "none"})
                        break
    # ---- R: inputs that look alike from the outside (same shape, same file size, same second) but hold different data
    data_identity(run)
    # ---- R: other interpreters
    configs = [(0, "forward", False), (1, "reverse", True), (12345, "shuffled", True)] + ([("random", "forward", True), (7, "reverse", False)] if run.tier == "thorough" else [])
    for hs, order, warm in configs:
        try:
            other = fresh_names(hs, order, warm)
        except Exception as ex:
            run.errors.append("fresh interpreter: " + repr(ex)[:300])
            continue
        for k, rec in base.items():
            o = other.get(k)
            if o is None or str(rec.get("name", "")).startswith("ERR"):
                continue
            run.count("C08.R.xprocess:names-and-keys-equal-across-interpreters", 1, f"{k}|{hs}|{order}", rule="fresh interpreters with PYTHONHASHSEED 0 / 1 / 12345 (random), forward / reverse / shuffled construction order, with and without unrelated queries built first")
            for field in ("name", "nodes", "opt", "keys", "fused"):
                if rec.get(field) != o.get(field):
                    a, b = rec.get(field), o.get(field)
                    if isinstance(a, list):
                        diff = [x for x in a if x not in (b or [])][:2]
                        a, b = diff, [x for x in (b or []) if x not in rec.get(field)][:2]
                    run.violation(f"C08.R.xprocess:{field}-differs", f"{k}|PYTHONHASHSEED={hs}|order={order}|warm={warm}", f"{a} vs {b}", {"kind": "none"})
                    break
    run.sample({"family": "add_scalar", "members": [k for k in base if k.startswith("add_scalar/")][:6]})
    run.assume("A4: dask.base.tokenize is deterministic and injective on the operand tuples it is given (md5 collisions excluded); checked only on the operand kinds of the families above")
    run.assume("A-names: an expression name ends in a 32-character token (name-format lemma proved with z3's sequence theory for that length)")
    run.trust("contract table vf/contracts/names.py (which operands each _name must tokenize) and vf/contracts/name_clash_table.json (discriminating operand condition of same-head same-arity classes)")


def _part_sum(df, scale=1):
    return df.sum() * scale


def _part_max(df, scale=1):
    return df.max() * scale


def _total(df):
    return df.sum()


def data_identity(run):
    """Two collections built from different input DATA never share a name (and never share task keys)."""
    import shutil
    import tempfile

    import dask
    import numpy as np
    import pandas as pd

    import dask_expr as dx

    rule = "pairs of sources that differ only in their data: pandas frames, arrays, parquet files rewritten in place (same byte size, modification times 0.5 s apart inside one second), imported graphs with equal keys"
    v1 = pd.DataFrame({"a": [1, 2, 3, 4], "b": [10.0, 20.0, 30.0, 40.0]}, index=pd.Index([10, 11, 12, 13], name="i"))
    v2 = pd.DataFrame({"a": [4, 3, 2, 1], "b": [40.0, 10.0, 20.0, 30.0]}, index=pd.Index([20, 21, 22, 23], name="i"))

    def check(label, a, b, extra=""):
        run.count("C08.R.data:different-data-different-name", 1, label, rule=rule)
        if a._name == b._name:
            run.violation("C08.R.data:different-data-share-a-name", label, f"both collections are named {a._name} {extra}", {"kind": "none"})
            return
        ka, kb = set(map(str, a.__dask_keys__())), set(map(str, b.__dask_keys__()))
        if ka & kb:
            run.violation("C08.R.data:different-data-share-task-keys", label, f"shared keys {sorted(ka & kb)[:2]}", {"kind": "none"})

    check("from_pandas", dx.from_pandas(v1, npartitions=2), dx.from_pandas(v2, npartitions=2))
    check("from_pandas/same-index", dx.from_pandas(v1, npartitions=2), dx.from_pandas(v1.assign(b=v1.b + 1), npartitions=2))
    check("from_array", dx.from_array(np.arange(8).reshape(4, 2), columns=["x", "y"]), dx.from_array(np.arange(8).reshape(4, 2) + 1, columns=["x", "y"]))
    # a frame / series that is a zero-copy view of a caller-owned array (pd.DataFrame(arr, copy=False)): the caller
    # re-uses its buffer after from_pandas(); the name given to the collection keeps denoting the values it was built from
    # (seed C08_7: copy-on-write does not protect a buffer pandas never owned)
    for kind in ("frame", "series", "frame/sort=False"):
        label = f"from_pandas/zero-copy-view-of-caller-array/{kind}"
        try:
            original = np.arange(16, dtype="float64").reshape(8, 2)

            def wrap(values, kind=kind):
                if kind == "series":
                    return pd.Series(values[:, 0], name="a", copy=False)
                return pd.DataFrame(values, columns=["a", "b"], copy=False)

            kw = {"sort": False} if kind.endswith("sort=False") else {}
            buf = original.copy()
            q1 = dx.from_pandas(wrap(buf), npartitions=2, **kw)
            name1 = q1._name
            buf[:] = -1.0  # the caller goes on with its own array
            q2 = dx.from_pandas(wrap(original.copy()), npartitions=2, **kw)  # equal-looking data with the ORIGINAL values
            q3 = dx.from_pandas(wrap(buf.copy()), npartitions=2, **kw)  # the new content of the buffer
            check(label + "/old-vs-new-content", q2, q3)
            run.count("C08.R.data:name-keeps-denoting-its-data", 1, label, rule="from_pandas on a zero-copy view of a caller-owned array; the array is overwritten afterwards; collections built before and after")
            if q3._name == name1:
                run.violation("C08.R.data:different-data-share-a-name", label, f"the collection built from the overwritten buffer is named like the one built before the write: {name1}", {"kind": "none"})
            else:
                want, new = wrap(original.copy()), wrap(np.full_like(original, -1.0))
                for what, coll, exp in (("built before the write", q1, want), ("rebuilt from the original values", q2, want), ("built from the new content", q3, new)):
                    got = coll.compute()
                    if not got.equals(exp):
                        run.violation("C08.R.data:name-denotes-other-data", f"{label}/{what}", f"{coll._name} computes {np.asarray(got).ravel()[:4].tolist()}.. expected {np.asarray(exp).ravel()[:4].tolist()}..", {"kind": "none"})
                        break
        except Exception as ex:
            run.notes.append(f"zero-copy case {kind} not evaluated: {type(ex).__name__}: {str(ex)[:100]}")
    # imported graphs (persist / legacy import path): same keys, meta, divisions, prefix - different layer
    from dask_expr._collection import from_graph

    keys = [("imported-x", 0), ("imported-x", 1)]
    g1 = {keys[0]: v1.iloc[:2], keys[1]: v1.iloc[2:]}
    g2 = {keys[0]: v2.iloc[:2], keys[1]: v2.iloc[2:]}
    try:
        c1 = from_graph(g1, v1.iloc[:0], (None, None, None), keys, "imported")
        c2 = from_graph(g2, v1.iloc[:0], (None, None, None), keys, "imported")
        check("from_graph/equal-keys-different-layer", c1, c2)
        if c1._name != c2._name:
            r2 = c2.compute()
            if r2.a.tolist() != v2.a.tolist():
                run.violation("C08.R.data:second-import-returns-first-data", "from_graph/equal-keys-different-layer", f"computed {r2.a.tolist()}", {"kind": "none"})
    except Exception as ex:
        run.notes.append(f"from_graph data-identity case not evaluated: {type(ex).__name__}: {str(ex)[:100]}")
    # one caller-owned kwargs dict reused for two different reductions: the first query keeps its name, tasks and result
    try:
        pdf_r = pd.DataFrame({"x": np.arange(1, 41), "y": np.arange(41, 81)}, dtype="float64")
        ddf_r = dx.from_pandas(pdf_r, npartitions=4)
        shared = {"scale": 10}
        q1 = ddf_r.reduction(_part_sum, aggregate=_total, chunk_kwargs=shared)
        name1, want1 = q1._name, pdf_r.sum() * 10
        q2 = ddf_r.reduction(_part_max, aggregate=_total, chunk_kwargs=shared)
        run.count("C08.R.data:reused-kwargs-dict-keeps-queries-apart", 1, "reduction", rule="two reduction() calls given the SAME kwargs dict object, then the first query rebuilt from scratch")
        q1_again = ddf_r.reduction(_part_sum, aggregate=_total, chunk_kwargs={"scale": 10})
        if q2._name == name1:
            run.violation("C08.R.data:different-queries-share-a-name", "reduction/reused-kwargs", f"{name1}", {"kind": "none"})
        elif q1_again._name != name1:
            run.violation("C08.R.data:same-query-different-name", "reduction/reused-kwargs", f"{name1} vs {q1_again._name}", {"kind": "none"})
        else:
            for label, coll in (("rebuilt first query", q1_again), ("original first query", q1)):
                got = coll.compute()
                if not got.equals(want1):
                    run.violation("C08.R.data:name-denotes-another-query", f"reduction/reused-kwargs/{label}", f"computed {got.to_dict()} expected {want1.to_dict()}", {"kind": "none"})
                    break
    except Exception as ex:
        run.notes.append(f"reused-kwargs case not evaluated: {type(ex).__name__}: {str(ex)[:100]}")
    tmp = tempfile.mkdtemp(prefix="verif_c08_")
    try:
        for fs in ("fsspec", "arrow"):
            path = os.path.join(tmp, f"data_{fs}.parquet")
            base = 1_700_000_000 * 10**9

            def write(pdf, off):
                pdf.to_parquet(path)
                os.utime(path, ns=(base + off, base + off))
                return os.path.getsize(path)

            kw = {"filesystem": fs}
            s1 = write(v1, 100_000_000)
            a = dx.read_parquet(path, calculate_divisions=True, **kw)
            a_name, a_keys, a_div = a._name, a.__dask_keys__(), a.divisions
            same = dx.read_parquet(path, calculate_divisions=True, **kw)
            run.count("C08.R.data:same-file-same-name", 1, fs, rule="re-reading an unchanged file gives the same name")
            if same._name != a_name:
                run.violation("C08.R.data:same-file-different-name", f"read_parquet/{fs}", f"{a_name} vs {same._name}", {"kind": "none"})
            s2 = write(v2, 600_000_000)
            b = dx.read_parquet(path, calculate_divisions=True, **kw)
            label = f"read_parquet/{fs}/rewritten-in-place same-size={s1 == s2} same-second"
            run.count("C08.R.data:different-data-different-name", 1, label, rule=rule)
            if b._name == a_name:
                run.violation("C08.R.data:different-data-share-a-name", label, f"the rewritten file is read under the old name {a_name}; divisions reported {b.divisions} (old {a_div})", {"kind": "none"})
            elif tuple(b.divisions) != (20, 23) or b.compute().a.tolist() != v2.a.tolist():
                run.violation("C08.R.data:rewritten-file-read-stale", label, f"divisions {b.divisions}", {"kind": "none"})
    finally:
        shutil.rmtree(tmp, ignore_errors=True)


def replay_pair(a, b):
    base = collect_names("forward", False)
    ra, rb = base.get(a), base.get(b)
    print(a, ra and ra.get("name"), "|", b, rb and rb.get("name"))
    return bool(ra and rb and ra.get("name") == rb.get("name"))
