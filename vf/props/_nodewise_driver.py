"""Shared case function for the node-wise properties C06 / C07 / C09."""
from __future__ import annotations

from vf.rt import cases as K
from vf.rt import corpus as C
from vf.rt import den as D
from vf.rt import nodewise as N
from vf.rt.pool import bump, viol


def check_case(case, common, out):
    which = common["which"]  # "C06" | "C07" | "C09"
    cid = K.case_id(case)
    try:
        prog, q = K.build(case)
    except Exception as ex:
        out["notes"][f"refused at construction: {case[3]}"] = f"{type(ex).__name__}: {str(ex)[:80]}"
        return
    if not hasattr(q, "expr"):
        return
    if which == "C07" and "user_meta" in prog.tags:
        return  # the schema is asserted by the user, not derived
    N.clear()
    expr = q.expr
    try:
        expr.npartitions
    except Exception as ex:
        out["notes"][f"npartitions raises for {case[3]}"] = f"{type(ex).__name__}: {str(ex)[:80]}"
        return
    plans = N.stage_plans(expr)
    replay = {"kind": "call", "module": "vf.props._nodewise_driver", "func": "replay_case", "args": {"case": list(case), "which": which}}
    seen_nodes = set()
    for stage, plan in plans.items():
        if isinstance(plan, Exception):
            continue  # an optimizer failure is C01's business
        if which == "C09":
            # graph contract on every executable stage, and on the lowered logical plan
            try:
                low = plan.lower_completely()
            except Exception:
                continue
            bump(out, "C09.graph:closed-acyclic-unambiguous-serializable", f"{cid}|{stage}", rule="every program x layout x stage; distinct by program x stage")
            for kind, detail in N.check_graph(low):
                viol(out, f"C09.graph:{kind}", f"{cid}|stage={stage}", detail, replay)
            continue
        for node in N.iter_nodes(plan):
            if node._name in seen_nodes:
                continue
            seen_nodes.add(node._name)
            r = N.node_parts(node)
            if r[0] == "err":
                continue
            parts = r[1]
            cname = type(node).__name__
            if which == "C06":
                bump(out, "C06.node:divisions-truthful", f"{cname}|{case[3]}", rule="every node of every plan stage; distinct by node class x program")
                for kind, detail in N.check_divisions(node, parts):
                    viol(out, f"C06.node:{kind}", f"{cid}|stage={stage}|node={cname}", f"{detail}; node={str(node)[:120]}", replay)
            else:
                bump(out, "C07.node:meta-matches-partitions", f"{cname}|{case[3]}", rule="every node of every plan stage; distinct by node class x program")
                for kind, detail in N.check_meta(node, parts):
                    viol(out, f"C07.node:{kind}", f"{cid}|stage={stage}|node={cname}", f"{detail}; node={str(node)[:120]}", replay)
        if which == "C07" and stage != "logical":
            # optimization never changes the declared schema
            try:
                m0, m1 = expr._meta, plan._meta
                same = type(m0) is type(m1) and (list(map(str, m0.columns)) == list(map(str, m1.columns)) if hasattr(m0, "columns") else str(getattr(m0, "name", None)) == str(getattr(m1, "name", None)))
                if same and hasattr(m0, "dtypes") and hasattr(m0, "columns"):
                    same = [N._kind(d) for d in m0.dtypes] == [N._kind(d) for d in m1.dtypes]
                elif same and hasattr(m0, "dtype"):
                    same = N._kind(m0.dtype) == N._kind(m1.dtype)
                bump(out, "C07.stage:meta-unchanged-by-optimize", f"{cid}|{stage}", rule="declared schema of optimize_until(e, stage) equals that of e")
                if not same:
                    viol(out, "C07.stage:meta-changed-by-optimize", f"{cid}|stage={stage}", f"logical meta {D.describe(m0)[:150]} vs {D.describe(m1)[:150]}", replay)
            except NotImplementedError:
                pass
    if which == "C06":
        _lengths(case, q, cid, out, replay)
    if len(out["samples"]) < 2:
        out["samples"].append({"case": cid, "stages": list(plans), "nodes": len(seen_nodes)})


def _lengths(case, q, cid, out, replay):
    """len() / shape / size / per-partition lengths answered from metadata equal the computed counts."""
    import pandas as pd

    if not hasattr(q, "expr") or not hasattr(q, "npartitions"):
        return
    try:
        r = D.den_parts(q.expr)
        if r[0] == "err":
            return
        parts = r[1]
        if not all(isinstance(p, (pd.DataFrame, pd.Series, pd.Index)) for p in parts):
            return
        # "the counts of the computed data": the collection as compute() returns it (head/tail of sorted
        # frames may legitimately return up to n rows where the unoptimized plan finds fewer in one partition)
        import warnings as _w

        with _w.catch_warnings():
            _w.simplefilter("ignore")
            true_len = len(q.compute())
        got = len(q)
        bump(out, "C06.len:len()==computed-rows", cid, rule="len(collection) through Len._simplify_down against the computed row count")
        if got != true_len:
            viol(out, "C06.len:len()!=computed-rows", cid, f"len()={got}, computed rows={true_len}", replay)
        if hasattr(q, "shape") and q.ndim == 2:
            sh = q.shape
            n0 = sh[0].compute() if hasattr(sh[0], "compute") else sh[0]
            if int(n0) != true_len:
                viol(out, "C06.len:shape[0]!=computed-rows", cid, f"shape[0]={n0}, computed rows={true_len}", replay)
        from dask_expr._collection import new_collection
        from dask_expr._expr import Lengths

        lens = new_collection(Lengths(q.expr)).compute()
        bump(out, "C06.len:Lengths==per-partition-rows", cid, rule="Lengths(expr) against len of each computed partition")
        prog = C.PROGRAMS[case[3]]
        layout_defined = not (prog.order_free or "sort" in prog.tags or "repart" in case[3] or "head" in case[3] or "tail" in case[3])
        if not layout_defined:
            true_len = sum(len(p) for p in parts) if sum(lens) == sum(len(p) for p in parts) else true_len
        # with a sort / shuffle in the plan the partition boundaries are data-dependent and may legitimately
        # differ between the plan rooted at Lengths and the plan rooted at the collection: compare totals only
        bad = (list(lens) != [len(p) for p in parts]) if layout_defined else (sum(lens) != true_len)
        if bad:
            viol(out, "C06.len:Lengths!=per-partition-rows", cid, f"Lengths={list(lens)}, computed={[len(p) for p in parts]}", replay)
    except Exception as ex:
        out["notes"][f"len probe failed for {case[3]}"] = f"{type(ex).__name__}: {str(ex)[:80]}"


def replay_case(case, which):
    from vf.rt.pool import _init

    _init()
    out = {"counts": {}, "violations": [], "samples": [], "errors": [], "notes": {}}
    ls = case[2]
    ls = (ls[0], tuple(tuple(x) if isinstance(x, list) else x for x in ls[1]) if isinstance(ls[1], list) else ls[1], ls[2])
    check_case((case[0], case[1], ls, case[3]), {"which": which}, out)
    for v in out["violations"]:
        print(v["contract"], "|", v["signature"], "|", v["detail"][:300])
    return bool(out["violations"])


def standard_run(run, which):
    import random

    rng = random.Random(run.seed)
    hand = list(C.PROGRAMS)
    d1 = C.generated_depth1()
    if run.tier == "quick":
        cases = K.standard_cases(hand, ["range"], [("np", 3, True)]) + K.standard_cases(hand, ["dupint"], [("np", 4, True)]) + K.standard_cases(hand, ["float"], [("np", 2, False)])
        cases += K.standard_cases(d1, ["range"], [("np", 3, True)])
        cases += K.standard_cases(hand[::3], ["range"], [("cuts", ((2, 0, 4), (2, 3)), True), ("cuts", ((1, 2, 3), (1, 4)), True)], n=6)
    else:
        lays = [("np", 1, True), ("np", 2, True), ("np", 3, True), ("np", 5, True), ("np", 4, False)]
        cases = K.standard_cases(hand + d1, ["range", "dupint", "float", "str", "dt"], lays)
        cases += K.standard_cases(C.generated_depth2(rng, 1200), ["range", "dupint"], [("np", 3, True)])
        cases += K.standard_cases(hand, ["range", "str"], [("cuts", ((2, 0, 4), (2, 3)), True), ("cuts", ((1, 2, 3), (1, 4)), True), ("cuts", ((6,), (5,)), True)], n=6)
    from vf.rt.pool import run_cases

    run_cases(run, "vf.props._nodewise_driver", "check_case", cases, {"which": which})
    if which in ("C06", "C09"):
        from vf.contracts.registry import run_property_specs

        run_property_specs(run, which)
        run.assume("tier-P obligations: subset semantics A1, floats as reals A2, expression names end in a unique token (A-names); see DESIGN.md 3.4")
    run.trust("vf/rt/corpus.py program catalogue; node values obtained by executing node.lower_completely() with dask.get")
