"""C16 - collections survive serialization to another process (bounded; DESIGN 5 C16).
R: every corpus collection in logical / optimized / lowered form is pickled, loaded in FRESH interpreters
(empty caches, other hash seed) and must have the same name, schema, divisions and computed result."""
from __future__ import annotations

import json
import os
import pickle
import shutil
import subprocess
import sys
import tempfile
import warnings

import numpy as np
import pandas as pd

VERIF = os.path.dirname(os.path.dirname(os.path.dirname(os.path.abspath(__file__))))


def extra_collections(outdir=None):
    """Collections aimed at state kept outside operands: unsorted sources, quantile divisions on large partitions,
    parquet plans cached in the sending process."""
    import dask_expr as dx

    n = 240
    i = np.arange(n)
    rs = np.random.RandomState(3)
    pdf = pd.DataFrame({"a": rs.permutation(n) * 1.5, "k": (i * 7) % 13, "v": i}, index=rs.permutation(n))
    big = dx.from_pandas(pdf, npartitions=4)  # unsorted index + sort=True
    out = {
        "unsorted_source": lambda: big,
        "unsorted_source_sum": lambda: big.v.sum(),
        "unsorted_nosort": lambda: dx.from_pandas(pdf, npartitions=3, sort=False).v + 1,
        "set_index_large": lambda: big.set_index("a"),
        "set_index_large_np": lambda: big.set_index("a", npartitions=3),
        "sort_large": lambda: big.sort_values("a"),
        "sort_large_desc": lambda: big.sort_values("a", ascending=False).v,
        "set_index_then_loc": lambda: big.set_index("a").loc[30.0:200.0],
        # the new index given as a Series expression rather than a column label, plain and derived
        "set_index_series_key": lambda: big.set_index(big.a),
        "set_index_series_key_derived": lambda: big.set_index(big.a * 2 + 1).v,
        "set_index_series_key_np": lambda: big.set_index(big.v % 50, npartitions=3),
        "set_index_label_keep": lambda: big.set_index("a", drop=False),
        "sort_two_keys": lambda: big.sort_values(["k", "a"]),
        "repartition_size": lambda: big.repartition(partition_size="1kB").v,
        "merge_large": lambda: big.merge(big[["k", "v"]].rename(columns={"v": "v2"}), on="k").v2.sum(),
    }
    if outdir is not None:
        # a parquet dataset (fsspec reader; collections of the arrow reader hold unpicklable FileInfo objects). The
        # sending process first PEEKS at it with default arguments, which fills the process-wide plan cache.
        pq = os.path.join(outdir, "pq")
        if not os.path.exists(pq):
            os.makedirs(pq)
            src = pd.DataFrame({"x": np.arange(40), "y": (np.arange(40) * 3) % 7 * 1.0}, index=pd.Index(np.arange(40) * 2 + 100, name="ix"))
            for k, (a, b) in enumerate(((0, 5), (5, 20), (20, 28), (28, 40))):
                src.iloc[a:b].to_parquet(os.path.join(pq, f"part.{k}.parquet"))
        peek = dx.read_parquet(pq)
        len(peek)
        peek.partitions[1][["x"]].optimize()
        out.update(
            {
                # (no plain read among the shipped collections: the receiving interpreter must not repeat the sender's history)
                "pq_calc_after_peek": lambda: dx.read_parquet(pq, calculate_divisions=True),
                "pq_calc_after_peek_x": lambda: dx.read_parquet(pq, calculate_divisions=True)[["x"]],
                "pq_filtered": lambda: (lambda r: r[r.x > 10])(dx.read_parquet(pq, calculate_divisions=True)),
            }
        )
        # the dataset opened through a path RELATIVE to the sender's working directory, as in a notebook or script
        # (read_parquet("data")); the receiving interpreters of the second hash seed run in another directory
        rel = os.path.relpath(pq)
        out.update(
            {
                "pq_relative_path": lambda: dx.read_parquet(rel, calculate_divisions=True),
                "pq_relative_path_y_sum": lambda: dx.read_parquet(rel).y.sum(),
                "pq_relative_path_filtered_x": lambda: (lambda r: r[r.x > 10][["x"]])(dx.read_parquet(rel)),
            }
        )
    return out


def describe_meta(m):
    if isinstance(m, pd.DataFrame):
        return {"type": "frame", "columns": [str(c) for c in m.columns], "dtypes": [str(d) for d in m.dtypes], "index": str(m.index.name)}
    if isinstance(m, pd.Series):
        return {"type": "series", "name": str(m.name), "dtype": str(m.dtype), "index": str(m.index.name)}
    if isinstance(m, pd.Index):
        return {"type": "index", "name": str(m.name), "dtype": str(m.dtype)}
    return {"type": type(m).__name__}


def _divs(q):
    try:
        return [None if d is None else str(d) for d in q.divisions]
    except Exception as ex:
        return ["ERR " + type(ex).__name__]


def sender(outdir, names, tier):
    """Builds the collections, pickles each form, records the sender-side observations."""
    import cloudpickle
    import dask

    from dask_expr._collection import new_collection

    from vf.rt import cases as K
    from vf.rt import corpus as C

    dask.config.set({"dataframe.shuffle.method": "tasks", "scheduler": "sync"})
    items = {}
    for n in names:
        items[f"prog/{n}"] = (lambda n=n: K.build(("range", 12, ("np", 3, True), n))[1])
    for k, mk in extra_collections(outdir).items():
        items[f"extra/{k}"] = mk
    manifest = {}
    with warnings.catch_warnings():
        warnings.simplefilter("ignore")
        for key, mk in items.items():
            try:
                q = mk()
            except Exception:
                continue
            if not hasattr(q, "expr"):
                continue
            forms = {"logical": lambda: q}
            forms["optimized"] = lambda: q.optimize(fuse=True)
            forms["optimized-nofuse"] = lambda: q.optimize(fuse=False)
            forms["lowered"] = lambda: new_collection(q.expr.lower_completely())
            for fname, mkf in forms.items():
                ident = f"{key}|{fname}"
                try:
                    c = mkf()
                    rec = {"name": c._name, "meta": describe_meta(c._meta), "divisions": _divs(c)}
                    blob = cloudpickle.dumps(c)
                except Exception as ex:
                    manifest[ident] = {"sender_error": f"{type(ex).__name__}: {str(ex)[:120]}"}
                    continue
                try:
                    res = c.compute()
                    rec["result"] = True
                except Exception as ex:
                    res = None
                    rec["result"] = False
                    rec["compute_error"] = f"{type(ex).__name__}: {str(ex)[:100]}"
                fn = f"{len(manifest):05d}"
                with open(os.path.join(outdir, fn + ".pkl"), "wb") as f:
                    f.write(blob)
                with open(os.path.join(outdir, fn + ".res"), "wb") as f:
                    pickle.dump(res, f)
                rec["file"] = fn
                manifest[ident] = rec
    json.dump(manifest, open(os.path.join(outdir, "manifest.json"), "w"))
    return manifest


def receiver(outdir, form=None):
    """Runs in a fresh interpreter: loads every pickle OF ONE FORM and reports what it sees (loading the logical
    form of a query first would warm the process-global caches for its optimized / lowered forms)."""
    import dask

    from vf.rt import den as D

    dask.config.set({"dataframe.shuffle.method": "tasks", "scheduler": "sync"})
    manifest = json.load(open(os.path.join(outdir, "manifest.json")))
    report = {}
    with warnings.catch_warnings():
        warnings.simplefilter("ignore")
        for ident, rec in manifest.items():
            if "file" not in rec or (form is not None and not ident.endswith("|" + form)):
                continue
            r = {}
            try:
                c = pickle.load(open(os.path.join(outdir, rec["file"] + ".pkl"), "rb"))
            except Exception as ex:
                report[ident] = {"load_error": f"{type(ex).__name__}: {str(ex)[:160]}"}
                continue
            for field, get in (("name", lambda: c._name), ("meta", lambda: describe_meta(c._meta)), ("divisions", lambda: _divs(c))):
                try:
                    r[field] = get()
                except Exception as ex:
                    r[field] = f"ERR {type(ex).__name__}: {str(ex)[:100]}"
            if rec.get("result"):
                try:
                    got = c.compute()
                    exp = pickle.load(open(os.path.join(outdir, rec["file"] + ".res"), "rb"))
                    e = D.equiv(got, exp)
                    if e is False:
                        e = D.equiv(got, exp, order_free=True, index_free=True)
                        r["result"] = "same-multiset" if e else f"DIFFERS got={D.describe(got)[:120]} exp={D.describe(exp)[:120]}"
                    else:
                        r["result"] = "equal"
                except Exception as ex:
                    r["result"] = f"ERR {type(ex).__name__}: {str(ex)[:140]}"
            report[ident] = r
    print("@@" + json.dumps(report))


def run(run):
    from vf.rt import corpus as C

    # tier P: what __reduce__ ships (class + ALL operands; the expression; the data without the per-process cache),
    # and the guard that every pickling hook of the package is under contract
    from vf.contracts.registry import run_property_specs
    from vf.contracts.serialize import coverage_guard

    run_property_specs(run, "C16")
    coverage_guard(run)

    names = [n for n in C.PROGRAMS if "disk" not in C.PROGRAMS[n].tags and (C.PROGRAMS[n].only is None or "C16" in C.PROGRAMS[n].only)]
    if run.tier == "quick":
        names = names[::2] + [n for n in names if n.startswith(("set_index", "sort_", "repartition", "merge_", "shuffle"))]
        names = sorted(set(names))
    else:
        names = names + C.generated_depth1(["id", "sum_u"])
    tmp = tempfile.mkdtemp(prefix="verif_c16_")
    try:
        manifest = sender(tmp, names, run.tier)
        for hs in ("0", "4242") if run.tier == "quick" else ("0", "1", "4242", "random"):
            env = dict(os.environ)
            if hs == "random":
                env.pop("PYTHONHASHSEED", None)
            else:
                env["PYTHONHASHSEED"] = hs
            rep = {}
            failed = False
            # the working directory is state of the originating process as well: every receiver but the first one's runs elsewhere
            elsewhere = None
            if hs != "0":
                elsewhere = os.path.join(tmp, "receiver_cwd")
                os.makedirs(elsewhere, exist_ok=True)
            for form in ("logical", "optimized", "optimized-nofuse", "lowered"):
                code = "import sys, warnings; warnings.filterwarnings('ignore'); sys.path.insert(0, %r); sys.path.append(%r)\nfrom vf.props import C16\nC16.receiver(%r, %r)\n" % (VERIF, os.path.join(VERIF, ".overlay"), tmp, form)
                r = subprocess.run([sys.executable, "-W", "ignore", "-c", code], capture_output=True, text=True, env=env, timeout=3000, cwd=elsewhere)
                part = None
                for line in r.stdout.splitlines():
                    if line.startswith("@@"):
                        part = json.loads(line[2:])
                if part is None:
                    run.errors.append("receiver failed: " + r.stderr[-500:])
                    failed = True
                    break
                rep.update(part)
            if failed:
                continue
            for ident, rec in manifest.items():
                if "file" not in rec:
                    if "PicklingError" in rec.get("sender_error", "") or "pickle" in rec.get("sender_error", "").lower():
                        run.violation("C16.pickle:cannot-be-pickled", ident, rec["sender_error"], {"kind": "none"})
                    continue
                got = rep.get(ident, {})
                run.count("C16.roundtrip:name-schema-divisions-result", 1, f"{ident}|{hs}", rule="corpus collections x {logical, optimized, optimized-nofuse, lowered} x fresh interpreters (PYTHONHASHSEED 0 / 4242 ...; all but the first in another working directory)")
                sig = f"{ident}|PYTHONHASHSEED={hs}" + ("|receiver in another working directory" if elsewhere else "")
                if "load_error" in got:
                    run.violation("C16.roundtrip:load-fails", sig, got["load_error"], {"kind": "none"})
                    continue
                for field in ("name", "meta", "divisions"):
                    if got.get(field) != rec.get(field):
                        run.violation(f"C16.roundtrip:{field}-differs", sig, f"sender {str(rec.get(field))[:140]} receiver {str(got.get(field))[:140]}", {"kind": "none"})
                if rec.get("result") and got.get("result") not in ("equal", "same-multiset"):
                    run.violation("C16.roundtrip:result-differs-or-fails", sig, str(got.get("result"))[:300], {"kind": "none"})
        run.sample({"collections": len(manifest), "forms": ["logical", "optimized", "optimized-nofuse", "lowered"]})
    finally:
        shutil.rmtree(tmp, ignore_errors=True)
    try:
        from vf.contracts import reads

        funcs, obs = reads.run_all()
        run.functions.extend(funcs)
        for o in obs:
            run.obligations.append(o)
            if o["status"] == "refuted":
                run.violation(o["name"], "no-model", o["detail"], {"kind": "none", "obligation": o["name"], "verifier_output": o["detail"]}, confirmed=False, tier="P")
    except ImportError:
        pass
    run.assume("the receiving interpreters are fresh processes on the same machine (same library versions, same files for file-backed sources)")
    run.trust("vf/rt/corpus.py program catalogue; cloudpickle for user lambdas inside map_partitions programs")
