"""C13 - repartitioning preserves rows and order and honours the requested layout."""
from vf.contracts import repartition
from vf.props._p import run_specs


def run(run):
    run_specs(run, repartition.SPECS, "C13")
