"""C13 - repartitioning preserves rows and order and honours the requested layout (DESIGN 5 C13).
P: count-based kernels (vf/contracts/repartition.py); S: exhaustive check of the divisions planner
RepartitionDivisions._layer through the abstract graph interpreter; R: end-to-end run-time contracts."""
from __future__ import annotations

import itertools
import warnings

import numpy as np
import pandas as pd

from vf.contracts import repartition
from vf.props._p import run_specs
from vf.rt.pool import bump, run_cases, viol

S_RULE = "all pairs (old divisions a, new divisions b) of non-decreasing vectors (lengths 2..4) over an ordered domain of 6 values x force on/off; the planner only compares division values, so this realises every order type of that many elements; rows at every domain value, duplicated; distinct by (a, b, force)"


def vectors(dom, max_len):
    out = []
    for ln in range(2, max_len + 1):
        out.extend(itertools.combinations_with_replacement(range(dom), ln))
    return out


def place_rows(a):
    """Input partitions for old divisions a: two rows per domain value in [a[0], a[-1]]."""
    n = len(a) - 1
    parts = [[] for _ in range(n)]
    for x in range(a[0], a[-1] + 1):
        i = max(k for k in range(len(a)) if a[k] <= x)
        i = min(i, n - 1)
        # repeated boundaries: the value sits in the last partition that starts at it
        for dup in range(2):
            parts[i].append((i, len(parts[i]), x, 0))
    return [tuple(p) for p in parts]


def must_raise(a, b, force):
    if len(b) < 2:
        return True
    if force:
        return a[0] < b[0] or a[-1] > b[-1]
    return a[0] != b[0] or a[-1] != b[-1]


def s_case(case, common, out):
    from dask_expr._repartition import RepartitionDivisions

    from vf.rt import graphsem as G
    from vf.rt.stub import stub_frame

    a_list, bs = case
    sem = G.default_semantics()
    for a in a_list:
        # the collection API only builds known, sorted old divisions; repeated values are allowed
        fr = stub_frame(divisions=a, tag="r")
        inputs = {(fr._name, i): p for i, p in enumerate(place_rows(a))}
        allrows = [r for p in place_rows(a) for r in p]
        for b in bs:
            for force in (False, True):
                sig = f"a={a}|b={b}|force={force}"
                replay = {"kind": "call", "module": "vf.props.C13", "func": "replay_s", "args": {"a": list(a), "b": list(b), "force": force}}
                expect_error = must_raise(a, b, force)
                bump(out, "C13.S.planner:rows-order-layout", sig if not expect_error else None, tier="S", rule=S_RULE)
                try:
                    rd = RepartitionDivisions(fr, b, force)
                    layer = rd._layer()
                except ValueError as ex:
                    if not expect_error:
                        viol(out, "C13.S.planner:rejects-a-satisfiable-request", sig, f"ValueError: {str(ex)[:120]}", replay)
                    continue
                except Exception as ex:
                    viol(out, "C13.S.planner:raises", sig, f"{type(ex).__name__}: {str(ex)[:160]}", replay)
                    continue
                if expect_error:
                    viol(out, "C13.S.planner:accepts-an-unsatisfiable-request", sig, "no error although the old range is not covered / end points differ", replay)
                    continue
                nout = len(b) - 1
                keys = [(rd._name, j) for j in range(nout)]
                missing = [k for k in keys if k not in layer]
                if missing:
                    viol(out, "C13.S.planner:K1-output-undefined", sig, f"{missing[0]!r} not defined", replay)
                    continue
                try:
                    outs = G.run_layer(layer, inputs, keys, sem)
                except Exception as ex:
                    viol(out, "C13.S.planner:not-executable", sig, f"{type(ex).__name__}: {str(ex)[:160]}", replay)
                    continue
                # rows and order preserved over the whole collection
                flat = [r for p in outs for r in p]
                if flat != allrows:
                    lost = len(allrows) - len(flat)
                    viol(out, "C13.S.planner:rows-or-order-changed", sig, f"{len(allrows)} rows in, {len(flat)} out ({'lost' if lost > 0 else 'gained'} {abs(lost)}); first difference at {next((i for i, (x, y) in enumerate(zip(flat, allrows)) if x != y), min(len(flat), len(allrows)))}", replay)
                    continue
                # layout: partition j holds idx in [b[j], b[j+1]) ; the last one includes its upper bound
                for j, p in enumerate(outs):
                    last = j == nout - 1
                    bad = [r for r in p if not (b[j] <= r[2] and (r[2] <= b[j + 1] if last else r[2] < b[j + 1]))]
                    if bad:
                        # repeated target boundaries: a value equal to a repeated boundary may sit in either of the
                        # partitions that start at it; it must not sit below its lower bound or above its upper bound
                        hard = [r for r in bad if r[2] < b[j] or r[2] > b[j + 1] or (r[2] == b[j + 1] and not last and b.count(b[j + 1]) == 1)]
                        if hard:
                            viol(out, "C13.S.planner:divisions-not-respected", sig, f"output {j} [{b[j]}, {b[j+1]}{']' if last else ')'} holds index value {hard[0][2]}", replay)
                            break
    if len(out["samples"]) < 2:
        out["samples"].append({"a": list(a_list[0]), "b": [list(x) for x in bs[:3]]})


def replay_s(a, b, force):
    out = {"counts": {}, "violations": [], "samples": [], "errors": [], "notes": {}}
    s_case(([tuple(a)], [tuple(b)]), {}, out)
    vs = [v for v in out["violations"] if f"force={force}" in v["signature"]]
    for v in vs:
        print(v["contract"], "|", v["signature"], "|", v["detail"][:300])
    return bool(vs)


# ---------------------------------------------------------------------------------------------
# R tier: end-to-end
# ---------------------------------------------------------------------------------------------
def _index(kind, n):
    i = np.arange(n)
    if kind == "int":
        return pd.Index(i, name="ix")
    if kind == "dupint":
        return pd.Index(np.sort((i * 3) % 7), name="ix")
    if kind == "dupmax":
        return pd.Index(np.minimum(i, n - 5), name="ix")  # the largest value heavily duplicated
    if kind == "float":
        return pd.Index(i * 0.5 - 2, name="ix")
    if kind == "str":
        return pd.Index([f"k{x:03d}" for x in i], name="ix")
    if kind == "dt":
        return pd.Index(pd.Timestamp("2024-01-01") + pd.to_timedelta(i * 6, unit="h"), name="ix")
    if kind == "dt_off":  # the first timestamp is not on the grid of any requested frequency
        return pd.Index(pd.Timestamp("2024-01-01 05:00") + pd.to_timedelta(i * 6, unit="h"), name="ix")
    if kind == "dt_ms":  # ns resolution with a millisecond part: the end points are not exactly representable in float64
        return pd.Index((pd.Timestamp("2024-01-01 00:00:00.123") + pd.to_timedelta(i * 6, unit="h")).as_unit("ns"), name="ix")
    if kind == "bigint":  # int64 labels above 2**53 (epoch nanoseconds, snowflake ids): not exactly representable in float64
        return pd.Index(2**60 + 1 + i * 1001, dtype="int64", name="ix")
    raise KeyError(kind)


def r_case(case, common, out):
    import dask_expr as dx

    kind, n, nin, req = case
    pdf = pd.DataFrame({"v": np.arange(n), "s": [f"r{x}" for x in range(n)], "w": np.arange(n) * 1.5}, index=_index(kind, n))
    sig = f"index={kind}|n={n}|n_in={nin}|request={req}"
    replay = {"kind": "call", "module": "vf.props.C13", "func": "replay_r", "args": {"case": list(case)}}
    with warnings.catch_warnings():
        warnings.simplefilter("ignore")
        try:
            if isinstance(nin, (list, tuple)):
                bounds = np.cumsum([0] + list(nin))
                pieces = [pdf.iloc[a:b] for a, b in zip(bounds, bounds[1:])]
                divs = tuple(p.index[0] for p in pieces) + (pieces[-1].index[-1],) if kind in ("int", "float", "str", "dt", "dt_off", "dt_ms", "bigint") else None
                df = dx.from_map(lambda p: p, pieces, meta=pdf.iloc[:0], divisions=divs, enforce_metadata=False)
            else:
                df = dx.from_pandas(pdf, npartitions=nin, sort=True)
            old = df.divisions
            what, arg = req
            if old[0] is None and what in ("divisions", "force"):
                return  # a divisions request needs known divisions (its rejection is part of the P contract)
            if what == "npartitions":
                q = df.repartition(npartitions=arg)
            elif what == "divisions":
                d = list(old)
                if arg == "coarser":
                    nd = [d[0]] + d[2:-1:2] + [d[-1]]
                elif arg == "finer":
                    mid = [pdf.index[len(pdf) // 3], pdf.index[2 * len(pdf) // 3]]
                    nd = sorted(set(d) | set(mid))
                elif arg == "shifted":
                    nd = [d[0]] + [pdf.index[min(len(pdf) - 1, k)] for k in range(3, len(pdf) - 1, max(2, len(pdf) // 4))] + [d[-1]]
                    nd = sorted(set(nd))
                elif arg == "repeat-last":
                    nd = [d[0], pdf.index[len(pdf) // 2], d[-1], d[-1]]
                    nd = [nd[0]] + sorted(set(nd[1:-1])) + [nd[-1]] if nd[1] != nd[2] else nd
                    nd = [d[0], pdf.index[len(pdf) // 2], d[-1], d[-1]]
                elif arg == "same":
                    nd = d
                elif arg == "unsorted":
                    # divisions that are not increasing cannot be honoured by any layout: the request must be rejected
                    x, y = pdf.index[len(pdf) // 3], pdf.index[2 * len(pdf) // 3]
                    if not (d[0] < x < y < d[-1]):
                        return
                    nd = [d[0], y, x, d[-1]]
                q = df.repartition(divisions=nd)
            elif what == "force":
                d = list(old)
                lo = d[0] - 2 if kind in ("int", "dupint", "dupmax", "float", "bigint") else d[0]
                hi = d[-1] + 3 if kind in ("int", "dupint", "dupmax", "float", "bigint") else d[-1]
                q = df.repartition(divisions=[lo, d[len(d) // 2], hi], force=True)
            elif what == "partition_size":
                q = df.repartition(partition_size=arg)
            elif what == "freq":
                q = df.repartition(freq=arg)
            elif what == "align":
                return _align_case(out, df, pdf, arg, sig, replay)
            if (what, arg) == ("divisions", "unsorted"):
                # observed the way a user does: to_delayed() passes through the legacy collection class, whose own
                # validation of the divisions would hide an acceptance by repartition() itself
                whole, parts = q.compute(scheduler="sync"), None
            else:
                parts = [p.compute() for p in q.to_delayed()]
                whole = pd.concat(parts) if parts else pdf.iloc[:0]
        except (ValueError, NotImplementedError, TypeError) as ex:
            # an explicit rejection is allowed only for requests the input cannot satisfy
            satisfiable = not (what == "divisions" and kind in ("dupint", "dupmax") and arg in ("finer", "shifted"))
            bump(out, "C13.R.repartition:rows-order-divisions", None, rule="index dtype x input layout x request")
            if what in ("npartitions", "partition_size", "freq") or (what == "divisions" and arg in ("same", "coarser")):
                viol(out, "C13.R.repartition:rejects-a-satisfiable-request", sig, f"{type(ex).__name__}: {str(ex)[:160]}", replay)
            else:
                out["notes"][f"rejected: {sig}"] = f"{type(ex).__name__}: {str(ex)[:80]}"
            return
        except Exception as ex:
            viol(out, "C13.R.repartition:raises", sig, f"{type(ex).__name__}: {str(ex)[:200]}", replay)
            return
    if what == "divisions" and arg == "unsorted":
        bump(out, "C13.R.repartition:rows-order-divisions", sig, rule="index dtype x input layout x request")
        a = whole.v.tolist()
        viol(out, "C13.R.repartition:accepts-an-unsatisfiable-request", sig, f"divisions {[str(x) for x in nd]} are not increasing, no error; reported divisions {tuple(str(x) for x in q.divisions)}; {len(pdf)} rows in, {len(a)} out", replay)
        return
    bump(out, "C13.R.repartition:rows-order-divisions", sig, rule="index dtype x input layout x request (npartitions up/down, divisions coarser/finer/shifted/repeated last, force, partition_size, freq)")
    if whole.v.tolist() != pdf.v.tolist():
        a, b = whole.v.tolist(), pdf.v.tolist()
        viol(out, "C13.R.repartition:rows-or-order-changed", sig, f"{len(b)} rows in, {len(a)} out; multiset equal: {sorted(a) == sorted(b)}; first 8 out: {a[:8]}", replay)
        return
    if len(parts) != q.npartitions:
        out["notes"][f"computed partition count differs from npartitions (C06's business): {sig}"] = f"{len(parts)} vs {q.npartitions}"
    d = q.divisions
    if what == "freq":
        if d[0] is None or list(d) != sorted(d) or len(d) != len(parts) + 1:
            viol(out, "C13.R.repartition:freq-divisions-malformed", sig, f"divisions {tuple(str(x) for x in d)} for {len(parts)} computed partitions", replay)
            return
    if what in ("divisions", "force", "freq") and d[0] is not None:
        for j, p in enumerate(parts):
            if len(p) == 0:
                continue
            last = j == len(parts) - 1
            lo, hi = p.index.min(), p.index.max()
            if lo < d[j] or hi > d[j + 1] or (hi == d[j + 1] and not last and list(d).count(d[j + 1]) == 1):
                viol(out, "C13.R.repartition:divisions-not-respected", sig, f"partition {j} holds [{lo}, {hi}] under divisions {d[j]}..{d[j+1]}", replay)
                break
    if what == "npartitions" and q.npartitions != arg and not (arg > len(pdf)):
        out["notes"][f"npartitions request not met exactly: {sig}"] = f"{q.npartitions} != {arg}"


def _same_rows(got, want):
    try:
        pd.testing.assert_frame_equal(got, want, check_dtype=False, check_index_type=False)
        return True
    except AssertionError:
        return False


def _align_case(out, a, pa, arg, sig, replay):
    """Alignment is built on repartition: a.align(b) lays both operands out on the union of their divisions.  Each
    output holds exactly the rows pandas' align gives, in order, and every partition respects the reported divisions."""
    import dask_expr as dx

    if a.divisions[0] is None:
        return
    a, pa = a[["v", "w"]], pa[["v", "w"]]  # (string columns differ from pandas in dtype only: not this property's business)
    U = list(pd.unique(pa.index))
    nd = {"mid": [U[0], U[len(U) // 2], U[-1]], "thirds": [U[0], U[len(U) // 3], U[2 * len(U) // 3], U[-1]], "one": [U[0], U[-1]], "near-end": [U[0], U[-2], U[-1]]}[arg]
    nd = sorted(set(nd))
    if len(nd) < 2:
        return
    pb = pd.DataFrame({"w2": np.arange(len(U)) * 10.0}, index=pd.Index(U, name="ix"))
    b = dx.from_pandas(pb, npartitions=1, sort=True).repartition(divisions=nd)
    bump(out, "C13.R.align:rows-order-divisions", sig, rule="index dtype x input layout (incl. repeated last division) x divisions of the other operand; align() outputs and an implicitly aligning assign")
    left, right = a.align(b, join="outer")
    pl, pr = pa.align(pb, join="outer")
    if tuple(left.divisions) != tuple(right.divisions):
        viol(out, "C13.R.align:outputs-differ-in-divisions", sig, f"{left.divisions} vs {right.divisions}", replay)
        return
    for name, fr, want in (("left", left, pl), ("right", right, pr)):
        try:
            parts = [p.compute(scheduler="sync") for p in fr.to_delayed()]
        except Exception as ex:
            viol(out, "C13.R.align:raises", sig, f"{name}: {type(ex).__name__}: {str(ex)[:160]}", replay)
            return
        whole = pd.concat(parts)
        if not _same_rows(whole, want):
            viol(out, "C13.R.align:rows-or-order-changed", sig, f"{name}: index out {whole.index.tolist()[:14]} expected {want.index.tolist()[:14]}", replay)
            return
        d = fr.divisions
        if len(parts) != len(d) - 1:
            viol(out, "C13.R.align:divisions-not-respected", sig, f"{name}: {len(parts)} partitions under divisions {d}", replay)
            return
        for j, p in enumerate(parts):
            if not len(p):
                continue
            last = j == len(parts) - 1
            lo, hi = p.index.min(), p.index.max()
            if lo < d[j] or hi > d[j + 1] or (hi == d[j + 1] and not last and list(d).count(d[j + 1]) == 1):
                viol(out, "C13.R.align:divisions-not-respected", sig, f"{name}: partition {j} holds [{lo}, {hi}] under divisions {d[j]}..{d[j+1]}", replay)
                return
    try:
        got = a.assign(y=b.w2).compute(scheduler="sync")
    except Exception as ex:
        viol(out, "C13.R.align:raises", sig, f"assign of a column of the other frame: {type(ex).__name__}: {str(ex)[:160]}", replay)
        return
    want = pa.assign(y=pb.w2)
    if not _same_rows(got, want):
        viol(out, "C13.R.align:rows-or-order-changed", sig, "assign of a column of the other frame differs from pandas", replay)


def replay_r(case):
    from vf.rt.pool import _init

    _init()
    out = {"counts": {}, "violations": [], "samples": [], "errors": [], "notes": {}}
    c = list(case)
    c[2] = tuple(c[2]) if isinstance(c[2], list) else c[2]
    c[3] = tuple(c[3])
    r_case(tuple(c), {}, out)
    for v in out["violations"]:
        print(v["contract"], "|", v["signature"], "|", v["detail"][:300])
    return bool(out["violations"])


def run(run):
    from vf.rt import graphsem as G

    from vf.contracts.registry import run_property_specs

    run_property_specs(run, "C13")
    n, bad = G.check_assumed_contracts()
    run.count("C13.assumed-contracts:cross-checked-against-real-functions", n, "assumed", tier="R", rule="assumed contracts of boundary_slice / split_evenly / concat evaluated against the real dask functions")
    for b in bad:
        run.errors.append(f"assumed contract disagrees with the real function: {b!r}"[:300])
    dom, mlen = (6, 4) if run.tier == "quick" else (7, 5)
    vs = vectors(dom, mlen)
    a_vs = [v for v in vs if True]
    chunks = [a_vs[i : i + 4] for i in range(0, len(a_vs), 4)]
    bsel = vs if run.tier == "thorough" else vs
    run_cases(run, "vf.props.C13", "s_case", [(c, bsel) for c in chunks], {}, chunk=1)
    rc = []
    for kind in ("int", "dupint", "dupmax", "float", "str", "dt", "dt_off", "dt_ms", "bigint"):
        for n, nin in ((24, 4), (24, 1), (25, 7), (9, 3), (12, 5), (24, (10, 4, 10)), (30, (12, 3, 15))):
            for req in (("npartitions", 2), ("npartitions", 1), ("npartitions", 9), ("npartitions", 4), ("divisions", "coarser"), ("divisions", "finer"), ("divisions", "shifted"), ("divisions", "repeat-last"), ("divisions", "same"), ("divisions", "unsorted"), ("force", None), ("partition_size", "0.3kB"), ("partition_size", "1kB")):
                rc.append((kind, n, nin, req))
            for arg in ("mid", "thirds", "one", "near-end"):
                rc.append((kind, n, nin, ("align", arg)))
            if kind in ("dt", "dt_off", "dt_ms"):
                rc.append((kind, n, nin, ("freq", "1D")))
                rc.append((kind, n, nin, ("freq", "2D")))
                rc.append((kind, n, nin, ("freq", "12h")))
    run_cases(run, "vf.props.C13", "r_case", rc, {}, chunk=4)
    run.assume("A2: n_in / n_out and int(i * ratio) in RepartitionToFewer are evaluated over the reals in the proof; the same expressions are executed concretely by the cross-check for n_in <= 40 and five large pairs")
    run.assume("L1 (boundaries partition a range, Lean 4, lemmas/L1.lean): monotone boundaries from 0 to n cover every input partition exactly once")
    run.trust("dask.dataframe.core._concat / split_evenly and dask.dataframe.methods.boundary_slice are given assumed contracts (cross-checked on every run)")
