"""C19 - optimization terminates, is deterministic and idempotent (bounded; DESIGN 5 C19).
Unbounded termination of the rule system is NOT claimed; the bounded contract checks a step budget and a watchdog."""
from __future__ import annotations

import os
import signal
import time
import subprocess
import sys
import warnings

from vf.rt import cases as K
from vf.rt import corpus as C
from vf.rt import den as D
from vf.rt import nodewise as N
from vf.rt.pool import bump, run_cases, viol

WATCHDOG_S = 60
_counter = None


class _Steps:
    """Counts rewrite-rule invocations that return a replacement (no oracle: cheap)."""

    def __init__(self):
        self.steps = 0
        from dask_expr import _core

        from vf.rt.install import RULE_METHODS, all_expr_classes

        for cls in all_expr_classes():
            for name, _ in RULE_METHODS:
                if name in cls.__dict__ and not getattr(cls.__dict__[name], "_verif_steps", False):
                    self._wrap(cls, name, _core)

    def _wrap(self, cls, name, _core):
        orig = cls.__dict__[name]
        me = self

        def wrapper(self_, *a, **k):
            out = orig(self_, *a, **k)
            if out is not None and isinstance(out, _core.Expr):
                me.steps += 1
            return out

        wrapper._verif_steps = True
        wrapper.__name__ = name
        setattr(cls, name, wrapper)


class _Timeout(Exception):
    pass


def _alarm(signum, frame):
    raise _Timeout()


def check_case(case, common, out):
    global _counter
    if _counter is None:
        _counter = _Steps()
    cid = K.case_id(case)
    replay = {"kind": "call", "module": "vf.props.C19", "func": "replay_case", "args": {"case": list(case)}}
    # programs whose result is a plain number (len(x), x.shape[0] of an eager API) optimize and compute while they are
    # BUILT: the same watchdog applies there
    _counter.steps = 0
    signal.signal(signal.SIGALRM, _alarm)
    signal.alarm(WATCHDOG_S)
    try:
        prog, q = K.build(case)
    except _Timeout:
        viol(out, "C19.optimize:terminates-within-watchdog", f"{cid}|while the program is built", f"building the program (it calls len() / compute(), i.e. optimize()) still running after {WATCHDOG_S}s ({_counter.steps} rewrite steps)", replay)
        return
    except Exception as ex:
        out["notes"][f"refused at construction: {case[3]}"] = f"{type(ex).__name__}: {str(ex)[:80]}"
        return
    finally:
        signal.alarm(0)
    if not hasattr(q, "expr"):
        return
    nodes = sum(1 for _ in N.iter_nodes(q.expr))
    budget = 60 * nodes * nodes + 2000
    names = {}
    for fuse in (False, True):
        _counter.steps = 0
        signal.signal(signal.SIGALRM, _alarm)
        signal.alarm(WATCHDOG_S)
        try:
            o1 = q.optimize(fuse=fuse)
        except _Timeout:
            viol(out, "C19.optimize:terminates-within-watchdog", f"{cid}|fuse={fuse}", f"optimize() still running after {WATCHDOG_S}s ({_counter.steps} rewrite steps)", replay)
            if not fuse:
                break  # optimize(fuse=True) runs the very same passes first: no second wait for the same report
            continue
        except RuntimeError as ex:
            if "converge" in str(ex):
                viol(out, "C19.optimize:reports-non-convergence", f"{cid}|fuse={fuse}", str(ex)[:200], replay)
            continue
        except Exception:
            continue  # other optimizer failures are C01's business
        finally:
            signal.alarm(0)
        steps = _counter.steps
        bump(out, "C19.optimize:terminates-deterministic-idempotent", cid if steps else None, rule="program x layout x fuse; non-trivial iff at least one rewrite step fired")
        if steps > budget:
            viol(out, "C19.optimize:step-budget", f"{cid}|fuse={fuse}", f"{steps} rewrite steps for {nodes} nodes (budget {budget})", replay)
        # determinism inside the process: rebuild the same program and optimize again
        try:
            _, q2 = K.build(case)
            o2 = q2.optimize(fuse=fuse)
            if q2.expr._name != q.expr._name:
                viol(out, "C19.build:same-program-same-name", cid, f"{q.expr._name} vs {q2.expr._name}", replay)
            if o2.expr._name != o1.expr._name:
                viol(out, "C19.optimize:same-plan-every-time", f"{cid}|fuse={fuse}", f"{o1.expr._name} vs {o2.expr._name}", replay)
        except Exception as ex:
            viol(out, "C19.optimize:second-run-fails", f"{cid}|fuse={fuse}", f"{type(ex).__name__}: {str(ex)[:160]}", replay)
        names[fuse] = o1.expr._name
        # idempotence
        try:
            signal.alarm(WATCHDOG_S)
            oo = o1.optimize(fuse=fuse)
            signal.alarm(0)
        except _Timeout:
            viol(out, "C19.optimize:terminates-within-watchdog", f"{cid}|fuse={fuse}|second-pass", "optimize(optimize(q)) hangs", replay)
            continue
        except Exception as ex:
            signal.alarm(0)
            viol(out, "C19.idempotent:optimize(optimize(q))-fails", f"{cid}|fuse={fuse}", f"{type(ex).__name__}: {str(ex)[:200]}", replay)
            continue
        if not fuse and oo.expr._name != o1.expr._name:
            viol(out, "C19.idempotent:plan-changes-on-second-optimize", f"{cid}|fuse=False", f"{o1.expr._name} -> {oo.expr._name}", replay)
        if fuse:
            # the fusion loop must have reached its fixed point: fusing the fused plan again changes nothing
            try:
                from dask_expr._expr import optimize_blockwise_fusion

                again = optimize_blockwise_fusion(o1.expr)
                bump(out, "C19.fusion:fixed-point", cid, rule="optimize_blockwise_fusion(optimize(q, fuse=True)) is the identity")
                if again._name != o1.expr._name:
                    viol(out, "C19.fusion:not-a-fixed-point", f"{cid}", f"fusing the fused plan again changes it: {o1.expr._name} -> {again._name}", replay)
            except Exception as ex:
                viol(out, "C19.fusion:refusing-fails", f"{cid}", f"{type(ex).__name__}: {str(ex)[:160]}", replay)
        if common.get("values", True):
            a, b = D.run_as_is(o1.expr), D.run_as_is(oo.expr)
            if a[0] == "ok":
                if b[0] == "err":
                    viol(out, "C19.idempotent:optimize(optimize(q))-fails", f"{cid}|fuse={fuse}", b[1], replay)
                elif D.equiv(a[1], b[1], prog.order_free, prog.index_free) is False:
                    viol(out, "C19.idempotent:result-changes", f"{cid}|fuse={fuse}", f"{D.describe(a[1])} vs {D.describe(b[1])}", replay)
    out.setdefault("plan_names", {})[cid] = names
    if len(out["samples"]) < 2:
        out["samples"].append({"case": cid, "nodes": nodes, "plan_names": {str(k): v for k, v in names.items()}})


def names_in_fresh_process(cases, hashseed):
    """optimize(q)._name of every case, in a fresh interpreter with the given PYTHONHASHSEED."""
    import json

    code = (
        "import sys, json, warnings; warnings.filterwarnings('ignore'); sys.path.insert(0, %r); sys.path.append(%r)\n"
        "from vf.rt.pool import _init; _init()\n"
        "from vf.rt import cases as K\n"
        "cases = json.load(sys.stdin); out = {}\n"
        "import signal\n"
        "class Watchdog(Exception): pass\n"
        "def _alarm(signum, frame): raise Watchdog()\n"
        "signal.signal(signal.SIGALRM, _alarm)\n"
        "for c in cases:\n"
        "    c = (c[0], c[1], tuple(tuple(x) if isinstance(x, list) else x for x in c[2]), c[3])\n"
        "    signal.alarm(%d)\n"
        "    try:\n"
        "        p, q = K.build(c)\n"
        "        out[K.case_id(c)] = [q.expr._name, q.optimize(fuse=False).expr._name, q.optimize(fuse=True).expr._name]\n"
        "    except Exception as ex:\n"
        "        out[K.case_id(c)] = ['ERR ' + type(ex).__name__] * 3\n"
        "    finally:\n"
        "        signal.alarm(0)\n"
        "print('@@' + json.dumps(out))\n"
    ) % (os.path.dirname(os.path.dirname(os.path.dirname(os.path.abspath(__file__)))), os.path.join(os.path.dirname(os.path.dirname(os.path.dirname(os.path.abspath(__file__)))), ".overlay"), WATCHDOG_S)
    env = dict(os.environ, PYTHONHASHSEED=str(hashseed))
    r = subprocess.run([sys.executable, "-W", "ignore", "-c", code], input=json.dumps(cases), capture_output=True, text=True, env=env, timeout=1200)
    for line in r.stdout.splitlines():
        if line.startswith("@@"):
            return json.loads(line[2:])
    raise RuntimeError("fresh-process naming failed: " + r.stderr[-400:])


NEIGHBOURS = ["sort_a", "sort_a_up4", "sort_a_desc", "set_index_a", "set_index_a_up4", "set_index_a_np3", "sort_a_np2", "sort_b_v", "set_index_b"]


def neighbour_plans(order):
    """Plan names of queries that differ in ONE planner knob, optimized one after the other in a fresh interpreter."""
    import json

    code = (
        "import sys, json, warnings; warnings.filterwarnings('ignore'); sys.path.insert(0, %r); sys.path.append(%r)\n"
        "from vf.rt.pool import _init; _init()\n"
        "import numpy as np, pandas as pd, dask_expr as dx\n"
        "rs = np.random.RandomState(11); n = 400\n"
        "big = pd.DataFrame({'a': rs.permutation(n) * 0.25, 'b': rs.randint(0, 50, n), 'v': np.arange(n)})\n"
        "df = lambda: dx.from_pandas(big, npartitions=4)\n"
        "Q = {'sort_a': lambda: df().sort_values('a'), 'sort_a_up4': lambda: df().sort_values('a', upsample=4.0), 'sort_a_desc': lambda: df().sort_values('a', ascending=False),\n"
        "     'set_index_a': lambda: df().set_index('a'), 'set_index_a_up4': lambda: df().set_index('a', upsample=4.0), 'set_index_a_np3': lambda: df().set_index('a', npartitions=3),\n"
        "     'sort_a_np2': lambda: df().sort_values('a', npartitions=2), 'sort_b_v': lambda: df().sort_values(['b', 'v']), 'set_index_b': lambda: df().set_index('b')}\n"
        "out = {}\n"
        "for name in json.load(sys.stdin):\n"
        "    q = Q[name]()\n"
        "    o = q.optimize(fuse=False)\n"
        "    out[name] = [o._name, [str(d) for d in o.divisions]]\n"
        "print('@@' + json.dumps(out))\n"
    ) % (os.path.dirname(os.path.dirname(os.path.dirname(os.path.abspath(__file__)))), os.path.join(os.path.dirname(os.path.dirname(os.path.dirname(os.path.abspath(__file__)))), ".overlay"))
    r = subprocess.run([sys.executable, "-W", "ignore", "-c", code], input=json.dumps(order), capture_output=True, text=True, timeout=600)
    for line in r.stdout.splitlines():
        if line.startswith("@@"):
            return json.loads(line[2:])
    raise RuntimeError("neighbour plans failed: " + r.stderr[-400:])


def deep_case(case, common, out):
    """simplify() of deep chains of SHARED sub-expressions: the number of rewrite steps stays polynomial in the
    number of nodes (memoisation of the per-pass results and of the dependency look-ups)."""
    global _counter
    if _counter is None:
        _counter = _Steps()
    kind, depth = case
    tabs = C.tables(12)
    ctx = C.build_context(tabs, C.Layout("np", 3, True), lazy=True)
    if kind == "assign-chain":
        q = C.assign_chain(ctx.df[["a", "u"]], depth)
    else:
        q = ctx.df[ctx.df.a >= 0][C.mask_chain(ctx.df, depth)]
    nodes = sum(1 for _ in N.iter_nodes(q.expr))
    budget = 40 * nodes + 500
    cid = f"{kind}|depth={depth}|nodes={nodes}"
    _counter.steps = 0
    signal.signal(signal.SIGALRM, _alarm)
    signal.alarm(30)
    t0 = time.time()
    try:
        q.simplify()
    except _Timeout:
        viol(out, "C19.simplify:deep-shared-chain-within-watchdog", cid, f"simplify() still running after 30 s ({_counter.steps} rewrite steps, budget {budget})", {"kind": "call", "module": "vf.props.C19", "func": "replay_deep", "args": {"case": list(case)}})
        return
    finally:
        signal.alarm(0)
    bump(out, "C19.simplify:steps-polynomial-on-shared-chains", cid, rule="chains of dependent assign() calls / of reused boolean masks (shared sub-expressions, depth 8..32): rewrite steps <= 40 * nodes + 500 and 30 s watchdog")
    if _counter.steps > budget:
        viol(out, "C19.simplify:step-budget-on-shared-chains", cid, f"{_counter.steps} rewrite steps for {nodes} nodes (budget {budget}), {time.time() - t0:.1f}s", {"kind": "call", "module": "vf.props.C19", "func": "replay_deep", "args": {"case": list(case)}})


def replay_deep(case):
    from vf.rt.pool import _init

    _init()
    out = {"counts": {}, "violations": [], "samples": [], "errors": [], "notes": {}}
    deep_case(tuple(case), {}, out)
    for v in out["violations"]:
        print(v["contract"], "|", v["signature"], "|", v["detail"][:300])
    return bool(out["violations"])


def replay_case(case):
    from vf.rt.pool import _init

    _init()
    out = {"counts": {}, "violations": [], "samples": [], "errors": [], "notes": {}}
    ls = case[2]
    ls = (ls[0], tuple(tuple(x) if isinstance(x, list) else x for x in ls[1]) if isinstance(ls[1], list) else ls[1], ls[2])
    check_case((case[0], case[1], ls, case[3]), {}, out)
    for v in out["violations"]:
        print(v["contract"], "|", v["signature"], "|", v["detail"][:300])
    return bool(out["violations"])


def run(run):
    import random

    rng = random.Random(run.seed)
    hand = list(C.PROGRAMS)
    d1 = C.generated_depth1()
    two, three, extra = C.predicate_formulas()
    preds = [f"pred:{f}:cols_ub" for f in extra + three[:40] + two[::8]]
    mergepreds = list(MERGE_PRED_PROGRAMS)
    if run.tier == "quick":
        cases = K.standard_cases(hand + mergepreds, ["range"], [("np", 3, True), ("np", 4, False)]) + K.standard_cases(d1 + preds + C.generated_depth2(rng, 300), ["range"], [("np", 3, True)])
    else:
        lays = [("np", 1, True), ("np", 2, True), ("np", 3, True), ("np", 5, False)]
        cases = K.standard_cases(hand + d1 + mergepreds, ["range", "dupint", "str"], lays)
        cases += K.standard_cases(C.generated_depth2(rng, 4000) + [f"pred:{f}:cols_ub" for f in extra + three + two], ["range"], [("np", 3, True)])
    run_cases(run, "vf.props.C19", "check_case", cases, {"values": True})
    # cross-process determinism of plan names (unfused plans; see known finding for fused names)
    sub = [list(c) for c in cases[:: max(1, len(cases) // (120 if run.tier == "quick" else 600))]]
    # programs written for the across-interpreter comparison are always part of it (not left to the stride)
    sub += [list(c) for c in cases if "xprocess" in C.PROGRAMS[c[3]].tags and list(c) not in sub]
    try:
        ref = names_in_fresh_process(sub, 0)
        for seed in (1, 12345):
            other = names_in_fresh_process(sub, seed)
            for cid, nm in ref.items():
                run.count("C19.xprocess:optimize(q)._name-equal-across-interpreters", 1, cid, rule="same program built and optimized in fresh interpreters with PYTHONHASHSEED 0 / 1 / 12345")
                if other.get(cid) is None:
                    continue
                if nm[0] != other[cid][0] or nm[1] != other[cid][1]:
                    run.violation("C19.xprocess:plan-name-depends-on-process", f"{cid}|hashseed 0 vs {seed}", f"logical {nm[0]} vs {other[cid][0]}; optimized(fuse=False) {nm[1]} vs {other[cid][1]}", {"kind": "none"})
                if nm[2] != other[cid][2]:
                    run.violation("C19.xprocess:fused-plan-name-depends-on-process", f"{cid}|hashseed 0 vs {seed}", f"optimized(fuse=True) {nm[2]} vs {other[cid][2]}", {"kind": "none"})
    except Exception as ex:
        run.errors.append("cross-process naming: " + repr(ex)[:300])
    run_cases(run, "vf.props.C19", "deep_case", [("assign-chain", 8), ("assign-chain", 13), ("mask-chain", 16), ("mask-chain", 32)], {}, chunk=1)
    # the plan of a query does not depend on which NEIGHBOURING query (same column, other knob) was planned before it
    try:
        fwd = neighbour_plans(NEIGHBOURS)
        rev = neighbour_plans(NEIGHBOURS[::-1])
        alone = {}
        for nme in ("sort_a_up4", "set_index_a_up4"):
            alone.update(neighbour_plans([nme]))
        for nme in NEIGHBOURS:
            run.count("C19.neighbours:plan-independent-of-planning-order", 1, nme, rule="queries on one column that differ in one knob (upsample, npartitions, ascending), planned in forward / reverse order and alone, each order in a fresh interpreter")
            for label, other in (("reverse order", rev), ("alone", alone)):
                if nme in other and other[nme] != fwd[nme]:
                    run.violation("C19.neighbours:plan-depends-on-planning-order", f"{nme}|forward vs {label}", f"forward: {fwd[nme][0]} divisions {fwd[nme][1][:3]}..; {label}: {other[nme][0]} divisions {other[nme][1][:3]}..", {"kind": "none"})
    except Exception as ex:
        run.errors.append("neighbour plans: " + repr(ex)[:300])
    # tier P: what the drivers guarantee by themselves (a returned plan is a fixed point of the pass that was iterated)
    from vf.contracts.registry import run_property_specs

    run_property_specs(run, "C19")
    run.assume("termination of the rewrite system for programs outside the corpus is NOT decided; the bounded contract checks a step budget of 60*nodes^2+2000 rule firings and a 60 s watchdog per optimize() call")
    run.trust("vf/rt/corpus.py program catalogue")


# predicates over joins: conjunctions whose terms can / cannot pass the join (C19 self-protection of the Merge rule)
MERGE_PRED_PROGRAMS = {}


def _mp(name, how, pred):
    def fn(t, how=how, pred=pred):
        m = t.df.merge(t.df2[["a", "w", "b"]], on="a", how=how)
        return m[pred(m)][["u", "w"]]

    C.PROGRAMS[name] = C.Prog(name, fn, order_free=True, index_free=True, tags={"mergepred"})
    MERGE_PRED_PROGRAMS[name] = C.PROGRAMS[name]


for _how in ("inner", "left", "right", "outer"):
    _mp(f"mpred:{_how}:R&L", _how, lambda m: (m.w > 1) & (m.u < 20))
    _mp(f"mpred:{_how}:L&R", _how, lambda m: (m.u < 20) & (m.w > 1))
    _mp(f"mpred:{_how}:K&R&L", _how, lambda m: (m.a > 0) & (m.w > 0) & (m.f < 2))
    _mp(f"mpred:{_how}:R|L", _how, lambda m: (m.w > 3) | (m.u < 5))
    _mp(f"mpred:{_how}:sfx", _how, lambda m: (m.b_y > 3) & (m.b_x < 9))
    _mp(f"mpred:{_how}:chain", _how, lambda m: (m.w > 1))
