"""C04 - column pruning never changes a result (bounded widening contract + tier-P kernels; DESIGN 5 C04)."""
from __future__ import annotations

import warnings

import pandas as pd

from vf.rt import cases as K
from vf.rt import corpus as C
from vf.rt import den as D
from vf.rt.pool import bump, run_cases, viol

RULE = "program x layout: q(inputs widened with unused columns) ~ q(inputs); non-trivial iff the optimized plan reads fewer columns than the widened source offers"


def strip(v):
    """Remove the padding columns (they are selected only by whole-frame programs)."""
    import numpy as np

    def pad(x):
        return "zz_unused" in str(x)

    def keep_rows(x):
        try:
            if isinstance(x.index, pd.MultiIndex):
                return x
            if x.index.dtype == object or str(x.index.dtype) in ("str", "string"):
                mask = np.array([not pad(i) for i in x.index], dtype=bool)
                return x[mask] if not mask.all() else x
        except Exception:
            pass
        return x

    if isinstance(v, pd.DataFrame):
        v = v.loc[:, [not pad(c) for c in v.columns]]
        return keep_rows(v)
    if isinstance(v, pd.Series):
        return keep_rows(v)
    return v


SKIP = {"size", "proj_list_all"}


def check_case(case, common, out):
    cid = K.case_id(case)
    if case[3] in SKIP:
        return
    try:
        prog, q = K.build(case)
        _, qw = K.build(case, wide=True)
    except Exception as ex:
        out["notes"][f"refused at construction: {case[3]}"] = f"{type(ex).__name__}: {str(ex)[:80]}"
        return
    replay = {"kind": "call", "module": "vf.props.C04", "func": "replay_case", "args": {"case": list(case)}}
    if prog.undefined:
        return

    def run(x):
        try:
            with warnings.catch_warnings():
                warnings.simplefilter("ignore")
                return ("ok", x.compute() if hasattr(x, "compute") else x)
        except Exception as ex:
            return ("err", f"{type(ex).__name__}: {str(ex)[:200]}")

    a, b = run(q), run(qw)
    nontrivial = None
    try:
        if hasattr(qw, "optimize"):
            from dask_expr.io.io import FromPandas

            srcs = [e for e in qw.optimize(fuse=False).expr.walk() if isinstance(e, FromPandas)]
            if any(e.operand("columns") is not None and "zz_unused" not in str(e.operand("columns")) for e in srcs):
                nontrivial = cid
    except Exception:
        pass
    bump(out, "C04.widening:q(wide)~q(narrow)", nontrivial, rule=RULE)
    # the other observation point of the property: optimized against unoptimized (narrow and widened inputs)
    for label, coll, res in (("narrow", q, a), ("wide", qw, b)):
        if not hasattr(coll, "expr"):
            continue
        D.clear_cache()
        ref = D.den(coll.expr)
        if ref[0] != "ok":
            continue
        bump(out, "C04.pruning:optimized~unoptimized", f"{cid}|{label}", rule="compute() against the unoptimized lowering, on the narrow and on the widened inputs")
        if res[0] == "err":
            viol(out, "C04.pruning:optimized-fails-unoptimized-succeeds", f"{cid}|{label}", res[1], replay)
        elif D.equiv_headtail(ref[1], res[1], case[3], prog.order_free, prog.index_free) is False:
            viol(out, "C04.pruning:optimized-differs-from-unoptimized", f"{cid}|{label}", f"unoptimized={D.describe(ref[1])} optimized={D.describe(res[1])}", replay)
    if a[0] == "err":
        if b[0] == "ok":
            out["notes"][f"narrow fails but wide computes: {case[3]}"] = a[1][:100]
        return
    if b[0] == "err":
        viol(out, "C04.widening:unused-columns-make-the-query-fail", cid, b[1], replay)
        return
    r = D.equiv(a[1], strip(b[1]), prog.order_free, prog.index_free)
    if r is False:
        viol(out, "C04.widening:unused-columns-change-the-result", cid, f"narrow={D.describe(a[1])} wide(stripped)={D.describe(strip(b[1]))}", replay)
    if len(out["samples"]) < 2:
        out["samples"].append({"case": cid})


def replay_case(case):
    from vf.rt.pool import _init

    _init()
    out = {"counts": {}, "violations": [], "samples": [], "errors": [], "notes": {}}
    ls = case[2]
    ls = (ls[0], tuple(tuple(x) if isinstance(x, list) else x for x in ls[1]) if isinstance(ls[1], list) else ls[1], ls[2])
    check_case((case[0], case[1], ls, case[3]), {}, out)
    for v in out["violations"]:
        print(v["contract"], "|", v["signature"], "|", v["detail"][:300])
    return bool(out["violations"])


def run(run):
    import random

    from vf.props._p import run_specs

    rng = random.Random(run.seed)
    hand = list(C.PROGRAMS)
    d1 = C.generated_depth1()
    if run.tier == "quick":
        cases = K.standard_cases(hand, ["range"], [("np", 3, True), ("np", 2, False)]) + K.standard_cases(d1 + C.generated_depth2(rng, 400), ["range"], [("np", 3, True)])
        cases += K.standard_cases(hand[::2], ["str"], [("np", 4, True)])
    else:
        cases = K.standard_cases(hand + d1, ["range", "dupint", "str", "dt"], [("np", 1, True), ("np", 3, True), ("np", 5, False)])
        cases += K.standard_cases(C.generated_depth2(rng, 4000), ["range"], [("np", 3, True)])
    run_cases(run, "vf.props.C04", "check_case", cases, {})
    from vf.contracts.registry import run_property_specs

    run_property_specs(run, "C04")
    run.assume("the widened inputs carry three extra columns per table (float, string, int; first, second and last position) that no program mentions")
    run.trust("vf/rt/corpus.py program catalogue")
