"""C15 - planner caches are transparent: results are independent of session history (bounded; DESIGN 5 C15).
S: model-based exhaustive check of the LRU data structure; R: seeded long sessions (build / optimize / compute /
observe / discard+gc / failing user function / dataset rewrite) over a pool of queries larger than every cache
capacity; every observation is compared with the same query run alone in a fresh interpreter."""
from __future__ import annotations

import gc
import itertools
import json
import os
import random
import shutil
import subprocess
import sys
import tempfile
import warnings

import numpy as np
import pandas as pd

VERIF = os.path.dirname(os.path.dirname(os.path.dirname(os.path.abspath(__file__))))


# ---------------------------------------------------------------------------------------------
# S: the LRU structure against its specification, all operation sequences up to a bound
# ---------------------------------------------------------------------------------------------
def s_lru(run, tier):
    """Invariants that make a cache transparent, on the real LRU class, for all short operation sequences:
    (a) never more than maxsize entries, (b) d[k] = v; d[k] == v, (c) a key that is present returns the last value
    written for it, (d) whenever a key disappears it is the least recently touched (written or looked up) one."""
    from dask_expr._util import LRU

    keys = ["a", "b", "c", "d"]
    ops = [("set", k) for k in keys] + [("get", k) for k in keys]
    depth = 6 if tier == "quick" else 7
    nseq = 0
    for maxsize in (1, 2, 3):
        for seq in itertools.product(ops, repeat=depth):
            nseq += 1
            lru = LRU(maxsize)
            last = {}
            touched = []  # keys by recency of touch, oldest first
            val = 0
            bad = None
            for op, k in seq:
                before = list(lru.data.keys())
                if op == "set":
                    val += 1
                    lru[k] = val
                    last[k] = val
                    if lru[k] != val:
                        bad = "a value just written is not returned"
                    touched = [x for x in touched if x != k] + [k]
                else:
                    try:
                        got = lru[k]
                        if got != last.get(k):
                            bad = f"key {k} returns {got}, last written {last.get(k)}"
                        touched = [x for x in touched if x != k] + [k]
                    except KeyError:
                        pass
                after = list(lru.data.keys())
                if len(after) > maxsize:
                    bad = f"{len(after)} entries with maxsize {maxsize}"
                gone = [x for x in before if x not in after]
                present_order = [x for x in touched if x in before]
                for g in gone:
                    older = [x for x in present_order if x in after and present_order.index(x) < present_order.index(g)]
                    if older and g != k:
                        bad = f"evicted {g} although {older[0]} was touched less recently"
                if bad:
                    break
            if bad:
                run.violation("C15.S.LRU:invariant-broken", f"maxsize={maxsize}|ops={seq}", bad, {"kind": "none"}, tier="S")
                return
    run.count("C15.S.LRU:bounded-size+read-your-write+lru-eviction", nseq, "lru", tier="S", rule=f"all sequences of {depth} set/get operations over 4 keys for maxsize 1..3: size bound, read-your-write, last-written value, eviction of the least recently touched key")
    for i in range(min(nseq, 300)):
        run.bounded["C15.S.LRU:bounded-size+read-your-write+lru-eviction"]["nontrivial"].add(f"seq{i}")


# ---------------------------------------------------------------------------------------------
# the query pool
# ---------------------------------------------------------------------------------------------
def _frames():
    rs = np.random.RandomState(11)
    n = 400
    big = pd.DataFrame({"a": rs.permutation(n) * 0.25, "b": rs.randint(0, 50, n), "k": np.arange(n) % 17, "v": np.arange(n)})
    small = pd.DataFrame({"k": np.arange(17), "w": np.arange(17) * 2})
    return big, small


def write_parquet(path, shift=0):
    n = 60
    pdf = pd.DataFrame({"x": np.arange(n) + shift, "y": (np.arange(n) * 3 + shift) % 7 * 1.0}, index=pd.Index(np.arange(n) * 2 + 1000 + shift, name="ix"))
    if os.path.exists(path):
        shutil.rmtree(path)
    os.makedirs(path)
    for k, (i, j) in enumerate(((0, 5), (5, 30), (30, 40), (40, 60))):  # uneven files: size order differs from name order
        pdf.iloc[i:j].to_parquet(os.path.join(path, f"part.{k}.parquet"), compression=None)
    return pdf


def pool(pqdir):
    import dask_expr as dx

    big, small = _frames()
    df = lambda: dx.from_pandas(big, npartitions=4)  # noqa: E731
    sm = lambda: dx.from_pandas(small, npartitions=2)  # noqa: E731
    P = {
        "set_index_a": lambda: df().set_index("a"),
        "set_index_a_up2": lambda: df().set_index("a", upsample=2.0),
        "set_index_a_np3": lambda: df().set_index("a", npartitions=3),
        "set_index_b": lambda: df().set_index("b"),
        "set_index_v": lambda: df().set_index("v"),
        "sort_a": lambda: df().sort_values("a"),
        "sort_a_desc": lambda: df().sort_values("a", ascending=False),
        "sort_a_up2": lambda: df().sort_values("a", upsample=2.0),
        "sort_b": lambda: df().sort_values(["b", "v"]),
        "sort_k": lambda: df().sort_values(["k", "v"]),
        "set_index_a_loc": lambda: df().set_index("a").loc[10.0:60.0],
        "set_index_of_filtered": lambda: (lambda d: d[d.b > 10])(df()).set_index("a"),
        "set_index_of_assigned": lambda: df().assign(z=1).set_index("a"),
        "repartition_size": lambda: df().repartition(partition_size="2kB"),
        "repartition_size_small": lambda: sm().repartition(partition_size="0.1kB"),
        "merge": lambda: df().merge(sm(), on="k").w.sum(),
        "groupby": lambda: df().groupby("k").v.sum(),
        "divisions_repartition": lambda: df().repartition(divisions=[0, 100, 250, 399]),
        "pq_arrow": lambda: dx.read_parquet(pqdir, filesystem="arrow", index="ix", calculate_divisions=True),
        "pq_arrow_proj": lambda: dx.read_parquet(pqdir, filesystem="arrow", index="ix", calculate_divisions=True)[["x"]] + 1,
        "pq_fsspec": lambda: dx.read_parquet(pqdir, filesystem="fsspec", index="ix", calculate_divisions=True),
        "pq_fsspec_len": lambda: dx.read_parquet(pqdir, filesystem="fsspec", index="ix").y,
    }
    return P


_FM_PARTS = {i: pd.DataFrame({"a": np.arange(i * 5, i * 5 + 5), "b": [float(i)] * 5, "c": np.arange(5) * 2 + i}, index=np.arange(i * 5, i * 5 + 5)) for i in range(3)}
_SHARED = {}


def _fm_load(i, columns=None):
    """A reader with an OPTIONAL column selection (projection can be pushed into it)."""
    df = _FM_PARTS[i]
    return (df if columns is None else df[columns]).copy()


def _clip_in_place(df):
    """The common shape of a user function: edits the partition it is given and returns it."""
    df.loc[df.a > 3, "b"] = 0.0
    return df


def _shared(kind):
    """ONE source object per interpreter: the queries of a session are derived from the same collection, as a user's are."""
    import dask_expr as dx

    if kind not in _SHARED:
        if kind == "fm":
            _SHARED[kind] = dx.from_map(_fm_load, [0, 1, 2])
        else:
            _SHARED[kind] = dx.from_pandas(pd.DataFrame({"a": np.arange(10), "b": np.arange(10) * 1.5}), npartitions=1)
    return _SHARED[kind]


def _edit_result(q):
    """Compute, hand the result out, and then edit the RESULT in place (the user owns it)."""
    res = q.compute()
    keep = res.copy()
    res.iloc[0:3, 1] = -99.0
    res["b"] = -1.0
    return keep


class _Computed:
    """A query whose observation is a value computed by a user-side recipe."""

    def __init__(self, q, recipe):
        self.q, self.recipe = q, recipe


def pool_scripted(pqdir):
    """Parquet queries with default arguments (no statistics in the cached plan), used by the scripted sessions."""
    import dask_expr as dx

    return {
        "fm_full": lambda: _shared("fm"),
        "fm_a": lambda: _shared("fm")[["a"]],
        "fm_b_sum": lambda: _shared("fm")[["b"]].sum(),
        "fm_a_kept_optimized": lambda: _SHARED.setdefault("fm_a_opt", _shared("fm")[["a"]].optimize()),
        "fp1_full": lambda: _shared("fp1"),
        "fp1_b_sum": lambda: _shared("fp1").b.sum(),
        "fp1_clip_in_place": lambda: _shared("fp1").map_partitions(_clip_in_place, meta=_shared("fp1")._meta),
        "fp1_result_edited_afterwards": lambda: _Computed(_shared("fp1"), _edit_result),
        "pq_fsspec_default": lambda: dx.read_parquet(pqdir, filesystem="fsspec"),
        "pq_fsspec_default_x": lambda: dx.read_parquet(pqdir, filesystem="fsspec")[["x"]],
        "pq_fsspec_part1_x": lambda: dx.read_parquet(pqdir, filesystem="fsspec").partitions[1][["x"]],
        "pq_fsspec_calc": lambda: dx.read_parquet(pqdir, filesystem="fsspec", calculate_divisions=True),
        "pq_arrow_default": lambda: dx.read_parquet(pqdir, filesystem="arrow"),
        "pq_arrow_default_x": lambda: dx.read_parquet(pqdir, filesystem="arrow")[["x"]],
        "pq_arrow_default_sum": lambda: dx.read_parquet(pqdir, filesystem="arrow").x.sum(),
        "pq_arrow_part1_x": lambda: dx.read_parquet(pqdir, filesystem="arrow").partitions[1][["x"]],
        "pq_arrow_calc": lambda: dx.read_parquet(pqdir, filesystem="arrow", calculate_divisions=True),
    }


SCRIPTS = {
    "subset-length-then-full-length(fsspec)": ["pq_fsspec_part1_x", "pq_fsspec_default", "pq_fsspec_default_x", "pq_fsspec_calc"],
    "full-then-subset(fsspec)": ["pq_fsspec_default_x", "pq_fsspec_part1_x", "pq_fsspec_default"],
    "plain-peek-then-calculate-divisions(fsspec)": ["pq_fsspec_default", "pq_fsspec_calc", "pq_fsspec_default"],
    "aggregate-then-length(arrow)": ["pq_arrow_default_sum", "pq_arrow_default", "pq_arrow_default_x", "pq_arrow_calc"],
    "subset-length-then-full-length(arrow)": ["pq_arrow_part1_x", "pq_arrow_default", "pq_arrow_default_x"],
    "plain-peek-then-calculate-divisions(arrow)": ["pq_arrow_default", "pq_arrow_calc", "pq_arrow_default_sum"],
    "projection-of-a-shared-from_map-source": ["fm_full", "fm_a", "fm_full", "fm_a_kept_optimized", "fm_b_sum", "fm_a_kept_optimized", "fm_full"],
    "projection-first-of-a-shared-from_map-source": ["fm_b_sum", "fm_full", "fm_a", "fm_full"],
    "in-place-user-function-on-a-whole-frame-partition": ["fp1_b_sum", "fp1_full", "fp1_clip_in_place", "fp1_b_sum", "fp1_full"],
    "result-edited-by-its-owner": ["fp1_full", "fp1_result_edited_afterwards", "fp1_full", "fp1_b_sum"],
}


def scripted_case(case, common, out):
    """Fixed short parquet sessions: every observation equals the same query alone in a fresh interpreter."""
    from vf.rt.pool import bump, viol

    sname = case
    tmp = tempfile.mkdtemp(prefix="verif_c15p_")
    try:
        pqdir = os.path.join(tmp, "pq")
        write_parquet(pqdir, 0)
        names = SCRIPTS[sname]
        base = baseline(pqdir, sorted(set(names)), poolfn="pool_scripted")
        P = pool_scripted(pqdir)
        hist = []
        with warnings.catch_warnings():
            warnings.simplefilter("ignore")
            for n in names:
                hist.append(n)
                try:
                    got = observe(P[n]())
                except Exception as ex:
                    viol(out, "C15.R.scripted:raises-depending-on-history", f"script={sname}|query={n}|history={'>'.join(hist)}", f"{type(ex).__name__}: {str(ex)[:160]}", {"kind": "call", "module": "vf.props.C15", "func": "replay_script", "args": {"name": sname}})
                    continue
                bump(out, "C15.R.scripted:observation==fresh-interpreter", f"{sname}|{len(hist)}", rule="fixed parquet sessions (subset before full, aggregate before length, plain read before calculate_divisions, both readers, uneven files): each observation against the same query alone in a fresh interpreter")
                for field in ("divisions", "logical_divisions", "len", "nrows", "result"):
                    if got.get(field) != base[n].get(field):
                        viol(out, f"C15.R.scripted:{field}-depends-on-history", f"script={sname}|query={n}|history={'>'.join(hist)}", f"fresh interpreter: {str(base[n].get(field))[:120]}; inside the session: {str(got.get(field))[:120]}", {"kind": "call", "module": "vf.props.C15", "func": "replay_script", "args": {"name": sname}})
                        break
    finally:
        shutil.rmtree(tmp, ignore_errors=True)


# ---------------------------------------------------------------------------------------------
# staged sessions: collections that are KEPT while other things happen (a rewrite of the files behind a source whose
# name does not capture its data; more than ten other sort plans), then observed
# ---------------------------------------------------------------------------------------------
def write_csv(d, shift=0):
    os.makedirs(d, exist_ok=True)
    for i in range(3):
        a = (np.arange(20) * 7 + i * 3) % 60 + shift
        pd.DataFrame({"a": a, "b": np.arange(20) * 0.5 + i + shift}).to_csv(os.path.join(d, f"part{i}.csv"), index=False)


def _csv_load(path):
    return pd.read_csv(path)


def pool_staged(d):
    """d: directory of the csv files.  from_map over file paths: the expression name is a function of the paths, not of the
    files' contents; persist() imports the computed partitions under keys derived from that name."""
    import dask_expr as dx

    big, _ = _frames()
    df = lambda: dx.from_pandas(big, npartitions=4)  # noqa: E731
    paths = [os.path.join(d, f"part{i}.csv") for i in range(3)]
    P = {
        "csv_persisted": lambda: dx.from_map(_csv_load, paths).persist(),
        "csv_persisted_set_index": lambda: dx.from_map(_csv_load, paths).persist().set_index("a"),
        "csv_persisted_sorted": lambda: dx.from_map(_csv_load, paths).persist().sort_values("b"),
        # an optimized-but-unfused plan is a collection like any other: it may be kept and used later
        "set_index_a_unfused_plan": lambda: df().set_index("a").optimize(fuse=False),
        "sort_a_unfused_plan": lambda: df().sort_values("a").optimize(fuse=False),
    }
    for k in range(5, 18):  # thirteen further sort plans on the same column, each with its own cache key
        P[f"set_index_a_np{k}"] = lambda k=k: df().set_index("a", npartitions=k)
    return P


OTHERS = [("run", f"set_index_a_np{k}") for k in range(5, 18)]
STAGED = {
    # (action, query): keep = build and hold a reference; observe = build afresh and compare with a fresh interpreter;
    # observe-kept = compare the held collection; run = build, optimize, compute, let go; rewrite = new file contents
    "persisted-source-reread-after-rewrite-while-the-first-is-alive": [("keep", "csv_persisted"), ("observe", "csv_persisted"), ("rewrite", None), ("observe", "csv_persisted"), ("observe", "csv_persisted_set_index")],
    "persisted-source-sorted-before-and-after-rewrite": [("observe", "csv_persisted_set_index"), ("observe", "csv_persisted_sorted"), ("rewrite", None), ("observe", "csv_persisted_set_index"), ("observe", "csv_persisted_sorted")],
    "kept-set_index-plan-after-thirteen-other-sort-plans": [("keep", "set_index_a_unfused_plan"), *OTHERS, ("observe-kept", "set_index_a_unfused_plan")],
    "kept-sort-plan-after-thirteen-other-sort-plans": [("keep", "sort_a_unfused_plan"), *OTHERS, ("observe-kept", "sort_a_unfused_plan")],
}


def staged_case(case, common, out):
    from vf.rt.pool import bump, viol

    sname = case
    tmp = tempfile.mkdtemp(prefix="verif_c15g_")
    replay = {"kind": "call", "module": "vf.props.C15", "func": "replay_staged", "args": {"name": sname}}
    try:
        d = os.path.join(tmp, "csv")
        write_csv(d, 0)
        P = pool_staged(d)
        live, hist = {}, []
        with warnings.catch_warnings():
            warnings.simplefilter("ignore")
            for action, n in STAGED[sname]:
                hist.append(f"{action}:{n}" if n else action)
                sig = f"script={sname}|query={n}|history={'>'.join(hist[-8:])}"
                if action == "rewrite":
                    write_csv(d, 1000)
                    continue
                if action == "keep":
                    live[n] = P[n]()
                    continue
                if action == "run":
                    try:
                        q = P[n]()
                        q.optimize()
                        q.compute()
                        del q
                    except Exception as ex:
                        viol(out, "C15.R.staged:raises-depending-on-history", sig, f"{type(ex).__name__}: {str(ex)[:160]}", replay)
                    gc.collect()
                    continue
                # the same query alone in a fresh interpreter, on the files as they are NOW
                base = baseline(d, [n], poolfn="pool_staged")[n]
                try:
                    got = observe(live[n] if action == "observe-kept" else P[n]())
                except Exception as ex:
                    viol(out, "C15.R.staged:raises-depending-on-history", sig, f"{type(ex).__name__}: {str(ex)[:160]}", replay)
                    continue
                gc.collect()
                bump(out, "C15.R.staged:observation==fresh-interpreter", f"{sname}|{len(hist)}", rule="fixed sessions with KEPT collections: a persisted from_map-over-files query re-read after the files were rewritten (first persist alive / let go), an unfused set_index / sort_values plan kept across thirteen other sort plans; each observation against the same query alone in a fresh interpreter")
                for field in ("divisions", "logical_divisions", "len", "nrows", "result"):
                    if got.get(field) != base.get(field):
                        viol(out, f"C15.R.staged:{field}-depends-on-history", sig, f"fresh interpreter: {str(base.get(field))[:120]}; inside the session: {str(got.get(field))[:120]}", replay)
                        break
    finally:
        shutil.rmtree(tmp, ignore_errors=True)


def replay_staged(name):
    from vf.rt.pool import _init

    _init()
    out = {"counts": {}, "violations": [], "samples": [], "errors": [], "notes": {}}
    staged_case(name, {}, out)
    for v in out["violations"]:
        print(v["contract"], "|", v["signature"], "|", v["detail"][:300])
    return bool(out["violations"])


def replay_script(name):
    out = {"counts": {}, "violations": [], "samples": [], "errors": [], "notes": {}}
    scripted_case(name, {}, out)
    for v in out["violations"]:
        print(v["contract"], "|", v["signature"], "|", v["detail"][:300])
    return bool(out["violations"])


def observe(q):
    """What a user can see of a query: plan name, divisions, len, result."""
    from vf.rt import den as D

    with warnings.catch_warnings():
        warnings.simplefilter("ignore")
        recipe = None
        if isinstance(q, _Computed):
            q, recipe = q.q, q.recipe
        o = q.optimize(fuse=False)
        res = recipe(q) if recipe is not None else q.compute()
        rec = {"plan": o._name, "divisions": [str(d) for d in o.divisions], "logical_divisions": [str(d) for d in q.divisions]}
        try:
            rec["len"] = int(len(q)) if hasattr(q, "__len__") and getattr(q, "ndim", 0) > 0 else None
        except Exception as ex:
            rec["len"] = "ERR " + type(ex).__name__
        if isinstance(res, (pd.DataFrame, pd.Series)):
            rec["result"] = [int(x) for x in pd.util.hash_pandas_object(res.sort_index(kind="stable") if False else res, index=True).values[:4000]]
            rec["nrows"] = len(res)
        else:
            rec["result"] = repr(res)
        return rec


def baseline(pqdir, names, poolfn="pool"):
    """Each query alone in a fresh interpreter."""
    out = {}
    for chunk in [names[i : i + 1] for i in range(len(names))]:
        code = (
            "import sys, json, warnings; warnings.filterwarnings('ignore'); sys.path.insert(0, %r); sys.path.append(%r)\n"
            "from vf.rt.pool import _init; _init()\nfrom vf.props import C15\nP = getattr(C15, %r)(%r)\n"
            "print('@@' + json.dumps({n: C15.observe(P[n]()) for n in %r}))\n"
        ) % (VERIF, os.path.join(VERIF, ".overlay"), poolfn, pqdir, chunk)
        r = subprocess.run([sys.executable, "-W", "ignore", "-c", code], capture_output=True, text=True, timeout=600)
        got = None
        for line in r.stdout.splitlines():
            if line.startswith("@@"):
                got = json.loads(line[2:])
        if got is None:
            raise RuntimeError("baseline interpreter failed: " + r.stderr[-400:])
        out.update(got)
    return out


def _failing(p):
    raise RuntimeError("injected user-function failure")


def session(pqdir, names, seed, steps, base, base2):
    """One long session in THIS interpreter; returns list of (step description, query, field, baseline, observed)."""
    import dask_expr as dx

    rng = random.Random(seed)
    P = pool(pqdir)
    live = {}
    diffs = []
    history = []
    rewritten = False
    n_obs = 0
    with warnings.catch_warnings():
        warnings.simplefilter("ignore")
        for step in range(steps):
            kind = rng.choice(["build", "build", "optimize", "compute", "observe", "observe", "discard", "fail", "rewrite"] if step > 3 else ["build"])
            n = rng.choice(names)
            history.append(f"{kind}:{n}")
            try:
                if kind == "build":
                    live[n] = P[n]()
                elif kind == "optimize":
                    (live[n] if n in live else P[n]()).optimize()
                elif kind == "compute":
                    (live[n] if n in live else P[n]()).compute()
                elif kind == "discard":
                    live.pop(n, None)
                    gc.collect()
                elif kind == "fail":
                    q = live[n] if n in live else P[n]()
                    try:
                        q.map_partitions(_failing, meta=q._meta).compute()
                    except Exception:
                        pass
                elif kind == "rewrite":
                    if not rewritten and step > steps // 2:
                        write_parquet(pqdir, shift=7)
                        rewritten = True
                        live = {k: v for k, v in live.items() if not k.startswith("pq_")}
                elif kind == "observe":
                    q = live[n] if n in live else P[n]()
                    if n.startswith("pq_") and rewritten and n in live:
                        q = P[n]()  # a collection built before the rewrite describes the old files
                    got = observe(q)
                    ref = (base2 if (rewritten and n.startswith("pq_")) else base)[n]
                    n_obs += 1
                    for field in ("plan", "divisions", "logical_divisions", "len", "nrows", "result"):
                        if field == "plan" and n.startswith("pq_"):
                            continue  # the name of a parquet read contains the dataset checksum (file mtimes)
                        if got.get(field) != ref.get(field):
                            diffs.append((step, list(history[-12:]), n, field, str(ref.get(field))[:160], str(got.get(field))[:160]))
                            break
            except Exception as ex:
                if kind == "observe":
                    diffs.append((step, list(history[-12:]), n, "raises", "", f"{type(ex).__name__}: {str(ex)[:160]}"))
    return n_obs, diffs


def session_case(case, common, out):
    from vf.rt.pool import bump, viol

    seed, steps = case
    pqdir = common["pqdir"] + f"_s{seed}"
    write_parquet(pqdir, 0)
    try:
        n_obs, diffs = session(pqdir, common["names"], seed, steps, common["base"], common["base2"])
    finally:
        shutil.rmtree(pqdir, ignore_errors=True)
    bump(out, "C15.R.session:observation==fresh-interpreter", None, rule="seeded sessions of build / optimize / compute / observe / discard+gc / failing user function / dataset rewrite over 22 queries (more than every cache capacity of 10); each observation (plan name, divisions, len, result hash) against the same query alone in a fresh interpreter", n=n_obs)
    for k in range(n_obs):
        out["counts"]["C15.R.session:observation==fresh-interpreter"]["keys"].add(f"{seed}:{k}")
    for step, hist, n, field, ref, got in diffs[:6]:
        viol(out, f"C15.R.session:{field}-depends-on-history", f"query={n}|seed={seed}|step={step}|history={'>'.join(hist)}", f"fresh interpreter: {ref}; inside the session: {got}", {"kind": "call", "module": "vf.props.C15", "func": "replay_session", "args": {"seed": seed, "steps": steps}})
    if len(out["samples"]) < 2:
        out["samples"].append({"seed": seed, "steps": steps, "observations": n_obs})


def replay_session(seed, steps):
    tmp = tempfile.mkdtemp(prefix="verif_c15_")
    try:
        pqdir = os.path.join(tmp, "pq")
        names = list(pool(pqdir))
        write_parquet(pqdir, 0)
        base = baseline(pqdir, names)
        write_parquet(pqdir, 7)
        base2 = baseline(pqdir, [n for n in names if n.startswith("pq_")])
        write_parquet(pqdir, 0)
        n_obs, diffs = session(pqdir, names, seed, steps, base, base2)
        for d in diffs[:5]:
            print(d)
        return bool(diffs)
    finally:
        shutil.rmtree(tmp, ignore_errors=True)


def run(run):
    from vf.rt.pool import run_cases

    s_lru(run, run.tier)
    # tier P: the cache data structure itself (LRU.__setitem__ / __getitem__ against the abstract view "keys in
    # recency order + stored values"), and what a _BackendData ships to another process (not its cache)
    from vf.contracts.registry import run_property_specs

    run_property_specs(run, "C15")
    from vf.contracts.caches import GetDivisions, GetMemUsages

    for sp in (GetDivisions(), GetMemUsages()):
        w = sp.other_writers()
        o = {"name": f"{sp.file}::{sp.qualname}#frame:only-writer-of-{sp.cache_name}", "status": "discharged" if not w else "unsupported", "backends": ["ast-scan"], "seconds": 0.0, "instances": 1,
             "detail": "" if not w else f"other functions store into {sp.cache_name}: {w} - the cache invariant assumed by the contract is no longer established by this function alone"}
        run.obligations.append(o)
        if w:
            run.undecided.append(o["name"] + ": " + o["detail"])
    tmp = tempfile.mkdtemp(prefix="verif_c15_")
    try:
        pqdir = os.path.join(tmp, "pq")
        names = list(pool(pqdir))
        write_parquet(pqdir, 0)
        base = baseline(pqdir, names)
        write_parquet(pqdir, 7)
        base2 = baseline(pqdir, [n for n in names if n.startswith("pq_")])
        # the session workers write their own copy of the dataset under the same path prefix: the baseline
        # observations do not depend on the directory name (plan names do: normalise by using identical paths)
        seeds = list(range(run.seed * 100, run.seed * 100 + (12 if run.tier == "quick" else 48)))
        common = {"pqdir": pqdir, "names": names, "base": base, "base2": base2}
        # plan names of parquet queries contain the path: give every session the SAME path, sequentially per worker
        run_cases(run, "vf.props.C15", "session_case_samepath", [(s, 90 if run.tier == "quick" else 160) for s in seeds], common, chunk=1)
        run_cases(run, "vf.props.C15", "scripted_case", list(SCRIPTS), {}, chunk=1)
        run_cases(run, "vf.props.C15", "staged_case", list(STAGED), {}, chunk=1)
    finally:
        shutil.rmtree(tmp, ignore_errors=True)
    run.assume("fault sequences are only PRESENT in the workload (a failing user function, a dataset rewrite), not enumerated; garbage collection of the Expr._instances weak table is exercised, not proved")
    run.trust("query pool and observation function in vf/props/C15.py")


def session_case_samepath(case, common, out):
    """Sessions use a private directory, then compare path-independent fields; plan names of parquet queries are
    compared only up to the path-dependent token (they are recomputed against a baseline taken in that directory)."""
    from vf.rt.pool import bump, viol

    seed, steps = case
    tmp = tempfile.mkdtemp(prefix="verif_c15s_")
    try:
        pqdir = os.path.join(tmp, "pq")
        names = common["names"]
        write_parquet(pqdir, 0)
        pq = [n for n in names if n.startswith("pq_")]
        base = dict(common["base"])
        base.update(baseline(pqdir, pq))
        write_parquet(pqdir, 7)
        base2 = baseline(pqdir, pq)
        write_parquet(pqdir, 0)
        n_obs, diffs = session(pqdir, names, seed, steps, base, base2)
    finally:
        shutil.rmtree(tmp, ignore_errors=True)
    bump(out, "C15.R.session:observation==fresh-interpreter", None, rule="seeded sessions of build / optimize / compute / observe / discard+gc / failing user function / dataset rewrite over 22 queries (more than every cache capacity of 10); each observation (plan name, divisions, len, result hash) against the same query alone in a fresh interpreter", n=n_obs)
    for k in range(n_obs):
        out["counts"]["C15.R.session:observation==fresh-interpreter"]["keys"].add(f"{seed}:{k}")
    for step, hist, n, field, ref, got in diffs[:6]:
        viol(out, f"C15.R.session:{field}-depends-on-history", f"query={n}|seed={seed}|step={step}|history={'>'.join(hist)}", f"fresh interpreter: {ref}; inside the session: {got}", {"kind": "call", "module": "vf.props.C15", "func": "replay_session", "args": {"seed": seed, "steps": steps}})
    if len(out["samples"]) < 2:
        out["samples"].append({"seed": seed, "steps": steps, "observations": n_obs})
