"""C17 - materialization boundaries are transparent (bounded; DESIGN 5 C17).
R: every corpus pipeline head -> tail is cut after the head with persist / to_delayed+from_delayed /
to_legacy+from_legacy (and their variants); result, schema and divisions must equal the uncut run."""
from __future__ import annotations

import os
import shutil
import tempfile
import warnings

import pandas as pd

from vf.rt import corpus as C
from vf.rt import den as D
from vf.rt.pool import bump, run_cases, viol

HEADS = ["pq_proj", "pq_proj_abs", "pq_proj_known", "id", "f_gt", "proj5", "assign_z", "fillna_dict", "astype", "sort_u", "set_index_u", "reset_index", "repart2", "repart5", "cumsum", "shift", "dropna", "merge_df2", "concat_df3", "mp", "head_all", "parts1", "series_b", "index", "scalar_sum", "gb_frame", "clear_divisions", "shuffle_a"]
TAILS = ["id", "f_and", "col_a_sum", "cols_ub", "gb", "sort_u", "set_index_u", "repart3", "head3", "tail2", "part0", "cumsum_u", "merge_df2", "add1", "count", "loc", "repartition_divs"]


def _parquet_source(t, tmp, known):
    """The corpus frame as a parquet dataset of 8 small files: a column-projected read of it is re-bucketed by the
    optimizer (several files per output partition), so the optimized and the logical partitioning differ."""
    import dask_expr as dx

    pdf = t.df.compute() if hasattr(t.df, "compute") else t.df
    pdf = pdf.sort_index()
    cuts = [0, 1, 3, 4, 6, 7, 9, 10, len(pdf)]
    for k, (a, b) in enumerate(zip(cuts, cuts[1:])):
        pdf.iloc[a:b].to_parquet(os.path.join(tmp, f"part.{k}.parquet"))
    return dx.read_parquet(tmp, calculate_divisions=known)


def head_fn(name, t, tmp=None):
    x = t.df
    if name.startswith("pq_"):
        src = _parquet_source(t, tmp, name.endswith("known"))
        return {"pq_proj": lambda: src[["u", "a", "b"]], "pq_proj_abs": lambda: src[["u", "a", "b"]].abs(), "pq_proj_known": lambda: src[["u", "a", "b"]]}[name]()
    if name == "id":
        return x
    if name in C.UNARY:
        return C.UNARY[name](x, t)
    return {
        "parts1": lambda: x.partitions[[1, 2]],
        "series_b": lambda: x.b,
        "index": lambda: x.index,
        "scalar_sum": lambda: x.u.sum(),
        "gb_frame": lambda: x.groupby("a")[["u", "b"]].sum(),
        "clear_divisions": lambda: x.clear_divisions(),
        "shuffle_a": lambda: x.shuffle("a"),
    }[name]()


def tail_fn(name, x, t):
    nd = getattr(x, "ndim", 0)
    if name == "id":
        return x
    if nd == 0:  # scalar
        return {"add1": lambda: x + 1}.get(name, lambda: None)()
    if nd == 1 and not hasattr(x, "to_frame"):
        return None
    frame_only = {
        "f_and": lambda: x[(x.a > 0) & (x.b < 9)],
        "col_a_sum": lambda: x.a.sum(),
        "cols_ub": lambda: x[["u", "b"]],
        "gb": lambda: x.groupby("a").u.sum(),
        "sort_u": lambda: x.sort_values("u"),
        "set_index_u": lambda: x.set_index("u"),
        "merge_df2": lambda: x.merge(t.df2[["a", "w"]], on="a", how="left"),
        "cumsum_u": lambda: x.u.cumsum(),
    }
    any_dim = {
        "repart3": lambda: x.repartition(npartitions=3),
        "head3": lambda: x.head(3, npartitions=-1, compute=False),
        "tail2": lambda: x.tail(2, compute=False),
        "part0": lambda: x.partitions[0],
        "add1": lambda: x + 1 if nd == 1 else x[["u"]] + 1,
        "count": lambda: x.count(),
        "loc": lambda: x.loc[3:8],
        "repartition_divs": lambda: x.repartition(divisions=[x.divisions[0], x.divisions[-1]]),
    }
    if name in frame_only:
        if nd != 2:
            return None
        return frame_only[name]()
    return any_dim[name]()


def cut(x, how):
    import dask_expr as dx

    if how == "persist":
        return x.persist()
    if how == "persist-nofuse":
        return x.persist(fuse=False)
    if how in ("delayed", "delayed-noopt", "delayed-prefix", "delayed-nodivs"):
        parts = x.to_delayed(optimize_graph=(how != "delayed-noopt"))
        kw = {"meta": x._meta}
        if how != "delayed-nodivs" and x.known_divisions:
            kw["divisions"] = x.divisions
        if how == "delayed-prefix":
            kw["prefix"] = "stage"
        return dx.from_delayed(parts, **kw)
    if how == "legacy":
        return dx.from_legacy_dataframe(x.to_legacy_dataframe())
    if how == "legacy-noopt":
        return dx.from_legacy_dataframe(x.to_legacy_dataframe(), optimize=False)
    raise KeyError(how)


CUTS = ["persist", "persist-nofuse", "delayed", "delayed-noopt", "delayed-prefix", "delayed-nodivs", "legacy", "legacy-noopt"]


def _claims_hold(c, whole):
    """None when the collection's npartitions / divisions describe the partitions it computes; else what is wrong."""
    try:
        parts = [c.partitions[i].compute() for i in range(c.npartitions)]
    except Exception as ex:
        return f"partition of the claimed {c.npartitions} cannot be computed: {type(ex).__name__}: {str(ex)[:120]}"
    if not all(isinstance(p, (pd.DataFrame, pd.Series)) for p in parts):
        return f"a claimed partition is not a frame: {[type(p).__name__ for p in parts]}"
    if len(c.divisions) != c.npartitions + 1:
        return f"{len(c.divisions)} divisions for {c.npartitions} partitions"
    got = pd.concat(parts)
    if D.equiv(got, whole) is False:
        return f"the claimed partitions together are not the head's rows: {D.describe(got)} vs {D.describe(whole)}"
    d = c.divisions
    if d[0] is not None:
        for j, p in enumerate(parts):
            if len(p) and (p.index.min() < d[j] or p.index.max() > d[j + 1] or (p.index.max() == d[j + 1] and j < len(parts) - 1)):
                return f"partition {j} holds [{p.index.min()}, {p.index.max()}] under divisions {d[j]}..{d[j + 1]}"
    return None


def _meta_desc(q):
    from vf.props.C16 import describe_meta

    try:
        return describe_meta(q._meta)
    except Exception as ex:
        return "ERR " + type(ex).__name__


def check_case(case, common, out):
    head, tail, npart, known = case
    tabs = C.tables(12)
    lay = C.Layout("np", npart, known)
    tmp = tempfile.mkdtemp(prefix="verif_c17_") if head.startswith("pq_") else None
    try:
        _check_case(case, out, tabs, lay, tmp)
    finally:
        if tmp is not None:
            shutil.rmtree(tmp, ignore_errors=True)


def _check_case(case, out, tabs, lay, tmp):
    head, tail, npart, known = case
    with warnings.catch_warnings():
        warnings.simplefilter("ignore")
        try:
            t = C.build_context(tabs, lay, lazy=True)
            h = head_fn(head, t, tmp)
            if not hasattr(h, "expr"):
                return
            uncut = tail_fn(tail, h, t)
            if uncut is None or not hasattr(uncut, "expr"):
                return
            ref = ("ok", uncut.compute())
            ref_meta, ref_divs = _meta_desc(uncut), tuple(uncut.divisions)
        except Exception as ex:
            out["notes"][f"uncut pipeline refused: {head}->{tail}"] = f"{type(ex).__name__}: {str(ex)[:80]}"
            return
        rebucket = head.startswith("pq_")
        if rebucket and tail == "part0":
            return  # "partition 0" means another set of rows once the source has been re-bucketed
        ref_head = h.compute() if rebucket else None
        order_free = head in ("merge_df2", "shuffle_a", "gb_frame") or tail in ("merge_df2", "gb")
        index_free = head in ("reset_index", "merge_df2") or tail in ("merge_df2",)
        layout_free = head in ("sort_u", "set_index_u", "repart2", "repart5", "shuffle_a", "merge_df2", "concat_df3") or order_free
        for how in CUTS:
            if how.startswith("delayed") and getattr(h, "ndim", 0) == 0:
                continue
            sig = f"head={head}|tail={tail}|np={npart}:{'known' if known else 'unknown'}|cut={how}"
            replay = {"kind": "call", "module": "vf.props.C17", "func": "replay_case", "args": {"case": list(case)}}
            try:
                c = cut(h, how)
            except Exception as ex:
                viol(out, "C17.cut:cutting-fails", sig, f"{type(ex).__name__}: {str(ex)[:200]}", replay)
                continue
            bump(out, "C17.cut:tail(cut(head))==tail(head)", sig, rule="head operator x tail operator x layout x cut kind (persist, delayed round trip incl. prefix / no divisions / unoptimized, legacy round trip)")
            # the cut collection itself
            try:
                same_schema = _meta_desc(c) == _meta_desc(h)
                if not same_schema:
                    viol(out, "C17.cut:schema-changes-at-the-boundary", sig, f"{_meta_desc(h)} -> {_meta_desc(c)}", replay)
                if rebucket:
                    # the optimizer may re-bucket this source: partition count and divisions may change at an optimizing
                    # cut, but what the re-imported collection CLAIMS must describe the partitions it really has
                    why = _claims_hold(c, ref_head)
                    if why:
                        viol(out, "C17.cut:re-imported-collection-misdescribes-its-partitions", sig, why, replay)
                        continue
                elif how not in ("delayed-nodivs",) and tuple(c.divisions) != tuple(h.divisions) and h.known_divisions and how != "legacy-noopt":
                    viol(out, "C17.cut:divisions-change-at-the-boundary", sig, f"{str(h.divisions)[:100]} -> {str(c.divisions)[:100]}", replay)
                if c.npartitions != h.npartitions and not rebucket:
                    viol(out, "C17.cut:npartitions-change-at-the-boundary", sig, f"{h.npartitions} -> {c.npartitions}", replay)
            except Exception as ex:
                viol(out, "C17.cut:re-imported-collection-broken", sig, f"{type(ex).__name__}: {str(ex)[:200]}", replay)
                continue
            try:
                q = tail_fn(tail, c, t)
                got = q.compute()
            except Exception as ex:
                if how == "delayed-nodivs" and tail in ("loc", "repartition_divs"):
                    continue  # needs known divisions, which this cut deliberately does not pass on
                viol(out, "C17.cut:continued-query-fails", sig, f"{type(ex).__name__}: {str(ex)[:200]}", replay)
                continue
            if D.equiv_headtail(ref[1], got, f"{tail}", order_free, index_free) is False:
                viol(out, "C17.cut:result-differs", sig, f"uncut={D.describe(ref[1])} cut={D.describe(got)}", replay)
            if _meta_desc(q) != ref_meta:
                viol(out, "C17.cut:schema-differs", sig, f"uncut {ref_meta} cut {_meta_desc(q)}", replay)
            if how not in ("delayed-nodivs",) and not layout_free and not rebucket and tuple(q.divisions) != ref_divs and tail not in ("sort_u", "set_index_u", "repart3"):
                viol(out, "C17.cut:divisions-differ", sig, f"uncut {str(ref_divs)[:100]} cut {str(tuple(q.divisions))[:100]}", replay)
    if len(out["samples"]) < 2:
        out["samples"].append({"head": head, "tail": tail, "cuts": CUTS})


def replay_case(case):
    from vf.rt.pool import _init

    _init()
    out = {"counts": {}, "violations": [], "samples": [], "errors": [], "notes": {}}
    check_case(tuple(case), {}, out)
    for v in out["violations"]:
        print(v["contract"], "|", v["signature"], "|", v["detail"][:300])
    return bool(out["violations"])


def history_case(case, common, out):
    """Two imports of the same delayed objects with different metadata stay different collections."""
    import dask_expr as dx

    npart, prefix = case
    tabs = C.tables(12)
    with warnings.catch_warnings():
        warnings.simplefilter("ignore")
        df = dx.from_pandas(tabs["df"], npartitions=npart)
        parts = df.to_delayed()
        a = dx.from_delayed(parts, meta=df._meta, prefix=prefix)  # without divisions
        b = dx.from_delayed(parts, meta=df._meta, divisions=df.divisions, prefix=prefix)
        c = dx.from_delayed(parts, meta=df._meta, divisions=df.divisions, prefix=prefix, verify_meta=False)
        sig = f"from_delayed twice|np={npart}|prefix={prefix}"
        bump(out, "C17.delayed:re-import-honours-its-own-arguments", sig, rule="the same delayed objects imported with / without divisions while the first import is alive")
        if tuple(b.divisions) != tuple(df.divisions):
            viol(out, "C17.delayed:divisions-lost-on-second-import", sig, f"expected {df.divisions}, got {b.divisions} (an earlier import of the same objects without divisions is still alive)", {"kind": "call", "module": "vf.props.C17", "func": "replay_history", "args": {"case": list(case)}})
        if a.known_divisions:
            viol(out, "C17.delayed:divisions-invented", sig, f"import without divisions reports {a.divisions}", {"kind": "none"})
        try:
            r = b.loc[3:8].compute()
            if D.equiv(r, tabs["df"].loc[3:8]) is False:
                viol(out, "C17.delayed:continued-query-differs", sig, D.describe(r), {"kind": "none"})
        except Exception as ex:
            viol(out, "C17.delayed:continued-query-fails", sig, f"{type(ex).__name__}: {str(ex)[:160]}", {"kind": "none"})


def array_import_case(case, common, out):
    """One dask array re-imported twice with two different indexes: each import keeps ITS index (both alive)."""
    import numpy as np
    import pandas as pd

    import dask_expr as dx
    from dask_expr import from_dask_array

    npart, known = case
    pdf = pd.DataFrame({"x": np.arange(12), "y": np.arange(12) * 1.5}, index=pd.Index(np.arange(12), name="i"))
    sig = f"from_dask_array twice|np={npart}|known={known}"
    with warnings.catch_warnings():
        warnings.simplefilter("ignore")
        base = dx.from_pandas(pdf, npartitions=npart)
        pdf2 = pdf.copy()
        pdf2.index = pdf2.index + 1000
        other = dx.from_pandas(pdf2, npartitions=npart)
        if not known:
            base, other = base.clear_divisions(), other.clear_divisions()
        try:
            arr = base.to_dask_array(lengths=True) if known else base.to_dask_array()
            a = from_dask_array(arr, columns=list(pdf.columns), index=base.index)
            b = from_dask_array(arr, columns=list(pdf.columns), index=other.index)
            bump(out, "C17.array:two-imports-keep-their-own-index", sig, rule="to_dask_array, then from_dask_array twice with two different index collections while both imports are alive")
            ga, gb = a.compute(), b.compute()
            if ga.index.tolist() != pdf.index.tolist() or gb.index.tolist() != pdf2.index.tolist():
                viol(out, "C17.array:import-took-the-other-import's-index", sig, f"first import index {ga.index.tolist()[:3]}.., second import index {gb.index.tolist()[:3]}.. (expected {pdf2.index.tolist()[:3]}..)", {"kind": "call", "module": "vf.props.C17", "func": "replay_array_import", "args": {"case": list(case)}})
            elif ga.x.tolist() != pdf.x.tolist() or gb.x.tolist() != pdf.x.tolist():
                viol(out, "C17.array:values-differ", sig, f"{ga.x.tolist()[:4]} / {gb.x.tolist()[:4]}", {"kind": "none"})
        except Exception as ex:
            out["notes"][f"array import not evaluated: {sig}"] = f"{type(ex).__name__}: {str(ex)[:100]}"


INPLACE = {
    "setitem-new-column": lambda x: x.__setitem__("z", x.u * 2 + 1),
    "setitem-overwrite": lambda x: x.__setitem__("u", x.u + 100),
    "delitem": lambda x: x.__delitem__("b"),
    "pop": lambda x: x.pop("g"),
    "columns-setter": lambda x: setattr(x, "columns", [str(c).upper() for c in x.columns]),
    "index-setter": lambda x: setattr(x, "index", x.u + 1000),
}


def inplace_case(case, common, out):
    """A collection object is cut, then edited IN PLACE (x[k] = v, del x[k], x.columns = ...), then cut again: the second
    cut is a cut of the query as it is now - tail(cut(x)) == tail(x) - for every pair of cut kinds."""
    import dask_expr as dx

    first, second, edit, npart = case
    tabs = C.tables(12)
    sig = f"first cut={first}|in-place edit={edit}|second cut={second}|np={npart}"
    replay = {"kind": "call", "module": "vf.props.C17", "func": "replay_inplace", "args": {"case": list(case)}}
    with warnings.catch_warnings():
        warnings.simplefilter("ignore")
        x = dx.from_pandas(tabs["df"][["u", "a", "b", "f", "g"]], npartitions=npart)
        try:
            cut(x, first)
            if first == "legacy":
                x.optimize()
            INPLACE[edit](x)
            want, want_meta = x.compute(), _meta_desc(x)
        except Exception as ex:
            out["notes"][f"in-place pipeline refused: {sig}"] = f"{type(ex).__name__}: {str(ex)[:80]}"
            return
        bump(out, "C17.cut:second-cut-after-in-place-edit", sig, rule="first cut kind x in-place edit of the collection object x second cut kind")
        try:
            c = cut(x, second)
            got = c.compute()
        except Exception as ex:
            viol(out, "C17.cut:cutting-fails", sig, f"{type(ex).__name__}: {str(ex)[:200]}", replay)
            return
        if _meta_desc(c) != want_meta:
            viol(out, "C17.cut:schema-changes-at-the-boundary", sig, f"query now: {want_meta}; its cut: {_meta_desc(c)}", replay)
        elif D.equiv(got, want) is False:
            viol(out, "C17.cut:result-differs", sig, f"uncut={D.describe(want)} cut={D.describe(got)}", replay)


def replay_inplace(case):
    from vf.rt.pool import _init

    _init()
    out = {"counts": {}, "violations": [], "samples": [], "errors": [], "notes": {}}
    inplace_case(tuple(case), {}, out)
    for v in out["violations"]:
        print(v["contract"], "|", v["signature"], "|", v["detail"][:300])
    return bool(out["violations"])


def replay_array_import(case):
    from vf.rt.pool import _init

    _init()
    out = {"counts": {}, "violations": [], "samples": [], "errors": [], "notes": {}}
    array_import_case(tuple(case), {}, out)
    for v in out["violations"]:
        print(v["contract"], "|", v["signature"], "|", v["detail"][:300])
    return bool(out["violations"])


def replay_history(case):
    from vf.rt.pool import _init

    _init()
    out = {"counts": {}, "violations": [], "samples": [], "errors": [], "notes": {}}
    history_case(tuple(case), {}, out)
    for v in out["violations"]:
        print(v["contract"], "|", v["signature"], "|", v["detail"][:300])
    return bool(out["violations"])


def run(run):
    heads = HEADS if run.tier == "thorough" else HEADS
    tails = TAILS if run.tier == "thorough" else TAILS
    layouts = [(3, True), (4, False)] if run.tier == "quick" else [(1, True), (3, True), (4, False), (6, True)]
    cases = [(h, t, n, k) for h in heads for t in tails for (n, k) in layouts]
    run_cases(run, "vf.props.C17", "check_case", cases, {}, chunk=4)
    run_cases(run, "vf.props.C17", "history_case", [(n, p) for n in (2, 4) for p in (None, "stage")], {}, chunk=1)
    firsts = ["persist", "delayed", "legacy", "persist-nofuse"]
    run_cases(run, "vf.props.C17", "inplace_case", [(a, b, e, n) for a in firsts for b in ["persist", "delayed", "legacy", "delayed-noopt"] for e in INPLACE for n in (1, 3)], {}, chunk=8)
    run_cases(run, "vf.props.C17", "array_import_case", [(3, False), (3, True), (1, False)], {}, chunk=1)
    from vf.contracts.registry import run_property_specs

    run_property_specs(run, "C17")
    run.assume("row order / index labels / partition layout are compared only where the pipeline defines them (joins, shuffles, sorts and repartitions leave the layout open)")
    run.trust("head / tail operator lists in vf/props/C17.py")
