"""C18 - parquet reads with pushed-down work equal reading everything into memory (bounded; DESIGN 5 C18).
R: small datasets written to a private temporary directory; projections / filter trees / partition subsets /
lengths / multi-file fused reads / statistics-based divisions compared with in-memory evaluation, for both
readers; overwrite guard.  P: FusedIO kernels (vf/contracts/partitions.py) when available."""
from __future__ import annotations

import itertools
import os
import shutil
import tempfile
import warnings

import numpy as np
import pandas as pd

from vf.rt import den as D
from vf.rt import nodewise as N
from vf.rt.pool import bump, run_cases, viol


def make_frame(kind, n=40):
    i = np.arange(n)
    df = pd.DataFrame(
        {
            "a": (i * 7) % 5,
            "b": [np.nan if x % 6 == 1 else x * 0.5 for x in i],
            "c": [None if x % 9 == 4 else f"s{x % 4}" for x in i],
            "d": i % 3 == 0,
            "e": pd.Timestamp("2024-01-01") + pd.to_timedelta((i * 13) % 31, unit="D"),
            "u": i * 3 + 100,
            "w": (i * 11) % 7 - 3,
        }
    )
    if kind == "named":
        df.index = pd.Index(i * 2 + 1000, name="ix")
    elif kind == "unnamed":
        df.index = pd.RangeIndex(n)
    elif kind == "dups":
        df.index = pd.Index(np.sort((i * 3) % 11), name="ix")
    elif kind == "str":
        df.index = pd.Index([f"k{x:03d}" for x in i], name="ix")
    elif kind == "dt":
        df.index = pd.Index(pd.Timestamp("2024-02-01") + pd.to_timedelta(i * 6, unit="h"), name="ts")
    return df


def write_dataset(path, pdf, pieces, order="sorted"):
    """One file per piece (uneven sizes allowed); file names may be out of index order."""
    os.makedirs(path, exist_ok=True)
    bounds = np.cumsum([0] + list(pieces))
    parts = [pdf.iloc[a:b] for a, b in zip(bounds, bounds[1:])]
    names = list(range(len(parts)))
    if order == "reversed":
        names = names[::-1]
    elif order == "shuffled":
        names = [(k * 3 + 1) % len(parts) for k in names] if len(set((k * 3 + 1) % len(parts) for k in names)) == len(parts) else names[::-1]
    for p, k in zip(parts, names):
        p.to_parquet(os.path.join(path, f"part.{k}.parquet"))
    return parts


ATOMS = {
    "A": (lambda x: x.a > 1),
    "B": (lambda x: x.b < 9.0),
    "C": (lambda x: x.u >= 160),
    "D": (lambda x: x.w == 0),
    "E": (lambda x: x.c == "s1"),
    "F": (lambda x: x.b != 2.0),
    "G": (lambda x: x.a <= 3),
    # atoms the reader cannot express as (column, op, literal): they must stay in the in-memory filter
    "H": (lambda x: x.c.isin(["s1", "s2"])),
    "I": (lambda x: x.b.isna()),
    "J": (lambda x: x.a > x.w),
    "K": (lambda x: ~(x.a > 1)),
}


def formulas(tier):
    names = list(ATOMS)
    out = [(n,) for n in names]
    out += [("&", a, b) for a, b in itertools.combinations(names, 2)]
    out += [("|", a, b) for a, b in itertools.combinations(names, 2)]
    trip = list(itertools.combinations(names[:5], 3))
    for a, b, c in trip if tier == "thorough" else trip[::2]:
        out += [("&|", a, b, c), ("|&", a, b, c)]
    out += [("&|", "A", "H", "D"), ("|&", "I", "B", "C"), ("&|", "J", "C", "E"), ("|&", "K", "F", "A")]
    return out


def eval_formula(f, x):
    if len(f) == 1:
        return ATOMS[f[0]](x)
    if f[0] == "&":
        return ATOMS[f[1]](x) & ATOMS[f[2]](x)
    if f[0] == "|":
        return ATOMS[f[1]](x) | ATOMS[f[2]](x)
    if f[0] == "&|":
        return (ATOMS[f[1]](x) & ATOMS[f[2]](x)) | ATOMS[f[3]](x)
    if f[0] == "|&":
        return (ATOMS[f[1]](x) | ATOMS[f[2]](x)) & ATOMS[f[3]](x)
    raise KeyError(f)


def _same_rows(got, exp, index=True):
    g = got.sort_values(["u"]).reset_index(drop=not index)
    e = exp.sort_values(["u"]).reset_index(drop=not index)
    return D.equiv(g, e, index_free=not index)


def check_case(case, common, out):
    import dask
    import dask_expr as dx

    kind, pieces, order, reader, calc = case
    tier = common.get("tier", "quick")
    tmp = tempfile.mkdtemp(prefix="verif_c18_")
    sig0 = f"index={kind}|files={pieces}|order={order}|reader={reader}|calculate_divisions={calc}"
    replay = {"kind": "call", "module": "vf.props.C18", "func": "replay_case", "args": {"case": [kind, list(pieces), order, reader, calc]}}
    try:
        with warnings.catch_warnings(), dask.config.set({"dataframe.shuffle.method": "tasks", "scheduler": "sync"}):
            warnings.simplefilter("ignore")
            pdf = make_frame(kind, sum(pieces))
            path = os.path.join(tmp, "ds")
            write_dataset(path, pdf, pieces, order)
            kw = {"filesystem": reader, "calculate_divisions": calc}
            if kind != "unnamed":
                kw["index"] = pdf.index.name

            def read(**extra):
                return dx.read_parquet(path, **{**kw, **extra})

            # (a) round trip
            try:
                r = read()
                full = r.compute()
            except Exception as ex:
                if calc and kind == "unnamed" and isinstance(ex, ValueError):
                    out["notes"]["calculate_divisions on an unnamed index is refused"] = str(ex)[:80]
                    return
                viol(out, "C18.roundtrip:read-fails", sig0, f"{type(ex).__name__}: {str(ex)[:200]}", replay)
                return
            bump(out, "C18.roundtrip:read==written", sig0, rule="dataset (index kind, file sizes, file order) x reader x calculate_divisions")
            keep_index = kind != "unnamed"
            if _same_rows(full, pdf, index=keep_index) is False:
                viol(out, "C18.roundtrip:data-differs", sig0, f"read={D.describe(full)} written={D.describe(pdf)}", replay)
                return
            inmem = full
            # (b) divisions truthful at every stage, npartitions == computed partitions
            for stage, plan in N.stage_plans(r.expr, ["logical", "simplified-logical", "tuned-logical", "physical", "fused"]).items():
                if isinstance(plan, Exception):
                    continue
                pr = N.node_parts(plan)
                if pr[0] == "ok":
                    for k_, detail in N.check_divisions(plan, pr[1]):
                        viol(out, f"C18.divisions:{k_}", f"{sig0}|stage={stage}", detail, replay)
            if calc and kind in ("named", "str", "dt") and order == "sorted" and not r.known_divisions:
                viol(out, "C18.divisions:requested-but-unknown", sig0, f"divisions={r.divisions}", replay)
            # (c) projections, incl. fused multi-file reads and operations on top
            for cols in (["u"], ["b", "a"], ["c", "u", "d"], "w"):
                q = read()[cols]
                exp = inmem[cols]
                for label, qq, ee in (("plain", q, exp), ("op-on-top", (q + 1 if cols in (["u"], "w") else q), (exp + 1 if cols in (["u"], "w") else exp))):
                    s = f"{sig0}|columns={cols}|{label}"
                    bump(out, "C18.projection:pushed==in-memory", s, rule="column selections x (plain | elementwise op on top, which triggers fused multi-file reads)")
                    try:
                        got = qq.compute()
                        gf, ef = (got.to_frame(), ee.to_frame()) if isinstance(got, pd.Series) else (got, ee)
                        if D.equiv(gf, ef, order_free=True, index_free=True) is False:
                            viol(out, "C18.projection:differs", s, f"pushed={D.describe(got)} in-memory={D.describe(ee)}", replay)
                        o = qq.optimize(fuse=True)
                        pr = N.node_parts(o.expr)
                        if pr[0] == "ok":
                            for k_, detail in N.check_divisions(o.expr, pr[1]):
                                viol(out, f"C18.projection.divisions:{k_}", s, detail, replay)
                    except Exception as ex:
                        viol(out, "C18.projection:fails", s, f"{type(ex).__name__}: {str(ex)[:200]}", replay)
            # (d) filters
            for f in formulas(tier):
                ufs = (None, [("u", ">", 120)], [[("u", ">", 150)], [("a", "<=", 1)]]) if len(f) <= 3 else (None, [("u", ">", 120)])
                for uf in ufs:
                    s = f"{sig0}|filter={f}|user_filters={uf}"
                    try:
                        rr = read(filters=uf) if uf is not None else read()
                        got = rr[eval_formula(f, rr)].compute()
                        if uf is None:
                            base = inmem
                        elif isinstance(uf[0], list):  # disjunctive normal form: OR of AND-lists
                            base = inmem[(inmem.u > 150) | (inmem.a <= 1)]
                        else:
                            base = inmem[inmem.u > 120]
                        exp = base[eval_formula(f, base)]
                        bump(out, "C18.filter:pushed==in-memory", s, rule="comparison / and / or trees over 11 atoms (7 reader-expressible, 4 not: isin, isna, column-vs-column, negation; with nulls), without / with conjunctive / with disjunctive user-supplied filters")
                        if _same_rows(got, exp, index=keep_index) is False:
                            viol(out, "C18.filter:differs", s, f"pushed={len(got)} rows, in-memory={len(exp)} rows; u values only pushed: {sorted(set(got.u) - set(exp.u))[:5]} only in-memory: {sorted(set(exp.u) - set(got.u))[:5]}", replay)
                    except Exception as ex:
                        viol(out, "C18.filter:fails", s, f"{type(ex).__name__}: {str(ex)[:200]}", replay)
            # (e) partition subsets and lengths
            nparts = r.npartitions
            parts = N.node_parts(r.expr)
            if parts[0] == "ok" and len(parts[1]) == nparts:
                sels = [[0], [nparts - 1], list(range(nparts))]
                if nparts >= 3:
                    sels += [[1, 2], [2, 0], list(range(1, nparts))]
                if nparts >= 6:
                    sels += [list(range(2, 6))]
                for sel in sels:
                    for cols in (None, ["u"], ["b", "u"]):
                        s = f"{sig0}|partitions={sel}|columns={cols}"
                        try:
                            q = read().partitions[sel]
                            exp = pd.concat([parts[1][p] for p in sel])
                            if cols is not None:
                                q, exp = q[cols], exp[cols]
                            bump(out, "C18.partitions:subset+len", s, rule="partition subsets x projection: data, len() and divisions of the optimized (possibly fused) plan")
                            got = q.compute()
                            if D.equiv(got.reset_index(drop=True), exp.reset_index(drop=True)) is False:
                                viol(out, "C18.partitions:subset-differs", s, f"got={D.describe(got)} expected={D.describe(exp)}", replay)
                            if len(q) != len(exp):
                                viol(out, "C18.len:len()!=rows", s, f"len()={len(q)} rows={len(exp)}", replay)
                            for fuse in (False, True):
                                o = (q + 0 if cols == ["u"] else q).optimize(fuse=fuse)
                                pr = N.node_parts(o.expr)
                                if pr[0] == "ok":
                                    for k_, detail in N.check_divisions(o.expr, pr[1]):
                                        viol(out, f"C18.partitions.divisions:{k_}", f"{s}|fuse={fuse}", detail, replay)
                        except Exception as ex:
                            viol(out, "C18.partitions:fails", s, f"{type(ex).__name__}: {str(ex)[:200]}", replay)
            # (h) statistics cache: a projected query is optimized BEFORE lengths / divisions are asked for
            try:
                fresh = read()
                (fresh[["u"]] + 1).optimize()
                n1 = len(read())
                n2 = len(fresh)
                bump(out, "C18.len:after-projected-optimize", sig0, rule="len() asked after a projected query was optimized first (statistics cache)")
                if n1 != len(pdf) or n2 != len(pdf):
                    viol(out, "C18.len:len()!=rows", f"{sig0}|after-projected-optimize", f"len()={n1}/{n2}, written rows={len(pdf)}", replay)
                again = dx.read_parquet(path, **{**kw, "calculate_divisions": True})
                pr = N.node_parts(again.expr)
                if pr[0] == "ok":
                    for k_, detail in N.check_divisions(again.expr, pr[1]):
                        viol(out, f"C18.divisions:{k_}", f"{sig0}|after-projected-optimize", detail, replay)
            except Exception as ex:
                viol(out, "C18.len:fails", sig0, f"{type(ex).__name__}: {str(ex)[:200]}", replay)
            # (g) overwrite guard + (i) rewritten dataset reflects the new contents
            try:
                raised = False
                try:
                    read().assign(z=1).to_parquet(path, overwrite=True)
                except ValueError:
                    raised = True
                bump(out, "C18.overwrite:refused", sig0, rule="writing over the dataset the same query reads")
                if not raised:
                    viol(out, "C18.overwrite:not-refused", sig0, "to_parquet(path, overwrite=True) of a query reading path did not raise", replay)
                # the query reads a single FILE inside the directory that is overwritten
                inner = sorted(f for f in os.listdir(path) if f.endswith(".parquet"))[0]
                one = dx.read_parquet(os.path.join(path, inner), **kw)
                raised = False
                failed = ""
                try:
                    one.assign(z=1).to_parquet(path, overwrite=True)
                except ValueError:
                    raised = True
                except Exception as ex:  # the guard let it through and the inputs were deleted under the query
                    failed = f" and failed with {type(ex).__name__}: {str(ex)[:100]}"
                bump(out, "C18.overwrite:refused", f"{sig0}|reads-a-file-inside", rule="writing over the dataset the same query reads")
                if not raised:
                    viol(out, "C18.overwrite:not-refused", f"{sig0}|reads-a-file-inside", f"to_parquet(dir, overwrite=True) of a query reading {inner} inside dir was not refused{failed}", replay)
                    write_dataset(path, pdf, pieces, order)  # restore for the checks below
                pdf2 = pdf.copy()
                pdf2["u"] = pdf2["u"] + 5000
                pdf2.index = pdf.index if kind in ("unnamed", "str", "dups") else (pdf.index + (pdf.index.max() - pdf.index.min()) * 2 if kind == "named" else pdf.index + pd.Timedelta(days=400))
                shutil.rmtree(path)
                write_dataset(path, pdf2, pieces, order)  # same file names, same sizes
                rr = read()
                got = rr.compute()
                bump(out, "C18.rewrite:re-read-reflects-new-contents", sig0, rule="dataset rewritten in place with equal file names and sizes, then read again in the same process")
                if sorted(got.u.tolist()) != sorted(pdf2.u.tolist()):
                    viol(out, "C18.rewrite:stale-data", sig0, f"re-read u[:3]={sorted(got.u.tolist())[:3]}, on disk {sorted(pdf2.u.tolist())[:3]}", replay)
                pr = N.node_parts(rr.expr)
                if pr[0] == "ok":
                    for k_, detail in N.check_divisions(rr.expr, pr[1]):
                        viol(out, f"C18.rewrite.divisions:{k_}", sig0, detail, replay)
                if len(rr) != len(pdf2):
                    viol(out, "C18.rewrite:stale-len", sig0, f"len()={len(rr)} rows on disk={len(pdf2)}", replay)
            except Exception as ex:
                viol(out, "C18.rewrite:fails", sig0, f"{type(ex).__name__}: {str(ex)[:200]}", replay)
    finally:
        shutil.rmtree(tmp, ignore_errors=True)
    if len(out["samples"]) < 2:
        out["samples"].append({"dataset": sig0})


def replay_case(case):
    from vf.rt.pool import _init

    _init()
    out = {"counts": {}, "violations": [], "samples": [], "errors": [], "notes": {}}
    check_case((case[0], tuple(case[1]), case[2], case[3], case[4]), {"tier": "quick"}, out)
    for v in out["violations"][:20]:
        print(v["contract"], "|", v["signature"], "|", v["detail"][:300])
    return bool(out["violations"])


def run(run):
    cases = []
    piece_sets = [(40,), (20, 20), (5, 12, 8, 15), (7, 7, 7, 7, 6, 6), (3, 9, 4, 11, 6, 2, 5)] if run.tier == "thorough" else [(40,), (5, 12, 8, 15), (7, 7, 7, 7, 6, 6)]
    for kind in ("named", "unnamed", "dups", "str", "dt") if run.tier == "thorough" else ("named", "unnamed", "str", "dups"):
        for pieces in piece_sets if (kind != "dups" or run.tier == "thorough") else [(5, 12, 8, 15), (11, 11, 18)]:
            # (dups: index values repeated across file boundaries - the ranges of neighbouring files touch)
            for order in ("sorted", "reversed") if len(pieces) > 1 else ("sorted",):
                for reader in ("fsspec", "arrow"):
                    for calc in (False, True):
                        cases.append((kind, pieces, order, reader, calc))
    run_cases(run, "vf.props.C18", "check_case", cases, {"tier": run.tier}, chunk=1)
    from vf.contracts.registry import run_property_specs

    run_property_specs(run, "C18")
    run.assume("datasets are written by pandas/pyarrow to a private temporary directory that is removed afterwards; dask_expr/io/tests/test_parquet.py is not collected in this sandbox (it imports distributed)")
    run.trust("pyarrow 25 parquet reader / writer and its statistics")
