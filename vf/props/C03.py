"""C03 - a filter keeps exactly the rows that satisfy the user's predicate (DESIGN 5 C03).
S: exhaustive truth-preservation of rewrite_filters and of the parquet DNF conversion on the real functions;
R: predicate programs (with nulls) x crossing operators x join kinds against pandas and against the unoptimized plan."""
from __future__ import annotations

import itertools
import os
import shutil
import tempfile
import warnings

import numpy as np
import pandas as pd

from vf.rt import cases as K
from vf.rt import corpus as C
from vf.rt import den as D
from vf.rt.pool import bump, run_cases, viol

# ---------------------------------------------------------------------------------------------
# S tier: rewrite_filters on all OR-of-AND shaped predicate trees, all valuations (2- and 3-valued)
# ---------------------------------------------------------------------------------------------


def _truth_frames():
    """One frame whose rows enumerate all valuations of 4 atoms: plain bool, and nullable boolean (3-valued)."""
    rows2 = list(itertools.product([False, True], repeat=4))
    f2 = pd.DataFrame(rows2, columns=["p0", "p1", "p2", "p3"])
    rows3 = list(itertools.product([False, True, pd.NA], repeat=4))
    f3 = pd.DataFrame(rows3, columns=["p0", "p1", "p2", "p3"]).astype("boolean")
    return f2, f3


def _eval_pred(e, frame):
    """Evaluate a dask-expr boolean predicate tree over the columns of `frame` with pandas semantics."""
    from dask_expr._expr import And, Invert, Or, Projection

    if isinstance(e, And):
        return _eval_pred(e.left, frame) & _eval_pred(e.right, frame)
    if isinstance(e, Or):
        return _eval_pred(e.left, frame) | _eval_pred(e.right, frame)
    if isinstance(e, Invert):
        return ~_eval_pred(e.frame, frame)
    if isinstance(e, Projection):
        return frame[e.operand("columns")]
    raise TypeError(type(e).__name__)


def branches(lits, max_len):
    out = []
    for k in range(1, max_len + 1):
        for combo in itertools.combinations(lits, k):
            out.append(combo)
    return out


def s_rewrite_filters(run, tier):
    import dask_expr as dx
    from dask_expr._expr import rewrite_filters

    f2, f3 = _truth_frames()
    df = dx.from_pandas(f2, npartitions=1)
    atoms = {f"p{i}": df[f"p{i}"] for i in range(4)}
    lits = {}
    for n, a in atoms.items():
        lits[n] = a
        lits["~" + n] = ~a

    def conj(names):
        e = lits[names[0]]
        for n in names[1:]:
            e = e & lits[n]
        return e

    def disj(bs):
        e = conj(bs[0])
        for b in bs[1:]:
            e = e | conj(b)
        return e

    names = list(lits)
    b3 = branches(names, 3)
    b2 = branches(names[:6], 2)  # literals over 3 atoms
    shapes = [(x, y) for x in b3 for y in b3]
    if tier == "thorough":
        shapes += [(x, y, z) for x in b2 for y in b2 for z in b2]
        shapes += [(x, y, z, w) for x in b2[:12] for y in b2[:12] for z in b2[:12] for w in b2[:12]]
    else:
        shapes += [(x, y, z) for x in b2[::2] for y in b2 for z in b2[::3]]
    nfail = 0
    seen_rewrites = 0
    for bs in shapes:
        pred = disj(bs).expr
        out = rewrite_filters(pred)
        changed = out._name != pred._name
        seen_rewrites += changed
        key = "|".join("&".join(b) for b in bs)
        run.count("C03.S.rewrite_filters:truth-preserved", 1, key if changed else None, tier="S", rule="all OR-of-AND predicate trees over 4 atoms and their negations (2 branches of <=3 literals exhaustively; 3-4 branches over 3 atoms), real Expr predicates through the real rewrite_filters, compared on every 2-valued and 3-valued (nullable) valuation; non-trivial iff the predicate was rewritten")
        if not changed:
            continue
        for frame, label in ((f2, "2-valued"), (f3, "3-valued")):
            a = _eval_pred(pred, frame)
            b = _eval_pred(out, frame)
            same = a.equals(b) if label == "2-valued" else (a.fillna(False).astype(bool).equals(b.fillna(False).astype(bool)))
            # a filter keeps the rows where the mask is True: missing counts as not selected
            if not same:
                nfail += 1
                if nfail <= 5:
                    rowsel = list(np.flatnonzero((a.fillna(False).astype(bool) != b.fillna(False).astype(bool)).to_numpy()))[:3]
                    run.violation(
                        "C03.S.rewrite_filters:truth-changed",
                        f"predicate ({key}) {label}",
                        f"rewritten to {out}; masks differ on valuations {[tuple(frame.iloc[r]) for r in rowsel]}",
                        {"kind": "call", "module": "vf.props.C03", "func": "replay_rewrite", "args": {"branches": [list(b) for b in bs]}},
                        tier="S",
                    )
    run.notes.append(f"rewrite_filters: {len(shapes)} predicate trees, {seen_rewrites} rewritten")
    if len(run.samples) < 6:
        run.sample({"rewrite_filters_tree": "(p0&p1)|(p0&~p2)", "valuations": "16 two-valued + 81 three-valued"})


def replay_rewrite(branches):
    import dask_expr as dx
    from dask_expr._expr import rewrite_filters

    f2, f3 = _truth_frames()
    df = dx.from_pandas(f2, npartitions=1)

    def lit(n):
        return ~df[n[1:]] if n.startswith("~") else df[n]

    e = None
    for b in branches:
        c = None
        for n in b:
            c = lit(n) if c is None else c & lit(n)
        e = c if e is None else e | c
    out = rewrite_filters(e.expr)
    bad = False
    for frame in (f2, f3):
        a, b = _eval_pred(e.expr, frame), _eval_pred(out, frame)
        if not a.fillna(False).astype(bool).equals(b.fillna(False).astype(bool)):
            bad = True
    print("predicate:", e.expr, "->", out, "truth changed:", bad)
    return bad


# ---------------------------------------------------------------------------------------------
# S tier: parquet DNF conversion
# ---------------------------------------------------------------------------------------------
def _eval_dnf(filters, frame):
    """Reference semantics of List[List[Tuple]] / List[Tuple] filters."""
    if not filters:
        return pd.Series(True, index=frame.index)
    if isinstance(filters[0], tuple):
        filters = [filters]
    res = pd.Series(False, index=frame.index)
    ops = {"==": lambda s, v: s == v, "!=": lambda s, v: s != v, "<": lambda s, v: s < v, "<=": lambda s, v: s <= v, ">": lambda s, v: s > v, ">=": lambda s, v: s >= v}
    for conj in filters:
        m = pd.Series(True, index=frame.index)
        for col, op, val in conj:
            m &= ops[op](frame[col], val)
        res |= m
    return res


def s_dnf(run, tier):
    import dask_expr as dx
    from dask_expr.io.parquet import _DNF

    tmp = tempfile.mkdtemp(prefix="verif_c03_")
    try:
        rows = list(itertools.product([0, 1, 2], repeat=3))
        frame = pd.DataFrame(rows, columns=["x", "y", "z"])
        frame.to_parquet(os.path.join(tmp, "part.0.parquet"))
        r = dx.read_parquet(tmp)
        atoms = [r.x == 1, r.y > 0, r.z <= 1, r.x != 2, r.y >= 2, r.z < 1]
        pa = [frame.x == 1, frame.y > 0, frame.z <= 1, frame.x != 2, frame.y >= 2, frame.z < 1]

        def trees(depth):
            if depth == 0:
                for i in range(len(atoms)):
                    yield atoms[i], pa[i], f"a{i}"
                return
            for (e1, p1, s1), (e2, p2, s2) in itertools.product(list(trees(depth - 1)), list(trees(0))):
                yield e1 & e2, p1 & p2, f"({s1}&{s2})"
                yield e1 | e2, p1 | p2, f"({s1}|{s2})"
                yield e2 & e1, p2 & p1, f"({s2}&{s1})"
                yield e2 | e1, p2 | p1, f"({s2}|{s1})"

        # atoms the reader cannot express: a predicate containing one must not be converted at all, because
        # ReadParquet._simplify_up REPLACES the Filter by the reader filters (whole predicate or nothing)
        hard = [(r.x.isin([1, 2]), "isin"), (r.y.isna(), "isna"), (r.x > r.z, "colcol"), (~(r.x == 1), "not")]
        for he, hname in hard:
            for i in (0, 1, 4):
                for e, sname in ((atoms[i] & he, f"(a{i}&{hname})"), (he & atoms[i], f"({hname}&a{i})"), (atoms[i] | he, f"(a{i}|{hname})"), ((atoms[i] & he) | atoms[2], f"((a{i}&{hname})|a2)"), ((atoms[i] | atoms[2]) & he, f"((a{i}|a2)&{hname})"), (he, hname)):
                    dnf = _DNF.extract_pq_filters(r.expr, e.expr)
                    run.count("C03.S.DNF:partially-convertible-predicate-not-converted", 1, sname, tier="S", rule="trees containing an atom the reader cannot express (isin, isna, column-vs-column, negation): extract_pq_filters must return no filters")
                    if dnf._filters is not None:
                        run.violation("C03.S.DNF:partial-conversion", f"predicate {sname}", f"extract_pq_filters returned {dnf.to_list_tuple()} although the predicate contains `{hname}`, which the reader cannot express; the Filter would be dropped", {"kind": "none"}, tier="S")
        todo = list(trees(1)) + (list(trees(2)) if tier == "thorough" else list(trees(2))[::7])
        # balanced shapes (a op b) op (c op d)
        t1 = list(trees(1))
        todo += [(e1 & e2, p1 & p2, f"({s1}&{s2})") for (e1, p1, s1) in t1[::5] for (e2, p2, s2) in t1[::7]]
        todo += [(e1 | e2, p1 | p2, f"({s1}|{s2})") for (e1, p1, s1) in t1[::5] for (e2, p2, s2) in t1[::7]]
        user_filters = [None, [("x", ">", 0)], [[("y", "==", 1)], [("z", "==", 2)]]]
        for e, p, sname in todo:
            dnf = _DNF.extract_pq_filters(r.expr, e.expr)
            for uf in user_filters:
                comb = dnf.combine(uf) if uf is not None else dnf  # as ReadParquet._simplify_up does: new filters .combine( existing operand )
                lt = comb.to_list_tuple() if comb else []
                got = _eval_dnf(lt, frame)
                exp = p & (_eval_dnf(uf, frame) if uf is not None else True)
                run.count("C03.S.DNF:extract+normalize+combine-preserve-truth", 1, f"{sname}|{uf is not None}", tier="S", rule="and/or trees over 6 comparison atoms on a real ReadParquet expression, combined with user filters; list-of-tuples semantics against the tree on all 27 valuations")
                if not got.equals(exp):
                    run.violation("C03.S.DNF:truth-changed", f"predicate {sname} user_filters={uf}", f"DNF={lt} selects {int(got.sum())} rows, predicate selects {int(exp.sum())}", {"kind": "none"}, tier="S")
        run.sample({"dnf_tree": todo[5][2], "user_filters": str(user_filters[2])})
    finally:
        shutil.rmtree(tmp, ignore_errors=True)


# ---------------------------------------------------------------------------------------------
# R tier
# ---------------------------------------------------------------------------------------------
CROSS = ["proj5", "assign_z", "rename", "astype", "reset_index", "sort_u", "set_index_u", "repart2", "repart5", "fillna_dict", "abs", "mp", "add_prefix", "concat_df3", "merge_df2"]
_oracle = {}


def _pandas(case):
    key = (case[0], case[1], case[3])
    if key not in _oracle:
        try:
            with warnings.catch_warnings():
                warnings.simplefilter("ignore")
                _, exp = K.build(case, lazy=False)
            _oracle[key] = ("ok", exp)
        except Exception as ex:
            _oracle[key] = ("err", repr(ex)[:100])
    return _oracle[key]


def check_case(case, common, out):
    cid = K.case_id(case)
    prog = C.PROGRAMS[case[3]]
    replay = {"kind": "call", "module": "vf.props.C03", "func": "replay_case", "args": {"case": list(case)}}
    try:
        with warnings.catch_warnings():
            warnings.simplefilter("ignore")
            _, q = K.build(case)
    except Exception as ex:
        out["notes"][f"refused at construction: {case[3]}"] = f"{type(ex).__name__}: {str(ex)[:80]}"
        return
    if prog.undefined:
        return
    D.clear_cache()
    ref = D.den(q.expr) if hasattr(q, "expr") else ("err", "eager")
    try:
        with warnings.catch_warnings():
            warnings.simplefilter("ignore")
            got = ("ok", q.compute() if hasattr(q, "compute") else q)
    except Exception as ex:
        got = ("err", f"{type(ex).__name__}: {str(ex)[:200]}")
    exp = _pandas(case) if not prog.dask_only else ("err", "no oracle")
    bump(out, "C03.R.filter:rows==predicate-rows", cid, rule="filter programs (predicate trees with nulls, crossing operators, joins) x layouts: optimized result against pandas and against the unoptimized plan")
    if got[0] == "err":
        if ref[0] == "ok":
            viol(out, "C03.R.filter:optimized-fails-unoptimized-succeeds", cid, got[1], replay)
        return
    if ref[0] == "ok" and D.equiv_headtail(ref[1], got[1], case[3], prog.order_free, prog.index_free) is False:
        viol(out, "C03.R.filter:optimized-differs-from-unoptimized", cid, f"unoptimized={D.describe(ref[1])} optimized={D.describe(got[1])}", replay)
    if exp[0] == "ok" and D.equiv(got[1], exp[1], prog.order_free, prog.index_free) is False:
        viol(out, "C03.R.filter:rows-differ-from-pandas-predicate", cid, f"dask={D.describe(got[1])} pandas={D.describe(exp[1])}", replay)
    if len(out["samples"]) < 2:
        out["samples"].append({"case": cid})


def replay_case(case):
    from vf.rt.pool import _init

    _init()
    _register()
    out = {"counts": {}, "violations": [], "samples": [], "errors": [], "notes": {}}
    ls = case[2]
    ls = (ls[0], tuple(tuple(x) if isinstance(x, list) else x for x in ls[1]) if isinstance(ls[1], list) else ls[1], ls[2])
    check_case((case[0], case[1], ls, case[3]), {}, out)
    for v in out["violations"]:
        print(v["contract"], "|", v["signature"], "|", v["detail"][:300])
    return bool(out["violations"])


def _register():
    """Join-predicate programs: how x predicate side x suffix collisions x other consumers of the join."""
    if "jp:inner:left" in C.PROGRAMS:
        return
    preds = {
        "left": lambda m: m.f > 0,
        "right": lambda m: m.w > 1,
        "key": lambda m: m.a > 1,
        "left_null": lambda m: m.b_x < 9,
        "right_sfx": lambda m: m.b_y > 3,
        "both": lambda m: (m.f > 0) & (m.w > 1),
        "both_rl": lambda m: (m.w > 1) & (m.f > 0),
        "or_sides": lambda m: (m.f > 1) | (m.w > 3),
        "key_or_key": lambda m: (m.a > 2) | (m.a < 1),
        "ne_null": lambda m: m.b_y != 6.0,
        "isna_right": lambda m: m.w.isna(),
        "colcol": lambda m: m.u_x > m.u_y,
    }
    for how in ("inner", "left", "right", "outer", "leftsemi"):
        for pn, pf in preds.items():
            if how == "leftsemi" and pn not in ("left", "key", "key_or_key"):
                continue

            def fn(t, how=how, pf=pf):
                if how == "leftsemi":
                    m = t.df.merge(t.df2[["a"]], on="a", how="leftsemi") if t.lazy else t.df[t.df.a.isin(t.df2.a)]
                else:
                    m = t.df.merge(t.df2, on="a", how=how)
                return m[pf(m)]

            def fn_shared(t, how=how, pf=pf):
                m = t.df.merge(t.df2, on="a", how=how)
                return m[pf(m)].u_x.sum() + m.u_x.count()

            C.PROGRAMS[f"jp:{how}:{pn}"] = C.Prog(f"jp:{how}:{pn}", fn, order_free=True, index_free=True, tags={"joinpred"})
            if how != "leftsemi":
                C.PROGRAMS[f"jps:{how}:{pn}"] = C.Prog(f"jps:{how}:{pn}", fn_shared, tags={"joinpred"})
        for sfx in (("_l", ""), ("", "_r")):

            def fn2(t, how=how, sfx=sfx):
                if how == "leftsemi":
                    return t.df[["a"]]
                m = t.df.merge(t.df2, on="a", how=how, suffixes=sfx)
                return m[m.b > 2]

            C.PROGRAMS[f"jpsfx:{how}:{sfx[0] or 'none'}{sfx[1] or 'none'}"] = C.Prog(f"jpsfx:{how}:{sfx}", fn2, order_free=True, index_free=True, tags={"joinpred"})
        if how == "leftsemi":
            continue
        # keys named differently on the two sides with ONE key in the index, filtered on the key of the other side: the
        # filter can reach one input only, so it may move there only if the join cannot re-introduce that input's rows
        # (the column/column forms are corpus programs merge_diffkeys_*; these stay here because the declared index
        # name of such joins is an open known finding of C07 under other program names)

        def fn_ri(t, how=how):
            r = t.df2[["a", "w"]].set_index("a")
            m = t.df[["a", "u"]].merge(r if t.lazy else r.sort_index(kind="stable"), left_on="a", right_index=True, how=how)
            return m[m.a > 1]

        def fn_li(t, how=how):
            l = t.df[["a", "u"]].set_index("a")
            m = (l if t.lazy else l.sort_index(kind="stable")).merge(t.df2[["a", "w"]].rename(columns={"a": "j"}), left_index=True, right_on="j", how=how)
            return m[m.j > 1]

        C.PROGRAMS[f"jpdk:{how}:right_index:left_key"] = C.Prog(f"jpdk:{how}:right_index:left_key", fn_ri, order_free=True, index_free=True, tags={"joinpred", "sort"})
        C.PROGRAMS[f"jpdk:{how}:left_index:right_key"] = C.Prog(f"jpdk:{how}:left_index:right_key", fn_li, order_free=True, index_free=True, tags={"joinpred", "sort"})


def run(run):
    import random

    rng = random.Random(run.seed)
    _register()
    s_rewrite_filters(run, run.tier)
    s_dnf(run, run.tier)
    two, three, extra = C.predicate_formulas(rng if run.tier == "thorough" else None, atoms="ABCDN")
    forms = extra + (three + two if run.tier == "thorough" else three[:80] + two[::4])
    preds = [f"pred:{f}:{c}" for f in forms for c in (("id", "cols_ub") if run.tier == "quick" else ("id", "cols_ub", "sum_u", "gb"))]
    cross = [f"g:{op}:{c}" for op in CROSS for c in ("filter_b", "filter_a_proj")] + [f"g:{op}:f_and:{c}" for op in CROSS for c in ("id", "cols_ub")] + [f"g:f_or:{op}:{c}" for op in CROSS for c in ("filter_b",)]
    joins = [n for n, p in C.PROGRAMS.items() if "joinpred" in p.tags] + [n for n in C.PROGRAMS if n.startswith(("filter", "merge_filter", "mpred", "pipe_proj_merge_filter"))]
    joins += [n for n, p in C.PROGRAMS.items() if p.tags & {"nonrowwise", "valuechange"}]
    if run.tier == "quick":
        cases = K.standard_cases(preds, ["range"], [("np", 3, True)]) + K.standard_cases(cross + joins, ["range"], [("np", 3, True), ("np", 2, False)])
    else:
        cases = K.standard_cases(preds + cross + joins, ["range", "dupint", "str"], [("np", 1, True), ("np", 3, True), ("np", 5, False)])
    run_cases(run, "vf.props.C03", "check_case_registered", cases, {})
    from vf.contracts.registry import run_property_specs

    run_property_specs(run, "C03")
    run.assume("a filter selects the rows whose mask is True; a missing mask value selects nothing (pandas semantics)")
    run.trust("reference evaluator of predicate trees and of list-of-tuples DNF filters in vf/props/C03.py")


def check_case_registered(case, common, out):
    _register()
    check_case(case, common, out)
