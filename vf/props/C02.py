"""C02 - results equal the pandas meaning of the query for every partitioning (bounded; DESIGN 5 C02)."""
from __future__ import annotations

import warnings

from vf.rt import cases as K
from vf.rt import corpus as C
from vf.rt import den as D
from vf.rt.pool import bump, run_cases, viol

RULE = "program x dataset x layout (every composition of the rows into partitions, incl. empty ones); non-trivial iff the layout has >= 2 partitions and the pandas result is non-empty"
_oracle_cache = {}


def oracle(case):
    key = (case[0], case[1], case[3])
    if key not in _oracle_cache:
        try:
            with warnings.catch_warnings():
                warnings.simplefilter("ignore")
                _, exp = K.build(case, lazy=False)
            _oracle_cache[key] = ("ok", exp)
        except Exception as ex:
            _oracle_cache[key] = ("err", f"{type(ex).__name__}: {str(ex)[:100]}")
    return _oracle_cache[key]


def nparts(case):
    ls = case[2]
    return ls[1] if ls[0] == "np" else len(ls[1][0])


def check_case(case, common, out):
    prog = C.PROGRAMS[case[3]]
    if prog.dask_only or prog.undefined:
        return
    exp = oracle(case)
    cid = K.case_id(case)
    if exp[0] == "err":
        out["notes"][f"no pandas oracle for {case[3]} on {case[0]}"] = exp[1]
        return
    try:
        with warnings.catch_warnings():
            warnings.simplefilter("ignore")
            _, q = K.build(case)
            got = q.compute() if hasattr(q, "compute") else q
    except Exception as ex:
        # the property allows an explicit refusal; a wrong value is the violation
        bump(out, "C02.compute~pandas", None, rule=RULE)
        bump(out, "C02.refusals", f"{case[3]}:{type(ex).__name__}", rule="explicit errors instead of a value (allowed by the property); distinct by program x exception type", tier="R")
        out["notes"][f"refusal {case[3]}"] = f"{type(ex).__name__}: {str(ex)[:90]}"
        return
    nontrivial = nparts(case) >= 2 and _nonempty(exp[1])
    bump(out, "C02.compute~pandas", cid if nontrivial else None, rule=RULE)
    r = D.equiv(got, exp[1], prog.order_free, prog.index_free)
    if r is False:
        replay = {"kind": "call", "module": "vf.props.C02", "func": "replay_case", "args": {"case": list(case)}}
        viol(out, "C02.compute~pandas", cid, f"dask={D.describe(got)} pandas={D.describe(exp[1])}", replay)
    if len(out["samples"]) < 2:
        out["samples"].append({"case": cid, "pandas": D.describe(exp[1])[:160]})


def _nonempty(v):
    try:
        return len(v) > 0
    except Exception:
        return True


def _fix(case):
    ls = case[2]
    if ls[0] == "cuts":
        ls = (ls[0], (tuple(ls[1][0]), tuple(ls[1][1])), ls[2])
    else:
        ls = tuple(ls)
    return (case[0], case[1], ls, case[3])


def replay_case(case):
    from vf.rt.pool import _init

    _init()
    out = {"counts": {}, "violations": [], "samples": [], "errors": [], "notes": {}}
    check_case(_fix(case), {}, out)
    for v in out["violations"]:
        print(v["contract"], "|", v["signature"], "|", v["detail"][:300])
    return bool(out["violations"])


def cut_layouts(n, n2, tier, rng):
    comps = C.compositions(n)
    comps2 = C.compositions(n2)
    lays = []
    for i, c in enumerate(comps):
        c2 = comps2[(i * 7 + 3) % len(comps2)]
        lays.append(("cuts", (tuple(c), tuple(c2)), i % 2 == 0))
    # empty partitions, at the front, in the middle, at the end
    for c in ((0, 2, 4), (3, 0, 3), (2, 4, 0), (1, 0, 0, 5), (0, 6), (2, 0, 2, 0, 2)):
        if sum(c) == n:
            lays.append(("cuts", (c, (2, 0, n2 - 2)), False))
    if tier == "thorough":
        lays += [("cuts", (tuple(c), tuple(comps2[(i * 5 + 1) % len(comps2)])), i % 2 == 1) for i, c in enumerate(comps)]
    return lays


def run(run):
    import random

    rng = random.Random(run.seed)
    hand = [n for n, p in C.PROGRAMS.items() if not p.dask_only]
    d1 = [n for n in C.generated_depth1() if not C.PROGRAMS[n].dask_only]
    n = 6
    n2 = len(K.tabs_for("range", n)["df2"])
    lays = cut_layouts(n, n2, run.tier, rng)
    if run.tier == "quick":
        cases = K.standard_cases(hand, ["range"], lays, n=n)
        cases += K.standard_cases(hand, ["dupint", "str"], lays[::5], n=n)
        cases += K.standard_cases(d1, ["range"], lays[::8], n=n)
        cases += K.standard_cases(hand, ["range", "float"], [("np", 3, True), ("np", 5, False)], n=12)
    else:
        cases = K.standard_cases(hand + d1, ["range", "dupint", "float", "str", "dt"], lays, n=n)
        cases += K.standard_cases(hand + d1 + C.generated_depth2(rng, 1500), ["range", "dupint", "dt"], [("np", 2, True), ("np", 3, True), ("np", 5, False), ("np", 7, True)], n=12)
        two, three, extra = C.predicate_formulas(rng)
        cases += K.standard_cases([f"pred:{f}:id" for f in extra + two[::3]], ["range"], lays[::4], n=n)
    run_cases(run, "vf.props.C02", "check_case", cases, {})
    from vf.contracts.registry import run_property_specs

    run_property_specs(run, "C02")
    run.assume("oracle = pandas 3.0.5 on the concatenated input in the dtypes of the input tables; row order / index labels compared only where the program defines them")
    run.assume("an explicit error (NotImplementedError / ValueError ...) instead of a value is a refusal, allowed by the property, and is counted under C02.refusals")
    run.trust("vf/rt/corpus.py program catalogue (same text runs on pandas and dask-expr), comparator vf/rt/den.py")
