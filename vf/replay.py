"""Re-run one recorded violation against the real code."""
from __future__ import annotations

import importlib


def replay(payload):
    r = payload.get("replay") or {}
    kind = r.get("kind")
    if kind == "pyvc":
        modname, clsname = r["spec"].split(":")
        spec = getattr(importlib.import_module(modname), clsname)()
        if r.get("inputs") is None:
            print("no failing input was found by the verifier; obligation:", r.get("obligation"))
            print("verifier output:", r.get("model"))
            return False
        from vf.pyvc.spec import check_concrete

        ok, why = check_concrete(spec, r["inputs"])
        print("inputs:", r["inputs"], "->", why)
        return not ok
    if kind == "call":
        mod = importlib.import_module(r["module"])
        return bool(getattr(mod, r["func"])(**r.get("args", {})))
    print("nothing to replay for kind", kind)
    return False
