"""Run bookkeeping shared by all property checks: obligations, bounded-tier counts, violations,
known findings, replay files, evidence, exit codes (0 held / 1 violation / 2 undecided / 3 crash)."""
from __future__ import annotations

import hashlib
import json
import os
import re
import sys
import time

VERIF = os.path.dirname(os.path.dirname(os.path.abspath(__file__)))
REPO = os.environ.get("VERIF_REPO", "/repo")
# seeded-change trials (tools/try_seed.sh) redirect their output so they never overwrite the committed evidence
EVIDENCE_DIR = os.environ.get("VERIF_EVIDENCE_DIR") or os.path.join(VERIF, "evidence")
REPLAY_DIR = os.environ.get("VERIF_REPLAY_DIR") or os.path.join(VERIF, "replays")
KNOWN_FINDINGS = os.path.join(VERIF, "known_findings.json")
BASELINE_OBLIGATIONS = os.path.join(VERIF, "vf", "contracts", "baseline_obligations.json")

LEVELS = json.load(open(os.path.join(VERIF, "vf", "levels.json"))) if os.path.exists(os.path.join(VERIF, "vf", "levels.json")) else {}


def load_known_findings():
    if not os.path.exists(KNOWN_FINDINGS):
        return []
    return json.load(open(KNOWN_FINDINGS))["findings"]


class Violation:
    def __init__(self, contract, signature, detail, replay=None, confirmed=True, tier="R"):
        self.contract = contract  # obligation or run-time contract name
        self.signature = signature  # short canonical description of the failing input
        self.detail = detail
        self.replay = replay or {}
        self.confirmed = confirmed  # False: failed obligation without a failing input
        self.tier = tier


class Run:
    def __init__(self, pid, tier="quick", seed=0):
        self.pid = pid
        self.tier = tier
        self.seed = seed
        self.t0 = time.time()
        self.functions = []  # FunctionReport summaries (tier P)
        self.obligations = []  # aggregated obligation dicts
        self.solver_seconds = 0.0
        self.bounded = {}  # contract name -> {"evaluations": n, "nontrivial": set(), "tier": "S|R|X", "rule": str}
        self.samples = []
        self.violations: list[Violation] = []
        self.undecided = []
        self.errors = []
        self.assumptions = []
        self.trusted = []
        self.notes = []
        self.lemmas = []
        self.not_exercised = []

    # ---- tier P
    def add_function_report(self, rep):
        self.functions.append(
            {
                **rep.meta,
                "obligations": len(rep.obligations),
                "discharged": sum(1 for o in rep.obligations if o["status"] == "discharged"),
                "crosscheck_inputs": rep.crosscheck["inputs"],
                "solver_s": round(rep.solver_seconds, 3),
            }
        )
        self.solver_seconds += rep.solver_seconds
        for a in sorted(rep.assumptions):
            self.assume(a)
        for a in getattr(rep.spec, "assumptions", []):
            self.assume(a)
        for o in rep.obligations:
            self.obligations.append(o)
            if o["status"] in ("unknown", "unsupported"):
                self.undecided.append(f"{o['name']}: {o['status']} {o.get('detail', '')[:200]}")
        for e in rep.errors:
            self.errors.append(f"{rep.spec.name()}: {e}")
        for r in rep.refutations:
            sig = "model " + json.dumps(r.get("inputs"), sort_keys=True, default=repr)[:300] if r.get("inputs") is not None else "no-model"
            self.violations.append(
                Violation(
                    r["obligation"],
                    sig,
                    f"{r.get('detail', '')} observed: {r.get('observed', '')}",
                    {"kind": "pyvc", "spec": type(rep.spec).__module__ + ":" + type(rep.spec).__name__, "inputs": r.get("inputs"), "model": r.get("model"), "obligation": r["obligation"]},
                    confirmed=bool(r.get("confirmed")),
                    tier="P",
                )
            )
        for cf in rep.crosscheck["contract_fail"]:
            self.violations.append(
                Violation(
                    rep.spec.name() + "#concrete-contract",
                    "input " + json.dumps(cf["inputs"], sort_keys=True, default=repr)[:300],
                    cf["why"],
                    {"kind": "pyvc", "spec": type(rep.spec).__module__ + ":" + type(rep.spec).__name__, "inputs": cf["inputs"], "obligation": rep.spec.name() + "#concrete-contract"},
                    confirmed=True,
                    tier="S",
                )
            )
        if rep.crosscheck["inputs"]:
            self.count(rep.spec.name() + "#concrete-contract", rep.crosscheck["inputs"], tier="S", rule="contract evaluated concretely on the real function over enumerated small inputs")

    # ---- bounded tiers
    def count(self, contract, n=1, key=None, tier="R", rule=None):
        b = self.bounded.setdefault(contract, {"evaluations": 0, "nontrivial": set(), "tier": tier, "rule": rule or ""})
        b["evaluations"] += n
        if key is not None:
            b["nontrivial"].add(key if isinstance(key, str) else json.dumps(key, sort_keys=True, default=repr))
        if rule and not b["rule"]:
            b["rule"] = rule

    def merge_counts(self, counts):
        """counts: {contract: {"evaluations": n, "keys": [..], "tier":.., "rule":..}} from worker processes."""
        for c, d in counts.items():
            b = self.bounded.setdefault(c, {"evaluations": 0, "nontrivial": set(), "tier": d.get("tier", "R"), "rule": d.get("rule", "")})
            b["evaluations"] += d.get("evaluations", 0)
            b["nontrivial"].update(d.get("keys", []))
            if d.get("rule") and not b["rule"]:
                b["rule"] = d["rule"]

    def sample(self, obj):
        if len(self.samples) < 12:
            self.samples.append(obj)

    def violation(self, contract, signature, detail, replay=None, confirmed=True, tier="R"):
        self.violations.append(Violation(contract, signature, detail, replay, confirmed, tier))

    def assume(self, text):
        if text not in self.assumptions:
            self.assumptions.append(text)

    def trust(self, text):
        if text not in self.trusted:
            self.trusted.append(text)

    # ---- finish
    def finish(self):
        os.makedirs(EVIDENCE_DIR, exist_ok=True)
        os.makedirs(REPLAY_DIR, exist_ok=True)
        known = [k for k in load_known_findings() if k["property"] == self.pid]
        open_known = [k for k in known if k.get("status", "open") == "open"]
        lines = []
        nviol = 0
        seen = set()
        matched_known = set()
        for v in self.violations:
            ident = (v.contract, v.signature)
            if ident in seen:
                continue
            seen.add(ident)
            kf = _match_known(open_known, v)
            if kf is not None:
                matched_known.add(kf["id"])
                continue
            nviol += 1
            if nviol > 25:
                continue
            h = hashlib.sha1(repr(ident).encode()).hexdigest()[:10]
            path = os.path.join(REPLAY_DIR, f"{self.pid}_{h}.json")
            payload = {
                "property": self.pid,
                "contract": v.contract,
                "signature": v.signature,
                "detail": v.detail,
                "tier": v.tier,
                "confirmed_on_real_code": v.confirmed,
                "replay": v.replay,
                "how_to_replay": f"./check {self.pid} --replay {path}",
            }
            with open(path, "w") as f:
                json.dump(payload, f, indent=1, default=repr)
            tail = "" if v.confirmed else " no-failing-input-found"
            lines.append(f"VIOLATION property={self.pid} replay={path}{tail}")
            lines.append(f"  contract: {v.contract}")
            lines.append(f"  input:    {v.signature[:300]}")
            lines.append(f"  detail:   {v.detail[:500]}")
        if os.environ.get("VERIF_DUMP"):
            with open(os.environ["VERIF_DUMP"], "w") as f:
                json.dump([{"contract": v.contract, "signature": v.signature, "detail": v.detail, "known": _match_known(open_known, v) is not None} for v in self.violations], f, indent=1, default=repr)
        for k in open_known:
            # a known finding is announced on every run (it still holds unless its entry says otherwise)
            print(f"KNOWN-FINDING: property={self.pid} {k['what']}" + ("" if k["id"] in matched_known else " (not re-observed by this run's tier)"))
        for ln in lines:
            print(ln)
        nobl = len(self.obligations)
        ndis = sum(1 for o in self.obligations if o["status"] == "discharged")
        evaluations = sum(b["evaluations"] for b in self.bounded.values())
        distinct = sum(len(b["nontrivial"]) for b in self.bounded.values())
        level = LEVELS.get(self.pid, "other")
        zero = [c for c, b in self.bounded.items() if b["evaluations"] == 0] + self.not_exercised
        by_backend = {}
        for o in self.obligations:
            for be in o["backends"]:
                by_backend[be] = by_backend.get(be, 0) + 1
        coverage = {
            "explanation": self.explanation(nobl, ndis, evaluations, distinct),
            "obligations": nobl,
            "discharged": ndis,
            "obligations_by_backend": by_backend,
            "solver_seconds": round(self.solver_seconds, 3),
            "checker_cmd": f"./check {self.pid} --tier {self.tier}",
            "trusted_base": self.trusted,
            "functions_under_contract": self.functions,
            "obligation_list": [{k: v for k, v in o.items() if k != "model"} for o in self.obligations],
            "evaluations": max(evaluations, 0),
            "distinct_nontrivial": distinct,
            "rule": "; ".join(sorted({f"[{b['tier']}] {c}: {b['rule']}" for c, b in self.bounded.items() if b["rule"]}))[:4000],
            "bounded_contracts": {c: {"tier": b["tier"], "evaluations": b["evaluations"], "distinct_nontrivial": len(b["nontrivial"])} for c, b in self.bounded.items()},
            "contracts_not_exercised": zero,
            "samples": self.samples or [o["name"] for o in self.obligations[:5]],
            "undecided": self.undecided,
            "lemmas": self.lemmas,
            "notes": self.notes,
            "known_findings_matched": sorted(matched_known),
        }
        ev = {
            "property_id": self.pid,
            "tier": self.tier,
            "seed": int(self.seed),
            "level": level,
            "coverage": coverage,
            "assumptions": self.assumptions,
            "wall_s": round(time.time() - self.t0, 2),
            "violations": nviol,
        }
        with open(os.path.join(EVIDENCE_DIR, f"{self.pid}.json"), "w") as f:
            json.dump(ev, f, indent=1, default=repr)
        print(
            f"[{self.pid}] tier={self.tier} obligations={ndis}/{nobl} discharged, bounded evaluations={evaluations} "
            f"(distinct non-trivial {distinct}), violations={nviol}, known-findings={len(open_known)}, undecided={len(self.undecided)}, "
            f"errors={len(self.errors)}, wall={ev['wall_s']}s"
        )
        if self.errors:
            for e in self.errors[:10]:
                print("CHECKER-ERROR:", e[:600])
            if not nviol:
                return 3
            # violations that were reported with a replayable input stand on their own; the parts of the run that
            # crashed decide nothing (they are listed above and in the evidence file)
        if nviol:
            return 1
        if nobl + evaluations == 0:
            print("CHECKER-ERROR: zero obligations and zero evaluations (vacuous run)")
            return 3
        if self.undecided:
            for u in self.undecided[:20]:
                print("UNDECIDED:", u[:400])
            return 2
        return 0

    def explanation(self, nobl, ndis, evaluations, distinct):
        parts = []
        if nobl:
            parts.append(
                f"Tier P: {ndis} of {nobl} named obligations generated from the working-tree AST of {len(self.functions)} "
                f"functions were discharged (z3 5.1 / cvc5 on unknown), for all inputs and loop iterations, modulo the listed assumptions."
            )
        if evaluations:
            parts.append(
                f"Bounded tiers (never counted as proved): {evaluations} concrete contract evaluations on the real code, "
                f"{distinct} distinct non-trivial cases; per-contract counts under bounded_contracts."
            )
        return " ".join(parts) or "nothing ran"


def _match_known(open_known, v):
    for k in open_known:
        if re.search(k["contract"], v.contract) and re.search(k["match"], v.signature + " " + v.detail, re.S):
            return k
    return None


def env_seed():
    try:
        return int(os.environ.get("VERIF_SEED", "0"))
    except ValueError:
        return 0
