"""Node-wise contracts on every node of every plan stage: divisions (C06), schema (C07), graph (C09)."""
from __future__ import annotations

import re
import pickle
import warnings

import numpy as np
import pandas as pd

import dask
from dask.core import get_dependencies, istask

from vf.rt import den as D

STAGES = ["logical", "simplified-logical", "tuned-logical", "physical", "simplified-physical", "fused"]


def stage_plans(expr, stages=STAGES):
    from dask_expr._expr import optimize_until

    out = {}
    for st in stages:
        try:
            out[st] = optimize_until(expr, st)
        except Exception as ex:
            out[st] = ex
    return out


def iter_nodes(expr):
    seen = set()
    stack = [expr]
    while stack:
        x = stack.pop()
        if x._name in seen:
            continue
        seen.add(x._name)
        yield x
        stack.extend(x.dependencies())


_parts_cache = {}


def node_parts(node):
    """("ok", [partitions]) of a node, executed unoptimised; memoised by name."""
    if node._name in _parts_cache:
        return _parts_cache[node._name]
    r = D.den_parts(node)
    _parts_cache[node._name] = r
    return r


def clear():
    _parts_cache.clear()
    D.clear_cache()


# ---------------------------------------------------------------------------------------------
# C06
# ---------------------------------------------------------------------------------------------
def check_divisions(node, parts):
    """list of (kind, detail) violations of the truthfulness contract for one node."""
    out = []
    try:
        divs = node.divisions
        npart = node.npartitions
    except Exception as ex:
        return [("divisions-raise", f"{type(ex).__name__}: {str(ex)[:120]}")]
    if len(parts) != npart:
        out.append(("npartitions", f"computed {len(parts)} partitions, reported npartitions={npart}"))
    if len(divs) != npart + 1:
        out.append(("len(divisions)", f"divisions={divs} npartitions={npart}"))
        return out
    known = all(d is not None for d in divs) and len(divs) > 0
    if not known:
        return out
    try:
        ds = list(divs)
        if any(pd.isna(d) for d in ds):
            out.append(("divisions-null", str(divs)))
            return out
        if any(a > b for a, b in zip(ds, ds[1:])):
            out.append(("divisions-unsorted", str(divs)[:200]))
            return out
    except TypeError:
        return out
    for i, p in enumerate(parts[: len(divs) - 1]):
        if not isinstance(p, (pd.DataFrame, pd.Series, pd.Index)):
            continue
        idx = p if isinstance(p, pd.Index) else p.index
        if isinstance(idx, pd.MultiIndex) or len(idx) == 0:
            continue
        try:
            vals = idx[~idx.isna()] if idx.hasnans else idx
            if len(vals) == 0:
                continue
            lo, hi = vals.min(), vals.max()
            last = i == len(parts) - 1
            ok = lo >= divs[i] and (hi <= divs[i + 1] if last else hi < divs[i + 1])
            if not bool(ok):
                out.append(("divisions-untruthful", f"partition {i} holds index values [{lo!r}, {hi!r}] outside [{divs[i]!r}, {divs[i+1]!r}{']' if last else ')'}; divisions={str(divs)[:160]}"))
                break
        except TypeError:
            continue
    return out


# ---------------------------------------------------------------------------------------------
# C07
# ---------------------------------------------------------------------------------------------
def _kind(dt):
    s = str(dt)
    if isinstance(dt, pd.CategoricalDtype):
        return "cat"
    if s in ("string", "str") or s.startswith("string") or s in ("object",) or getattr(dt, "kind", "") in "OUS":
        return "O"
    if s in ("boolean",):
        return "b"
    if s.startswith("Int") or s.startswith("UInt"):
        return "i"
    if s.startswith("Float"):
        return "f"
    k = getattr(dt, "kind", "O")
    return {"u": "i"}.get(k, k)


def _promotes(meta_kind, part_kind, has_na, empty):
    """pandas' own promotion: int/bool -> float/object when missing values appear; empty -> anything object-ish."""
    if meta_kind == part_kind:
        return True
    if meta_kind in "ib" and part_kind in "fO":
        # int/bool columns that acquired missing values anywhere upstream (outer joins, reindexing) stay
        # float/object even where a later filter removed the missing rows from this partition
        return True
    if empty and part_kind == "O":
        return True
    if meta_kind == "f" and part_kind == "O" and empty:
        return True
    return False


def check_meta(node, parts):
    out = []
    try:
        meta = node._meta
    except NotImplementedError:
        return out  # nodes without a schema (_DelayedExpr, ...) are outside the contract
    except Exception as ex:
        return [("meta-raise", f"{type(ex).__name__}: {str(ex)[:120]}")]
    for i, p in enumerate(parts):
        pm = isinstance(meta, (pd.DataFrame, pd.Series, pd.Index))
        pp = isinstance(p, (pd.DataFrame, pd.Series, pd.Index))
        if pm != pp:
            # nodes whose partitions are not pandas objects (ndarray of partition numbers, CombinedOutput of
            # overlapping windows, tuples ...) are planner-internal carriers and outside the schema contract
            if pm and (np.isscalar(p) or p is None):
                out.append(("container", f"partition {i} is {type(p).__name__}, declared {type(meta).__name__}"))
            break
        if not pm:
            break
        if isinstance(meta, pd.DataFrame) != isinstance(p, pd.DataFrame) or isinstance(meta, pd.Index) != isinstance(p, pd.Index):
            out.append(("container", f"partition {i} is {type(p).__name__}, declared {type(meta).__name__}"))
            break
        if isinstance(p, pd.DataFrame):
            if list(map(str, p.columns)) != list(map(str, meta.columns)):
                out.append(("columns", f"partition {i} has columns {list(p.columns)[:12]}, declared {list(meta.columns)[:12]}"))
                break
            for k, c in enumerate(p.columns):
                pk, mk = _kind(p.dtypes.iloc[k]), _kind(meta.dtypes.iloc[k])
                col = p.iloc[:, k]
                if not _promotes(mk, pk, bool(col.isna().any()) if len(col) else False, len(col) == 0) and not (mk == "cat" or pk == "cat"):
                    out.append(("dtype-kind", f"partition {i} column {c!r}: computed {p.dtypes.iloc[k]}, declared {meta.dtypes.iloc[k]}"))
                    break
            if str(p.index.name) != str(meta.index.name):
                out.append(("index-name", f"partition {i} index name {p.index.name!r}, declared {meta.index.name!r}"))
                break
        else:
            if str(p.name) != str(meta.name):
                out.append(("name", f"partition {i} name {p.name!r}, declared {meta.name!r}"))
                break
            pk, mk = _kind(p.dtype), _kind(meta.dtype)
            has_na = bool(pd.isna(p).any()) if len(p) else False
            if not _promotes(mk, pk, has_na, len(p) == 0) and not (mk == "cat" or pk == "cat"):
                out.append(("dtype-kind", f"partition {i}: computed {p.dtype}, declared {meta.dtype}"))
                break
            if isinstance(p, pd.Series) and str(p.index.name) != str(meta.index.name):
                out.append(("index-name", f"partition {i} index name {p.index.name!r}, declared {meta.index.name!r}"))
                break
        if out:
            break
    return out


# ---------------------------------------------------------------------------------------------
# C09
# ---------------------------------------------------------------------------------------------
def _contains_planner_object(x, depth=0):
    from dask_expr import _core
    from dask_expr._collection import FrameBase

    if isinstance(x, (_core.Expr, FrameBase)):
        return type(x).__name__
    if depth > 6:
        return None
    if isinstance(x, (list, tuple, set, frozenset)):
        for y in x:
            r = _contains_planner_object(y, depth + 1)
            if r:
                return r
    elif isinstance(x, dict):
        for k, y in x.items():
            r = _contains_planner_object(y, depth + 1) or _contains_planner_object(k, depth + 1)
            if r:
                return r
    return None


def _task_equal(a, b):
    if a is b:
        return True
    try:
        if type(a) is not type(b):
            return False
        if isinstance(a, (pd.DataFrame, pd.Series, pd.Index)):
            return a.equals(b)
        if isinstance(a, (list, tuple)):
            return len(a) == len(b) and all(_task_equal(x, y) for x, y in zip(a, b))
        if isinstance(a, dict):
            return a.keys() == b.keys() and all(_task_equal(a[k], b[k]) for k in a)
        r = a == b
        return bool(r) if not hasattr(r, "all") else bool(np.all(r))
    except Exception:
        return repr(a) == repr(b)


def check_graph(expr, pickle_check=True):
    """Contract on Expr.__dask_graph__ for an executable (lowered) expression."""
    out = []
    # unambiguity is checked on the list of layers *before* the merge
    owner = {}
    try:
        for node in iter_nodes(expr):
            layer = node._layer()
            for k, v in layer.items():
                if k in owner and owner[k][0] != node._name and not _task_equal(owner[k][1], v):
                    out.append(("key-ambiguous", f"key {str(k)[:90]} is defined by {owner[k][2]} and by {type(node).__name__} with different tasks"))
                owner[k] = (node._name, v, type(node).__name__)
    except Exception as ex:
        return [("layer-raise", f"{type(ex).__name__}: {str(ex)[:160]}")]
    try:
        g = dict(expr.__dask_graph__())
        keys = expr.__dask_keys__()
    except Exception as ex:
        return [("graph-raise", f"{type(ex).__name__}: {str(ex)[:160]}")]
    out.extend(fused_input_bindings(expr))
    flat = []
    stack = [keys]
    while stack:
        k = stack.pop()
        if isinstance(k, list):
            stack.extend(k)
        else:
            flat.append(k)
    if len(flat) != expr.npartitions:
        out.append(("output-keys", f"{len(flat)} output keys, npartitions={expr.npartitions}"))
    for k in flat:
        if k not in g:
            out.append(("output-key-undefined", f"{str(k)[:100]} is reported as output but not defined"))
            break
    # closure + acyclicity
    deps = {}
    for k, v in g.items():
        try:
            deps[k] = get_dependencies(g, task=v)
        except Exception as ex:
            out.append(("dependency-scan", f"{str(k)[:80]}: {ex!r}"[:200]))
            deps[k] = set()
    # references to undefined keys: tuples that look like keys of this graph's namespaces
    names = {k[0] for k in g if isinstance(k, tuple) and k and isinstance(k[0], str)}
    undefined = None
    for k, v in g.items():
        for ref in _key_like_refs(v, names):
            if ref not in g:
                undefined = (k, ref)
                break
        if undefined:
            break
    if undefined:
        out.append(("dangling-reference", f"task {str(undefined[0])[:80]} references undefined key {str(undefined[1])[:80]}"))
    # cycles
    state = {}
    for root in g:
        if root in state:
            continue
        st = [(root, iter(deps.get(root, ())))]
        state[root] = 1
        while st:
            node, it = st[-1]
            nxt = next(it, None)
            if nxt is None:
                state[node] = 2
                st.pop()
            elif state.get(nxt) == 1:
                out.append(("cycle", f"cycle through {str(nxt)[:80]}"))
                st = []
                break
            elif nxt not in state:
                state[nxt] = 1
                st.append((nxt, iter(deps.get(nxt, ()))))
        if out and out[-1][0] == "cycle":
            break
    # planner objects inside tasks
    for k, v in g.items():
        r = _contains_planner_object(v)
        if r:
            out.append(("planner-object-in-task", f"task {str(k)[:80]} embeds a {r}"))
            break
    if pickle_check and not out:
        try:
            with dask.config.set({"dask-expr-no-serialize": True}):
                import cloudpickle

                cloudpickle.dumps(g)
        except Exception as ex:
            out.append(("not-serializable", f"{type(ex).__name__}: {str(ex)[:160]}"))
    return out


def fused_input_bindings(expr):
    """Every fused task (Fused._execute_task, sub-graph, output name, *input keys) binds its k-th input key to the
    placeholder "_k" inside its sub-graph - the positional contract between Fused._task and Fused._execute_task."""
    out = []
    for node in iter_nodes(expr):
        if type(node).__name__ != "Fused":
            continue
        n = node.npartitions
        for i in sorted({0, n // 2, n - 1}):
            try:
                task = node._task(i)
            except Exception as ex:
                out.append(("fused-task-raises", f"{node._name[:50]}._task({i}): {type(ex).__name__}: {str(ex)[:120]}"))
                break
            sub = task[1]
            if task[2] not in sub:
                out.append(("fused-output-undefined", f"{node._name[:50]}._task({i}): output {task[2]!r} is not defined in the sub-graph"))
            for k, key in enumerate(task[3:]):
                bound = sub.get(key, "<missing>")
                same = {f"_{j}" for j, other in enumerate(task[3:]) if other == key}  # one key may be passed at several positions
                if bound not in same:
                    out.append(("fused-input-bound-to-wrong-position", f"{node._name[:50]}._task({i}): input #{k} {str(key)[:70]} is bound to {bound!r} inside the sub-graph, expected '_{k}'"))
                    break
            if out:
                return out
    return out


_TOKEN_NAME = re.compile(r"^.+-[0-9a-f]{32}$")


def _is_key_like(t, names, depth=0):
    """(name, int...) where name is a name space of this graph or LOOKS like an expression name (`<label>-<32 hex digits>`:
    a key of something that should have been merged into the graph), or - for keys built on other keys, as delayed
    objects have them - (key-like tuple, int...)."""
    if not (isinstance(t, tuple) and len(t) >= 2 and all(isinstance(x, (int, np.integer)) and not isinstance(x, bool) for x in t[1:])):
        return False
    head = t[0]
    if isinstance(head, str):
        return head in names or bool(_TOKEN_NAME.match(head))
    return depth < 3 and _is_key_like(head, names, depth + 1)


def _key_like_refs(task, names, depth=0):
    """Yield tuples inside a task that look like keys (name, int...) of one of this graph's name spaces."""
    if depth > 8:
        return
    if isinstance(task, tuple):
        if _is_key_like(task, names):
            yield task
            return
        start = 1 if task and callable(task[0]) else 0
        for x in task[start:]:
            yield from _key_like_refs(x, names, depth + 1)
    elif isinstance(task, list):
        for x in task:
            yield from _key_like_refs(x, names, depth + 1)
    elif isinstance(task, dict):
        # a nested sub-graph (Fused): keys it defines itself are not dangling
        for x in task.values():
            for ref in _key_like_refs(x, names, depth + 1):
                if ref not in task:
                    yield ref
