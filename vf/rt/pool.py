"""Process pool for the bounded tiers: spawn workers (fresh interpreters), chunked case lists."""
from __future__ import annotations

import concurrent.futures as cf
import importlib
import multiprocessing as mp
import os
import sys
import traceback

NPROC = int(os.environ.get("VERIF_NPROC", "16"))


def _init():
    import warnings

    warnings.filterwarnings("ignore")
    import dask

    dask.config.set({"dataframe.shuffle.method": "tasks", "scheduler": "sync"})


def _work(args):
    modname, funcname, chunk, common = args
    _init()
    mod = importlib.import_module(modname)
    fn = getattr(mod, funcname)
    out = {"counts": {}, "violations": [], "samples": [], "errors": [], "notes": {}}
    for case in chunk:
        try:
            fn(case, common, out)
        except KeyboardInterrupt:
            raise
        except BaseException:  # includes cases.HarnessError
            out["errors"].append(f"case {case!r}: " + traceback.format_exc()[-800:])
    return out


def bump(out, contract, key=None, tier="R", rule=None, n=1):
    d = out["counts"].setdefault(contract, {"evaluations": 0, "keys": set(), "tier": tier, "rule": rule or ""})
    d["evaluations"] += n
    if key is not None:
        d["keys"].add(key if isinstance(key, str) else repr(key))


def viol(out, contract, signature, detail, replay=None):
    out["violations"].append({"contract": contract, "signature": signature, "detail": detail, "replay": replay or {}})


def _restrict(cases, pid):
    """Drop corpus programs that are declared for other properties only (Prog.only), e.g. programs whose
    object-dtype columns make per-partition dtypes and string conversion a matter of their own."""
    try:
        from vf.rt import corpus as C
    except Exception:
        return cases
    out = []
    for c in cases:
        name = c[3] if isinstance(c, tuple) and len(c) >= 4 and isinstance(c[3], str) else None
        prog = C.PROGRAMS.get(name) if name else None
        if prog is not None and prog.only is not None and pid not in prog.only:
            continue
        out.append(c)
    return out


def run_cases(run, modname, funcname, cases, common=None, nproc=None, chunk=None):
    """Distribute cases; merge counts / violations / samples into `run`."""
    cases = _restrict(list(cases), run.pid)
    if not cases:
        return
    nproc = min(nproc or NPROC, max(1, len(cases)))
    chunk = chunk or max(1, min(40, len(cases) // (nproc * 3) or 1))
    chunks = [cases[i : i + chunk] for i in range(0, len(cases), chunk)]
    jobs = [(modname, funcname, c, common or {}) for c in chunks]
    results = []
    if nproc == 1:
        results = [_work(j) for j in jobs]
    else:
        ctx = mp.get_context("spawn")
        with cf.ProcessPoolExecutor(max_workers=nproc, mp_context=ctx) as ex:
            for r in ex.map(_work, jobs):
                results.append(r)
    for r in results:
        for c, d in r["counts"].items():
            d["keys"] = list(d["keys"])
        run.merge_counts(r["counts"])
        for v in r["violations"]:
            run.violation(v["contract"], v["signature"], v["detail"], v["replay"])
        for s in r["samples"]:
            run.sample(s)
        for e in r["errors"]:
            run.errors.append(e)
        for k, v in r["notes"].items():
            run.notes.append(f"{k}: {v}") if f"{k}: {v}" not in run.notes and len(run.notes) < 60 else None
