"""Reference evaluator den(e): execute e.lower_completely() unoptimised with the synchronous
scheduler (the property's own definition of "unoptimised"), plus comparison helpers."""
from __future__ import annotations

import threading
import warnings

import numpy as np
import pandas as pd

import dask
from dask_expr import _core
from dask_expr._collection import new_collection

_busy = threading.local()


def busy():
    return getattr(_busy, "on", 0) > 0


class suspended:
    """Re-entrancy guard: while an oracle runs, all installed contracts are suspended."""

    def __enter__(self):
        _busy.on = getattr(_busy, "on", 0) + 1

    def __exit__(self, *a):
        _busy.on -= 1


_den_cache = {}


def clear_cache():
    _den_cache.clear()


def execute_lowered(low):
    """Run an already lowered expression: list of partitions -> final value via postcompute."""
    g = low.__dask_graph__()
    keys = low.__dask_keys__()
    parts = dask.get(g, keys)
    return list(parts)


def finalize(low, parts):
    coll = new_collection(low)
    post, args = coll.__dask_postcompute__()
    return post(list(parts), *args)


def den(e, cache=True):
    """("ok", value) or ("err", description) for expression e, unoptimised."""
    if cache and e._name in _den_cache:
        return _den_cache[e._name]
    with suspended(), warnings.catch_warnings():
        warnings.simplefilter("ignore")
        try:
            low = e.lower_completely()
            parts = execute_lowered(low)
            try:
                val = finalize(low, parts)
            except Exception:
                val = parts
            r = ("ok", val)
        except Exception as ex:
            r = ("err", f"{type(ex).__name__}: {str(ex)[:200]}")
    if cache:
        _den_cache[e._name] = r
    return r


def den_parts(e):
    """Per-partition values of e (unoptimised)."""
    with suspended(), warnings.catch_warnings():
        warnings.simplefilter("ignore")
        try:
            low = e.lower_completely()
            return ("ok", execute_lowered(low))
        except Exception as ex:
            return ("err", f"{type(ex).__name__}: {str(ex)[:200]}")


def run_as_is(e):
    """Execute expression e exactly as given (it must already be executable/lowered)."""
    with suspended(), warnings.catch_warnings():
        warnings.simplefilter("ignore")
        try:
            low = e.lower_completely()  # no-op on physical plans; finishes partially lowered ones
            parts = execute_lowered(low)
            try:
                val = finalize(low, parts)
            except Exception:
                val = parts
            return ("ok", val)
        except Exception as ex:
            return ("err", f"{type(ex).__name__}: {str(ex)[:200]}")


# ---------------------------------------------------------------------------------------------
# comparison
# ---------------------------------------------------------------------------------------------
def _norm_col(s):
    """Normalise dtype kinds to what comparisons need (pyarrow strings -> object, ints with NA -> float)."""
    try:
        if isinstance(s.dtype, pd.CategoricalDtype):
            return s.astype(object)
        k = getattr(s.dtype, "kind", "O")
        if str(s.dtype) in ("string", "str") or str(s.dtype).startswith("string") or k in "OUS":
            return s.astype(object).where(s.notna(), None)
        if k in "iub" or str(s.dtype) in ("Int64", "Int32", "boolean", "Float64"):
            if s.isna().any():
                return s.astype("float64")
            if k == "b" or str(s.dtype) == "boolean":
                return s.astype(bool)
            return s.astype("int64") if k in "iu" or str(s.dtype).startswith("Int") else s.astype("float64")
        if k == "f":
            return s.astype("float64")
    except Exception:
        pass
    return s


def to_frame(v):
    if isinstance(v, pd.DataFrame):
        out = v.copy()
        out.columns = [str(c) for c in out.columns]
        return out
    if isinstance(v, pd.Series):
        return v.to_frame(name="__s__")
    if isinstance(v, pd.Index):
        return pd.DataFrame({"__i__": np.asarray(v, dtype=object)})
    return None


def canon(v, keep_index, sort_rows):
    f = to_frame(v)
    for c in list(f.columns):
        f[c] = _norm_col(f[c])
    if keep_index:
        idx = f.index
        if isinstance(idx, pd.MultiIndex):
            f = f.reset_index()
        else:
            label = "__verif_index__"  # (dask-expr itself uses "__index__" / "__series__" as placeholder column names)
            while label in f.columns:
                label += "_"
            f.insert(0, label, _norm_col(pd.Series(np.asarray(idx), dtype=None if idx.dtype.kind != "O" else object)).values)
            f = f.reset_index(drop=True)
    else:
        f = f.reset_index(drop=True)
    f.columns = [str(c) for c in f.columns]
    if sort_rows and len(f):
        try:
            key = f.apply(lambda col: col.map(lambda x: (x is None or (isinstance(x, float) and np.isnan(x)), str(type(x).__name__), x if not (isinstance(x, float) and np.isnan(x)) else 0)))
            order = sorted(range(len(f)), key=lambda i: tuple(key.iloc[i]))
            f = f.iloc[order].reset_index(drop=True)
        except Exception:
            f = f.sort_values(list(f.columns), kind="stable").reset_index(drop=True)
    return f


def frames_equal(a, b, rtol=1e-9):
    if list(a.columns) != list(b.columns) or len(a) != len(b):
        return False
    try:
        pd.testing.assert_frame_equal(a, b, check_dtype=False, check_exact=False, rtol=rtol, atol=1e-12, check_index_type=False, check_categorical=False, check_column_type=False)
        return True
    except AssertionError:
        return False
    except Exception:
        return None


def scalar_equal(a, b, rtol=1e-9):
    try:
        if a is None or b is None:
            return a is None and b is None
        if isinstance(a, (list, tuple)) and isinstance(b, (list, tuple)):
            return len(a) == len(b) and all(scalar_equal(x, y) for x, y in zip(a, b))
        if isinstance(a, np.ndarray) or isinstance(b, np.ndarray):
            return bool(np.array_equal(np.asarray(a), np.asarray(b), equal_nan=True))
        na, nb = pd.isna(a), pd.isna(b)
        if isinstance(na, (bool, np.bool_)) and (na or nb):
            return bool(na and nb)
        if isinstance(a, (float, np.floating)) or isinstance(b, (float, np.floating)):
            return abs(float(a) - float(b)) <= rtol * max(1.0, abs(float(a)), abs(float(b)))
        return bool(a == b)
    except Exception:
        return None


def equiv(a, b, order_free=False, index_free=False):
    """True / False / None (not comparable).  Exact comparison first; when the program leaves row order
    or index labels undefined the caller allows the weaker multiset-of-rows comparison."""
    pa = isinstance(a, (pd.DataFrame, pd.Series, pd.Index))
    pb = isinstance(b, (pd.DataFrame, pd.Series, pd.Index))
    if pa != pb:
        # a 0-d result may come back as a 1-element container on one side
        return False
    if not pa:
        return scalar_equal(a, b)
    if isinstance(a, pd.DataFrame) != isinstance(b, pd.DataFrame):
        return False
    if isinstance(a, pd.Index) != isinstance(b, pd.Index):
        return False
    if isinstance(a, pd.Series) and str(a.name) != str(b.name):
        return False
    if isinstance(a, pd.Index) and str(a.name) != str(b.name):
        return False
    r = frames_equal(canon(a, True, False), canon(b, True, False))
    if r:
        return True
    if index_free and not order_free:
        r2 = frames_equal(canon(a, False, False), canon(b, False, False))
        if r2:
            return True
    if order_free:
        r2 = frames_equal(canon(a, not index_free, True), canon(b, not index_free, True))
        if r2 is not None:
            return r2
    return r


def describe(v, n=6):
    try:
        if isinstance(v, (pd.DataFrame, pd.Series, pd.Index)):
            return f"{type(v).__name__} shape={getattr(v, 'shape', None)} head={v[:n].to_dict() if not isinstance(v, pd.Index) else list(v[:n])}"[:400]
        return repr(v)[:200]
    except Exception:
        return "<undescribable>"


def equiv_headtail(ref, got, progname, order_free=False, index_free=False):
    """Comparison for programs that take head()/tail() of a sorted frame: when the first / last partition(s)
    hold fewer rows than requested, dask only warns, and pushing head/tail below a sort may then return more
    rows (up to n) than the unoptimized plan: accepted iff the shorter result is a prefix / suffix of the longer."""
    r = equiv(ref, got, order_free, index_free)
    if r is not False:
        return r
    toks = set(progname.replace("|", ":").split(":"))
    sorted_prog = any(w in progname for w in ("sort", "set_index", "nlargest", "nsmallest"))
    if not sorted_prog and progname not in ("head", "tail"):
        # the tolerance exists for head/tail pushed below a SORT only (rule-level callers pass the bare words head / tail)
        return False
    try:
        if len(got) > len(ref) > 0 or (len(ref) == 0 and len(got) > 0):
            if toks & {"tail", "tail2"} or "tail" in progname:
                cut = got[-len(ref):] if isinstance(got, pd.Index) else got.iloc[len(got) - len(ref):]
                if len(ref) == 0 or equiv(ref, cut, order_free, index_free) is not False:
                    return True
            if toks & {"head3", "head4_all", "head_all", "head_k2"} or "head" in progname:
                cut = got[: len(ref)] if isinstance(got, pd.Index) else got.iloc[: len(ref)]
                if len(ref) == 0 or equiv(ref, cut, order_free, index_free) is not False:
                    return True
    except Exception:
        pass
    return False
