"""Case construction shared by the bounded property drivers."""
from __future__ import annotations

from vf.rt import corpus as C

_tab_cache = {}


def tabs_for(dataset, n=12, wide=False):
    key = (dataset, n, wide)
    if key not in _tab_cache:
        _tab_cache[key] = C.tables(n, dataset, wide)
    return _tab_cache[key]


def layout_of(spec):
    kind, s, known = spec
    return C.Layout(kind, s, known)


def applicable(prog, dataset, layout):
    if prog.needs_range and dataset != "range":
        return False
    if prog.needs_known and not layout.known:
        return False
    return True


def build(case, lazy=True, knobs=None, wide=False):
    """case = (dataset, nrows, layout_spec, program_name)"""
    dataset, n, lspec, pname = case[:4]
    prog = C.PROGRAMS[pname]
    lay = layout_of(lspec)
    ctx = C.build_context(tabs_for(dataset, n, wide), lay, lazy=lazy, knobs=knobs)
    return prog, prog.fn(ctx)


def standard_cases(programs, datasets, layouts, n=12):
    out = []
    for ds in datasets:
        for ls in layouts:
            lay = layout_of(ls)
            for p in programs:
                if applicable(C.PROGRAMS[p], ds, lay):
                    out.append((ds, n, ls, p))
    return out


def case_id(case):
    return f"{case[3]}|{case[0]}|n={case[1]}|{case[2][0]}:{case[2][1]}:{'known' if case[2][2] else 'unknown'}"
