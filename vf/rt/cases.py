"""Case construction shared by the bounded property drivers."""
from __future__ import annotations

from vf.rt import corpus as C

_tab_cache = {}


def tabs_for(dataset, n=12, wide=False):
    key = (dataset, n, wide)
    if key not in _tab_cache:
        _tab_cache[key] = C.tables(n, dataset, wide)
    return _tab_cache[key]


class HarnessError(BaseException):
    """Raised for defects of the checking harness itself; deliberately not an Exception subclass so that the
    drivers' `except Exception` (refusals of the program under test) cannot swallow it."""


def layout_of(spec):
    kind, s, known = spec
    if kind == "cuts" and not (len(s) == 2 and all(isinstance(x, (tuple, list)) for x in s)):
        raise HarnessError(f"malformed cuts layout {spec!r}: expected ((pieces of df), (pieces of df2))")
    return C.Layout(kind, s, known)


def applicable(prog, dataset, layout):
    if prog.needs_range and dataset != "range":
        return False
    if prog.needs_known and (not layout.known or (layout.kind == "cuts" and any(0 in part for part in layout.spec))):
        return False  # (an empty piece leaves the divisions of a cut layout unknown)
    return True


def build(case, lazy=True, knobs=None, wide=False):
    """case = (dataset, nrows, layout_spec, program_name)"""
    dataset, n, lspec, pname = case[:4]
    prog = C.PROGRAMS[pname]
    lay = layout_of(lspec)
    try:
        ctx = C.build_context(tabs_for(dataset, n, wide), lay, lazy=lazy, knobs=knobs)
    except Exception as ex:
        # building the INPUTS is the harness's job: a failure here is a checker error, never a refusal of the program
        raise HarnessError(f"cannot build inputs for layout {lspec!r}: {type(ex).__name__}: {ex}") from ex
    return prog, prog.fn(ctx)


def standard_cases(programs, datasets, layouts, n=12):
    out = []
    for ds in datasets:
        for ls in layouts:
            lay = layout_of(ls)
            for p in programs:
                if applicable(C.PROGRAMS[p], ds, lay):
                    out.append((ds, n, ls, p))
    return out


def case_id(case):
    return f"{case[3]}|{case[0]}|n={case[1]}|{case[2][0]}:{case[2][1]}:{'known' if case[2][2] else 'unknown'}"
