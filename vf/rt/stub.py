"""StubFrame: a minimal real `Expr` leaf exposing a given meta / divisions, so that the REAL
repository classes can be instantiated through their real constructors on arbitrary layouts."""
from __future__ import annotations

import pandas as pd

from dask_expr._expr import Expr


class StubFrame(Expr):
    _parameters = ["meta_", "divs", "tag"]
    _defaults = {"tag": 0}

    @property
    def _meta(self):
        return self.operand("meta_")

    def _divisions(self):
        return self.operand("divs")

    def _layer(self):
        # partitions are empty frames: enough for graph-shape checks
        return {(self._name, i): self._meta for i in range(self.npartitions)}


DEFAULT_META = pd.DataFrame({"x": pd.Series([], dtype="int64"), "y": pd.Series([], dtype="float64")})


def stub_frame(npartitions=None, divisions=None, meta=None, tag=0):
    if divisions is None:
        divisions = (None,) * (npartitions + 1)
    return StubFrame(DEFAULT_META if meta is None else meta, tuple(divisions), tag)
