"""The bounded corpus: data tables, layouts (partitionings) and the program catalogue.

Every program is a function of a table context `t`; the same text runs on dask-expr collections
(t.lazy) and on the pandas inputs (the C02 oracle).  Flags say what the program leaves undefined.
"""
from __future__ import annotations

import itertools

import numpy as np
import pandas as pd

# ---------------------------------------------------------------------------------------------
# data
# ---------------------------------------------------------------------------------------------


def tables(n=12, index="range", wide=False):
    """Deterministic small tables. index: range | dupint | float | str | dt"""
    i = np.arange(n)
    df = pd.DataFrame(
        {
            "a": (i * 7 + 3) % 4,
            "b": [float(x) if x % 5 != 1 else np.nan for x in (i * 3 + 1) % 11],
            "c": [["x", "y", "zz", "w"][x % 4] for x in (i * 5) % 7],
            "d": (i % 3 == 0),
            "e": pd.Timestamp("2024-01-01") + pd.to_timedelta((i * 37) % 29, unit="D"),
            "u": i * 2 + 1,
            "f": (i * 5 + 1) % 3,
            "g": (i + 1) // 2,  # non-decreasing, duplicates straddle the partition borders of from_pandas
        }
    )
    m = min(10, max(5, n // 2 + 1))
    j = np.arange(m)
    df2 = pd.DataFrame(
        {
            "a": [0, 1, 2, 2, 5, 7, 7, 3, 1, 9][:m],
            "b": [9.5, 8.0, np.nan, 6.0, 5.0, 4.5, 3.0, 2.0, 1.0, 0.5][:m],
            "w": (j * 3) % 5,
            "c": [["x", "q", "zz"][x % 3] for x in j],
            "u": j * 2 + 1,
        }
    )
    df3 = df.iloc[::-1].reset_index(drop=True).assign(u=lambda x: x.u + 100)
    df4 = df.iloc[: max(3, n // 2)].reset_index(drop=True).assign(u=lambda x: x.u + 200)
    if index == "dupint":
        df.index = pd.Index(np.sort((i * 3) % 5), name="ix")
        df2.index = pd.Index(np.sort((j * 2) % 4), name="ix")
        df3.index = pd.Index(np.sort((i * 3) % 5) + 5, name="ix")
        df4.index = pd.Index(np.sort((np.arange(len(df4)) * 3) % 5) + 4, name="ix")
    elif index == "float":
        df.index = pd.Index(i * 0.5 - 1.0, name="ix")
        df2.index = pd.Index(j * 0.5, name="ix")
        df3.index = pd.Index(i * 0.5 + 10, name="ix")
        df4.index = pd.Index(np.arange(len(df4)) * 0.5 + (n - 1) * 0.5 - 1.0, name="ix")
    elif index == "str":
        df.index = pd.Index([f"k{x:02d}" for x in i], name="ix")
        df2.index = pd.Index([f"k{x:02d}" for x in j * 2], name="ix")
        df3.index = pd.Index([f"m{x:02d}" for x in i], name="ix")
        df4.index = pd.Index([f"k{x:02d}" for x in np.arange(len(df4)) + n - 1], name="ix")
    elif index == "dt":
        df.index = pd.Index(pd.Timestamp("2024-03-01") + pd.to_timedelta(i, unit="D"), name="ix")
        df2.index = pd.Index(pd.Timestamp("2024-03-01") + pd.to_timedelta(j * 2, unit="D"), name="ix")
        df3.index = pd.Index(pd.Timestamp("2024-04-01") + pd.to_timedelta(i, unit="D"), name="ix")
        df4.index = pd.Index(pd.Timestamp("2024-03-01") + pd.to_timedelta(np.arange(len(df4)) + n - 1, unit="D"), name="ix")
    else:
        df3.index = pd.RangeIndex(n, 2 * n)
        df4.index = pd.RangeIndex(n - 1, n - 1 + len(df4))  # first label == last label of df
    arr = pd.DataFrame({"z": i * 1.0 + 100, "k": (i * 3) % 7 + 0.5, "a": (i * 7 + 3) % 4 + 0.0, "m": -1.0 * i}, index=pd.RangeIndex(n))
    if wide:
        arr.insert(2, "zz_unused_arr", i * 2.5)
        for k, fr in enumerate((df, df2, df3, df4)):
            fr.insert(1, f"zz_unused{k}", np.arange(len(fr)) * 1.5)
            fr[f"zz_unused_s{k}"] = "pad"
            fr.insert(0, f"zz_unused_i{k}", np.arange(len(fr))[::-1].copy())
    return {"df": df, "df2": df2, "df3": df3, "df4": df4, "arr": arr}


def compositions(n, max_parts=None, with_empty=False):
    """All ways to cut n rows into consecutive pieces (as lists of piece lengths)."""
    out = []
    for mask in range(2 ** (n - 1)):
        cuts = [k + 1 for k in range(n - 1) if mask >> k & 1]
        bounds = [0] + cuts + [n]
        lens = [b - a for a, b in zip(bounds, bounds[1:])]
        if max_parts is None or len(lens) <= max_parts:
            out.append(lens)
    if with_empty:
        extra = []
        for lens in out[:: max(1, len(out) // 12)]:
            for pos in range(len(lens) + 1):
                extra.append(lens[:pos] + [0] + lens[pos:])
        out = out + extra[:: max(1, len(extra) // 24)]
    return out


class Layout:
    """How each input table is partitioned.  kind: 'np' (from_pandas npartitions) | 'cuts' (explicit pieces)."""

    def __init__(self, kind, spec, known=True):
        self.kind, self.spec, self.known = kind, spec, known

    def key(self):
        return f"{self.kind}:{self.spec}:{'k' if self.known else 'u'}"

    def __repr__(self):
        return self.key()


def make_lazy(pdf, layout, which=0):
    """layout.kind 'np': spec = npartitions for every table;
    'cuts': spec = (cuts for df/df3, cuts for df2) as tuples of piece lengths (0 = empty partition)."""
    import dask_expr as dx

    if which == "arr":
        # array-backed source with unsorted column labels
        k = layout.spec if layout.kind == "np" else len(layout.spec[0])
        return dx.from_array(pdf.values, chunksize=max(1, -(-len(pdf) // max(1, k))), columns=list(pdf.columns))
    if layout.kind == "np":
        out = dx.from_pandas(pdf, npartitions=layout.spec, sort=True)
        if not layout.known:
            out = out.clear_divisions()
        return out
    lens = list(layout.spec[1] if which == 1 else layout.spec[0])
    if which == 2:
        lens = lens[::-1]
    if sum(lens) != len(pdf):
        # rescale the last piece so that the cuts cover this table
        lens = [l for l in lens]
        lens[-1] += len(pdf) - sum(lens)
        if lens[-1] < 0:
            lens = [len(pdf)]
    bounds = np.cumsum([0] + lens)
    pieces = [pdf.iloc[a:b] for a, b in zip(bounds, bounds[1:])]
    divisions = None
    if layout.known and pdf.index.is_monotonic_increasing and all(len(p) for p in pieces):
        firsts = [p.index[0] for p in pieces]
        lasts = [p.index[-1] for p in pieces]
        if all(l < f for l, f in zip(lasts, firsts[1:])):
            divisions = tuple(firsts) + (lasts[-1],)
    return dx.from_map(_identity, pieces, meta=pdf.iloc[:0], divisions=divisions, enforce_metadata=False)


def _identity(x):
    return x


class T:
    """Table context handed to programs."""

    def __init__(self, frames, lazy, knobs=None):
        self.lazy = lazy
        self.knobs = knobs or {}
        for k, v in frames.items():
            setattr(self, k, v)
        if lazy:
            import dask_expr as dx

            self.dd = dx
        else:
            self.dd = pd

    def kw(self, **k):
        """dask-only keyword arguments (dropped on the pandas side)."""
        if not self.lazy:
            return {}
        out = dict(k)
        for name in list(out):
            if name in self.knobs:
                out[name] = self.knobs[name]
        return out

    def mp(self, x, fn, **kw):
        """map_partitions (dask) / plain application (pandas)"""
        return x.map_partitions(fn, **kw) if self.lazy else fn(x)


def build_context(tabs, layout, lazy=True, knobs=None):
    if not lazy:
        return T({k: v.copy() for k, v in tabs.items()}, False, knobs)
    frames = {}
    for n, (k, v) in enumerate(tabs.items()):
        frames[k] = make_lazy(v, layout, "arr" if k == "arr" else n)
    return T(frames, True, knobs)


# ---------------------------------------------------------------------------------------------
# programs
# ---------------------------------------------------------------------------------------------
class Prog:
    def __init__(self, name, fn, order_free=False, index_free=False, tags=(), dask_only=False, needs_known=False, needs_range=False, undefined=False, only=None):
        self.name, self.fn = name, fn
        self.only = set(only) if only else None  # property ids whose checks use this program (None: all)
        self.undefined = undefined  # the program's result is not defined by dask-expr's documented semantics (skipped by value oracles)
        self.order_free = order_free  # row order undefined by the program (shuffles, merges, unique ...)
        self.index_free = index_free  # index labels undefined (reset_index over partitions, merges)
        self.tags = set(tags)
        self.dask_only = dask_only
        self.needs_known = needs_known  # needs known divisions (loc, repartition(divisions=))
        self.needs_range = needs_range  # written against the default integer index


PROGRAMS: dict[str, Prog] = {}


def P(name, fn, **kw):
    assert name not in PROGRAMS, name
    import inspect

    try:
        src = inspect.getsource(fn)
    except Exception:
        src = ""
    if kw.get("tags") and set(kw["tags"]) & {"head", "tail"}:
        kw.setdefault("dask_only", True)  # head(n) reads the first partition(s) only: no layout-free pandas meaning
    if "reset_index" in src or "ignore_index=True" in src:
        kw.setdefault("index_free", True)  # per-partition RangeIndex: labels documented as unspecified
    if ".groupby(" in src and "sort=True" not in src and name not in ("gb_cumsum", "gb_cumcount"):
        kw.setdefault("order_free", True)  # group order is only defined with an explicit sort=True
    PROGRAMS[name] = Prog(name, fn, **kw)


def _shared_filter(t):
    x = t.df[t.df.a > 0]
    return x.b.sum() + x.u.sum()


def _zscore(t):
    return (t.df.b - t.df.b.mean()) / t.df.b.std()


def _two_consumers(t):
    y = t.df.assign(z=t.df.a + 1)
    return t.dd.concat([y[["z", "b"]], y[["u"]]], axis=1)


def _shared_merge(t):
    m = t.df.merge(t.df2, on="a")
    return m.b_x.sum() + m.w.sum()


def _self_merge(t):
    return t.df.merge(t.df[t.df.a > 1][["u", "b"]], on="u")


def _assign_chain(t):
    y = t.df.assign(z=t.df.a * 2)
    y = y.assign(q=y.z + y.u)
    return y[["q", "a"]]


def _diamond(t):
    x = t.df[["a", "b", "u"]]
    l = x[x.a > 0]
    r = x[x.u < 15]
    return l.b.sum() - r.b.sum()


# --- elementwise / projection
P("proj_list", lambda t: t.df[["b", "a"]])
P("proj_scalar", lambda t: t.df["b"])
P("proj_one_list", lambda t: t.df[["a"]])
P("proj_reorder_chain", lambda t: t.df[["u", "b", "a"]][["a", "u"]])
P("proj_repeated", lambda t: t.df[["a", "b"]][["a"]]["a"])
P("drop_cols", lambda t: t.df.drop(columns=["c", "e"]))
P("add_scalar", lambda t: t.df.a + 1)
P("mul_cols", lambda t: t.df.b * t.df.a)
P("fillna", lambda t: t.df.b.fillna(0))
P("abs_frame", lambda t: (t.df[["a", "b"]] - 2).abs())
P("round", lambda t: (t.df.b / 3).round(1))
P("astype", lambda t: t.df.a.astype("float64"))
P("astype_frame", lambda t: t.df[["a", "u"]].astype({"a": "float64"}))
P("assign", lambda t: t.df.assign(z=t.df.a + t.df.u))
P("assign_overwrite", lambda t: t.df.assign(a=t.df.a * 2, z=1)[["a", "z", "b"]])
P("assign_chain", _assign_chain)
P("clip", lambda t: t.df.b.clip(2, 8))
P("str_upper", lambda t: t.df.c.str.upper())
P("str_len", lambda t: t.df.c.str.len())
P("dt_day", lambda t: t.df.e.dt.day)
P("isin", lambda t: t.df.a.isin([1, 2]))
P("isna", lambda t: t.df.b.isna())
P("where", lambda t: t.df[["a", "u"]].where(t.df.a > 1))
P("mask_series", lambda t: t.df.u.mask(t.df.a > 1, -1))
P("rename_cols", lambda t: t.df.rename(columns={"a": "A", "b": "B"})[["B", "u"]])
P("rename_then_filter", lambda t: (lambda y: y[y.A > 1])(t.df.rename(columns={"a": "A"})))
P("add_prefix", lambda t: t.df.add_prefix("p_")[["p_b", "p_a"]])
P("add_suffix", lambda t: t.df.add_suffix("_s")[["u_s"]])
P("to_frame", lambda t: t.df.b.to_frame())
P("neg", lambda t: -t.df.u)
P("mod", lambda t: t.df.a % 2)
P("bool_ops", lambda t: t.df.d & (t.df.a > 1))
P("invert", lambda t: ~t.df.d)
P("replace", lambda t: t.df.a.replace(1, 10))
P("series_rename", lambda t: t.df.b.rename("bb"))
P("series_arith_red", lambda t: t.df.b + t.df.b.sum())
P("frame_minus_mean", lambda t: t.df[["b", "u"]] - t.df[["b", "u"]].mean())
P("zscore", _zscore)
P("between", lambda t: t.df.u.between(3, 9))
P("combine_first", lambda t: t.df.b.combine_first(t.df.u.astype("float64")))
P("map_dict", lambda t: t.df.a.map({0: 10, 1: 11, 2: 12, 3: 13}))
P("map_partitions", lambda t: t.mp(t.df, lambda p: p.assign(z=p.a * 2)))
P("map_partitions_proj", lambda t: t.mp(t.df, lambda p: p.assign(z=p.a * 2))[["z", "u"]])
P("index_series", lambda t: t.df.index.to_series())
P("index_max", lambda t: t.df.u.max() + t.df.a.min())
P("to_ts_like", lambda t: t.df.e + pd.Timedelta(days=1))
# --- filters
P("filter_gt", lambda t: t.df[t.df.a > 1])
P("filter_and", lambda t: t.df[(t.df.a > 0) & (t.df.b < 9)])
P("filter_or", lambda t: t.df[(t.df.a > 2) | (t.df.b < 3)])
P("filter_or_common", lambda t: t.df[((t.df.a > 0) & (t.df.b < 9)) | ((t.df.a > 0) & (t.df.u > 15))])
P("filter_or_common2", lambda t: t.df[((t.df.a > 0) & (t.df.b < 9)) | (t.df.a > 0)])
P("filter_isna", lambda t: t.df[t.df.b.isna()])
P("filter_notna_ne", lambda t: t.df[t.df.b != 4.0])
P("filter_isin", lambda t: t.df[t.df.a.isin([0, 3])])
P("filter_colcol", lambda t: t.df[t.df.a * 5 > t.df.u])
P("filter_vs_reduction", lambda t: t.df[t.df.b > t.df.b.mean()])
P("filter_str", lambda t: t.df[t.df.c == "x"])
P("filter_not", lambda t: t.df[~(t.df.a == 2)])
P("filter_chain", lambda t: t.df[t.df.a > 0][t.df.b < 9])
P("filter_chain2", lambda t: (lambda y: y[y.b < 9])(t.df[t.df.a > 0]))
P("filter_then_proj", lambda t: t.df[t.df.a > 1][["b", "u"]])
P("proj_then_filter", lambda t: (lambda y: y[y.a > 1])(t.df[["a", "b"]]))
P("series_filter", lambda t: t.df.b[t.df.a > 1])
P("filter_after_assign", lambda t: (lambda y: y[y.z > 3])(t.df.assign(z=t.df.a + t.df.f)))
P("filter_after_elemwise", lambda t: (lambda y: y[y.a > 2])(t.df[["a", "u"]] + 1))
P("filter_after_astype", lambda t: (lambda y: y[y.a > 1.5])(t.df[["a", "b"]].astype("float64")))
P("filter_after_reset", lambda t: (lambda y: y[y.a > 1])(t.df.reset_index(drop=True)), index_free=True)
P("filter_after_fillna", lambda t: (lambda y: y[y.b > 1])(t.df.fillna({"b": 0.0})))
P("dropna", lambda t: t.df.dropna())
P("dropna_subset", lambda t: t.df.dropna(subset=["b"])[["a", "u"]])
P("filter_bool_col", lambda t: t.df[t.df.d])
P("filter_dt", lambda t: t.df[t.df.e > pd.Timestamp("2024-01-10")])
# --- reductions
P("sum", lambda t: t.df.b.sum())
P("sum_split_every", lambda t: t.df.u.sum(**t.kw(split_every=2)))
P("max", lambda t: t.df.a.max())
P("mean", lambda t: t.df.b.mean())
P("count", lambda t: t.df.b.count())
P("std", lambda t: t.df.b.std())
P("var_frame", lambda t: t.df[["b", "u"]].var())
P("frame_sum", lambda t: t.df[["a", "b", "u"]].sum())
P("frame_count", lambda t: t.df.count())
P("frame_min", lambda t: t.df[["a", "b", "u"]].min())
P("nunique", lambda t: t.df.a.nunique())
P("any", lambda t: t.df.d.any())
P("all_frame", lambda t: (t.df[["a", "u"]] > 0).all())
P("size", lambda t: t.df.size)
P("len", lambda t: len(t.df))
P("len_filtered", lambda t: len(t.df[t.df.a > 1]))
P("len_proj", lambda t: len(t.df[["a", "b"]]))
P("idxmax", lambda t: t.df.u.idxmax())
P("value_counts", lambda t: t.df.a.value_counts(), order_free=True)
P("unique", lambda t: t.df.a.unique() if t.lazy else pd.Series(t.df.a.unique(), name="a"), order_free=True, index_free=True)
P("drop_duplicates", lambda t: t.df[["a", "f"]].drop_duplicates(), order_free=True, index_free=True)
P("drop_duplicates_subset", lambda t: t.df[["a", "f", "d"]].drop_duplicates(subset=["a", "f"])[["a", "f"]], order_free=True, index_free=True)
P("drop_duplicates_split_out", lambda t: t.df[["a", "f"]].drop_duplicates(**t.kw(split_out=2)), order_free=True, index_free=True)
P("nlargest", lambda t: t.df.u.nlargest(3))
P("nsmallest_frame", lambda t: t.df.nsmallest(3, "u"))
P("nlargest_frame_proj", lambda t: t.df.nlargest(4, "u")[["a", "u"]])
P("cov", lambda t: t.df[["b", "u", "a"]].cov())
P("mode", lambda t: t.df.a.mode(), index_free=True)
P("sum_of_filtered", lambda t: t.df[t.df.a > 1].u.sum())
P("shared_filter", _shared_filter)
P("diamond", _diamond)
P("memory_free_min_max", lambda t: t.df.u.max() - t.df.u.min())
# --- groupby
P("gb_sum", lambda t: t.df.groupby("a").b.sum())
P("gb_sum_sorted", lambda t: t.df.groupby("a", sort=True).b.sum())
P("gb_two_keys_sorted", lambda t: t.df.groupby(["a", "f"], sort=True).u.max())
P("gb_agg_dict", lambda t: t.df.groupby("a").agg({"b": "mean", "u": "max"}))
P("gb_two_keys", lambda t: t.df.groupby(["a", "f"]).u.sum())
P("gb_size", lambda t: t.df.groupby("a").size())
P("gb_count", lambda t: t.df.groupby("a").count())
P("gb_mean", lambda t: t.df.groupby("a").b.mean())
P("gb_first", lambda t: t.df.groupby("a").u.first())
P("gb_last", lambda t: t.df.groupby("a").u.last())
P("gb_std", lambda t: t.df.groupby("f").b.std())
P("gb_var", lambda t: t.df.groupby("f").u.var())
P("gb_nunique", lambda t: t.df.groupby("a").f.nunique())
P("gb_frame_sum", lambda t: t.df.groupby("a")[["b", "u"]].sum())
P("gb_sort_false", lambda t: t.df.groupby("a", sort=False).u.sum(), order_free=True)
P("gb_split_out", lambda t: t.df.groupby("a").u.sum(**t.kw(split_out=2)), order_free=True)
P("gb_split_every", lambda t: t.df.groupby("a").u.sum(**t.kw(split_every=2)))
P("gb_str_key", lambda t: t.df.groupby("c").u.sum())
P("gb_series_key", lambda t: t.df.groupby(t.df.a % 2).u.sum())
P("gb_agg_list", lambda t: t.df.groupby("a").b.agg(["min", "max"]))
P("gb_median", lambda t: t.df.groupby("a").u.median())
P("gb_transform", lambda t: t.df.groupby("a").u.transform("sum"), order_free=True)
P("gb_cumsum", lambda t: t.df.groupby("a").u.cumsum())
P("gb_cumcount", lambda t: t.df.groupby("a").cumcount())
P("gb_apply", lambda t: t.df.groupby("a").u.apply(lambda s: s.sum() * 2, **t.kw(meta=("u", "int64"))), order_free=True, tags={"user_meta"})
P("gb_idxmax", lambda t: t.df.groupby("a").u.idxmax())
P("gb_value_counts", lambda t: t.df.groupby("a").f.value_counts(), order_free=True)
P("gb_min_proj", lambda t: t.df.groupby("a").min()[["u", "b"]])
P("gb_after_filter", lambda t: t.df[t.df.u > 5].groupby("a").b.sum())
P("gb_then_filter", lambda t: (lambda g: g[g > 20])(t.df.groupby("a").u.sum()))
P("gb_cov", lambda t: t.df.groupby("a")[["b", "u"]].cov())
P("gb_cov_nonan", lambda t: t.df.groupby("a")[["f", "u"]].cov())
P("gb_corr_nonan", lambda t: t.df.groupby("f")[["a", "u"]].corr())
P("gb_bool_key", lambda t: t.df.groupby("d").u.mean())
P("gb_prod", lambda t: t.df.groupby("a").f.prod())
# --- merge
for _how in ("inner", "left", "right", "outer"):
    P(f"merge_{_how}", lambda t, h=_how: t.df.merge(t.df2, on="a", how=h), order_free=True, index_free=True)
P("merge_leftsemi", lambda t: t.df.merge(t.df2[["a"]], on="a", how="leftsemi") if t.lazy else t.df[t.df.a.isin(t.df2.a)], order_free=True, index_free=True)
P("merge_suffix_proj", lambda t: t.df.merge(t.df2, on="a")[["b_x", "b_y"]], order_free=True, index_free=True)
P("merge_suffix_one", lambda t: t.df.merge(t.df2, on="a")[["b_y", "w"]], order_free=True, index_free=True)
P("merge_custom_suffix", lambda t: t.df.merge(t.df2, on="a", suffixes=("_l", ""))[["b", "b_l", "a"]], order_free=True, index_free=True)
P("merge_left_right_on", lambda t: t.df.merge(t.df2, left_on="f", right_on="w"), order_free=True, index_free=True)
P("merge_left_right_on_proj", lambda t: t.df.merge(t.df2, left_on="f", right_on="w")[["a_x", "a_y", "f"]], order_free=True, index_free=True)
P("merge_two_keys", lambda t: t.df.merge(t.df2, on=["a", "c"], how="left"), order_free=True, index_free=True)
P("merge_filter_left", lambda t: (lambda m: m[m.f > 0])(t.df.merge(t.df2, on="a")), order_free=True, index_free=True)
P("merge_filter_right", lambda t: (lambda m: m[m.w > 1])(t.df.merge(t.df2, on="a", how="left")), order_free=True, index_free=True)
P("merge_filter_key", lambda t: (lambda m: m[m.a > 1])(t.df.merge(t.df2, on="a", how="left")), order_free=True, index_free=True)
P("merge_filter_suffixed", lambda t: (lambda m: m[m.b_x > 3])(t.df.merge(t.df2, on="a", how="inner")), order_free=True, index_free=True)
P("merge_filter_outer", lambda t: (lambda m: m[m.w > 1])(t.df.merge(t.df2, on="a", how="outer")), order_free=True, index_free=True)
P("merge_filter_right_join", lambda t: (lambda m: m[m.f > 0])(t.df.merge(t.df2, on="a", how="right")), order_free=True, index_free=True)
P("merge_index", lambda t: t.df[["a", "b"]].merge(t.df2[["w"]], left_index=True, right_index=True, how="inner"), order_free=True)
P("merge_index_left", lambda t: t.df[["a", "b"]].merge(t.df2[["w"]], left_index=True, right_index=True, how="left"), order_free=True)
P("merge_left_index_right_on", lambda t: t.df[["a", "u"]].merge(t.df2[["w", "b"]], left_on="a", right_index=True) if False else t.df[["a", "u"]].merge(t.df2[["a", "w"]], on="a"), order_free=True, index_free=True)
P("join_series", lambda t: t.df[["a", "u"]].join(t.df2.w.rename("w2"), how="left"), order_free=True)
P("merge_then_gb", lambda t: t.df.merge(t.df2, on="a").groupby("a").w.sum())
P("merge_proj_inputs", lambda t: t.df[["a", "u"]].merge(t.df2[["a", "w"]], on="a", how="outer"), order_free=True, index_free=True)
P("merge_broadcast", lambda t: t.df.merge(t.df2, on="a", how="left", **t.kw(broadcast=True)), order_free=True, index_free=True)
P("merge_shuffle", lambda t: t.df.merge(t.df2, on="a", how="inner", **t.kw(broadcast=False)), order_free=True, index_free=True)
P("shared_merge", _shared_merge)
P("self_merge", _self_merge, order_free=True, index_free=True)
P("merge_sum", lambda t: t.df.merge(t.df2, on="a", how="left").w.sum())
P("merge_len", lambda t: len(t.df.merge(t.df2, on="a", how="outer")))
# --- concat
P("concat_rows", lambda t: t.dd.concat([t.df, t.df3]))
P("concat_rows_proj", lambda t: t.dd.concat([t.df, t.df3])[["a", "u"]])
P("concat_rows_filter", lambda t: (lambda y: y[y.u > 9])(t.dd.concat([t.df, t.df3])))
P("concat_cols", lambda t: t.dd.concat([t.df.a, t.df.b], axis=1))
P("concat_cols_frames", lambda t: t.dd.concat([t.df[["a", "b"]], t.df[["u"]] * 2], axis=1))
P("concat_outer_cols", lambda t: t.dd.concat([t.df[["a", "b"]], t.df3[["a", "u"]]]))
P("concat_inner", lambda t: t.dd.concat([t.df[["a", "b"]], t.df3[["a", "u"]]], join="inner"))
P("concat_three", lambda t: t.dd.concat([t.df.u, t.df3.u, t.df.u + 1000]))
P("two_consumers", _two_consumers)
P("concat_sum", lambda t: t.dd.concat([t.df, t.df3]).u.sum())
# --- sort / set_index / reset_index
P("sort_unique", lambda t: t.df.sort_values("u", ascending=False), tags={"sort"})
P("sort_nan", lambda t: t.df[["b", "u"]].sort_values("b")[["b"]].reset_index(drop=True), tags={"sort"})
P("sort_two", lambda t: t.df.sort_values(["a", "u"])[["a", "u"]], tags={"sort"})
P("sort_desc", lambda t: t.df.sort_values(["a", "u"], ascending=False).u, tags={"sort"})
P("sort_then_head", lambda t: t.df.sort_values("u", ascending=False).head(3) if not t.lazy else t.df.sort_values("u", ascending=False).head(3, compute=False), tags={"sort"})
P("sort_then_tail", lambda t: t.df.sort_values("u").tail(2) if not t.lazy else t.df.sort_values("u").tail(2, compute=False), tags={"sort"})
P("sort_filter", lambda t: (lambda y: y[y.a > 1])(t.df.sort_values("u", ascending=False)), tags={"sort"})
P("set_index_unique", lambda t: t.df.set_index("u"), tags={"sort"})
P("set_index_dups", lambda t: t.df.set_index("a")[["u"]].reset_index().sort_values(["a", "u"]).reset_index(drop=True), tags={"sort"})
P("set_index_proj", lambda t: t.df.set_index("u")[["a", "b"]], tags={"sort"})
P("set_index_filter", lambda t: (lambda y: y[y.a > 1])(t.df.set_index("u")), tags={"sort"})
P("set_index_loc", lambda t: t.df.set_index("u").loc[5:13], tags={"sort"})
P("set_index_float", lambda t: t.df.dropna(subset=["b"]).set_index("b")[["u"]].reset_index().sort_values(["b", "u"]).reset_index(drop=True), tags={"sort"})
P("set_index_str", lambda t: t.df.set_index("c")[["u"]].reset_index().sort_values(["c", "u"]).reset_index(drop=True), tags={"sort"})
P("set_index_npart", lambda t: t.df.set_index("u", **t.kw(npartitions=2)), tags={"sort"})
P("set_index_sum", lambda t: t.df.set_index("u").b.sum(), tags={"sort"})
P("set_index_index_max", lambda t: t.df.set_index("u").index.max(), tags={"sort"})
P("reset_index", lambda t: t.df.reset_index(), index_free=True)
P("reset_index_drop", lambda t: t.df[["a", "b"]].reset_index(drop=True), index_free=True)
P("reset_index_series", lambda t: t.df.b.reset_index(drop=True), index_free=True)
P("index_arith", lambda t: (t.df.index.to_series() if False else t.df.u).rename("k"))
P("loc_slice", lambda t: t.df.loc[2:7], needs_known=True, needs_range=True)
P("loc_slice_proj", lambda t: t.df.loc[3:9, ["a", "u"]], needs_known=True, needs_range=True)
P("loc_elem", lambda t: t.df.loc[5:5], needs_known=True, needs_range=True)
P("loc_open", lambda t: t.df.loc[6:], needs_known=True, needs_range=True)
P("loc_bool", lambda t: t.df.loc[t.df.a > 1, ["b", "u"]])
# --- cumulative / windows
P("cumsum", lambda t: t.df.u.cumsum())
P("cumsum_nan", lambda t: t.df.b.cumsum())
P("cummax", lambda t: t.df.u.cummax())
P("cummax_frame", lambda t: t.df[["a", "b"]].cummax())
P("cummin", lambda t: t.df.b.cummin())
P("cumprod", lambda t: t.df.f.cumprod())
P("cumsum_frame", lambda t: t.df[["a", "u"]].cumsum())
P("cumsum_then_gb", lambda t: t.df.assign(z=t.df.u.cumsum()).groupby("a").z.max())
P("shift1", lambda t: t.df.u.shift(1), tags={"window"})
P("shift_neg", lambda t: t.df.u.shift(-1), tags={"window"})
P("shift2_frame", lambda t: t.df[["a", "u"]].shift(2), tags={"window"})
P("shift_two_windows", lambda t: t.df.u.shift(1) + t.df.u.shift(2), tags={"window"})
P("diff", lambda t: t.df.u.diff(), tags={"window"})
P("rolling_sum", lambda t: t.df.u.rolling(2).sum(), tags={"window"})
P("rolling_mean3", lambda t: t.df.u.rolling(3).mean(), tags={"window"})
P("rolling_center", lambda t: t.df.u.rolling(3, center=True).max(), tags={"window"})
P("ffill", lambda t: t.df.b.ffill(), tags={"window"})
P("bfill", lambda t: t.df.b.bfill(), tags={"window"})
P("ffill_frame", lambda t: t.df[["b", "u"]].ffill(), tags={"window"})
# --- repartition / partitions / head / tail
P("repartition_fewer", lambda t: t.df.repartition(**t.kw(npartitions=2)) if t.lazy else t.df)
P("repartition_more", lambda t: t.df.repartition(**t.kw(npartitions=5)) if t.lazy else t.df)
P("repartition_one", lambda t: t.df.repartition(**t.kw(npartitions=1)).u.cumsum() if t.lazy else t.df.u.cumsum())
P("repartition_then_sum", lambda t: t.df.repartition(**t.kw(npartitions=2)).u.sum() if t.lazy else t.df.u.sum())
P("repartition_filter", lambda t: (lambda y: y[y.a > 1])(t.df.repartition(**t.kw(npartitions=2)) if t.lazy else t.df))
P("repartition_proj", lambda t: (t.df.repartition(**t.kw(npartitions=4)) if t.lazy else t.df)[["a", "u"]])
P("repartition_divs", lambda t: t.df.repartition(divisions=[0, 5, len(t.df) - 1])[["a", "u"]] if t.lazy else t.df[["a", "u"]], needs_known=True, needs_range=True)
P("repartition_divs_force", lambda t: t.df.repartition(divisions=[-2, 3, 8, len(t.df) + 5], force=True).u if t.lazy else t.df.u, needs_known=True, needs_range=True)
P("head", lambda t: t.df.head(3, compute=False) if t.lazy else t.df.head(3), tags={"head"})
P("head_elemwise", lambda t: (t.df.u + 1).head(2, compute=False) if t.lazy else (t.df.u + 1).head(2), tags={"head"})
P("head_filter_npall", lambda t: t.df[t.df.a > 1].head(3, npartitions=-1, compute=False) if t.lazy else t.df[t.df.a > 1].head(3), tags={"head"})
P("head_head_npall_few", lambda t: t.df[t.df.u >= 17].head(4, npartitions=-1, compute=False).head(3, compute=False) if t.lazy else t.df[t.df.u >= 17].head(4).head(3), tags={"head"})
P("head_head_np2", lambda t: t.df.head(7, npartitions=2, compute=False).head(6, compute=False) if t.lazy else t.df.head(7).head(6), tags={"head"}, dask_only=True)
P("tail_tail", lambda t: t.df.tail(4, compute=False).tail(2, compute=False) if t.lazy else t.df.tail(4).tail(2), tags={"head"}, dask_only=True)
P("head_bcast", lambda t: (t.df.u + t.df.u.sum()).head(2, compute=False) if t.lazy else (t.df.u + t.df.u.sum()).head(2), tags={"head"})
P("tail_elemwise", lambda t: (t.df.u * 2).tail(2, compute=False) if t.lazy else (t.df.u * 2).tail(2), tags={"tail"})
# --- layouts with values sitting exactly on partition borders
P("concat_touching", lambda t: t.dd.concat([t.df, t.df4]))
P("concat_touching_loc", lambda t: t.dd.concat([t.df[["a", "u"]], t.df4[["a", "u"]]]).loc[len(t.df) - 1 : len(t.df)], needs_known=True, needs_range=True)
P("concat_touching_sum", lambda t: t.dd.concat([t.df, t.df4]).u.sum())
P("set_index_presorted_dups", lambda t: t.df.set_index("g")[["u"]].reset_index().sort_values(["g", "u"]).reset_index(drop=True), tags={"sort"})
P("set_index_presorted_dups_raw", lambda t: t.df.set_index("g")[["u", "a"]], tags={"sort"}, order_free=True)
P("set_index_presorted_loc", lambda t: t.df.set_index("g").loc[2:2][["u"]], tags={"sort"}, order_free=True)
P("sort_presorted_dups", lambda t: t.df.sort_values(["g", "u"], ascending=[True, False])[["g", "u"]], tags={"sort"})
P("sort_presorted_cumsum", lambda t: t.df.sort_values(["g", "u"], ascending=[True, False]).u.cumsum(), tags={"sort"})
# --- broadcast joins with the small frame on the left, colliding column names
P("merge_small_left_inner", lambda t: t.df2.merge(t.df, on="a", how="inner", **t.kw(broadcast=True)), order_free=True, index_free=True)
P("merge_small_left_right", lambda t: t.df2.merge(t.df, on="a", how="right", **t.kw(broadcast=True)), order_free=True, index_free=True)
P("merge_small_left_cols", lambda t: t.df2.merge(t.df, on="a", how="inner", **t.kw(broadcast=True))[["b_x", "b_y", "c_x", "w"]], order_free=True, index_free=True)
P("concat_reordered_cols", lambda t: t.dd.concat([t.df[["a", "b", "u"]], t.df3[["u", "a"]], t.df4[["b", "a", "u"]]]))
P("concat_narrow_first", lambda t: t.dd.concat([t.df[["u"]], t.df3[["a", "u", "b"]]]))
# --- array-backed source with unsorted labels; chained merges with literal suffixed names
P("arr_diff", lambda t: t.arr.z - t.arr.a)
P("arr_two_cols", lambda t: t.arr[["a", "z"]])
P("arr_shared", lambda t: (t.arr.z * 2).sum() + t.arr.k.sum())
P("arr_gb", lambda t: t.arr.groupby("a").m.sum())
P("arr_filter_proj", lambda t: t.arr[t.arr.k > 2][["m", "z"]])
P("arr_assign", lambda t: t.arr.assign(q=t.arr.z + t.arr.m)[["q", "k"]])
P("merge_chain_literal_suffix", lambda t: t.df.merge(t.df2.merge(t.df2.rename(columns={"w": "w2"}), on="a")[["a", "b_x", "w"]], on="a")[["b_x", "f"]], order_free=True, index_free=True)
P("merge_chain_literal_suffix_right", lambda t: t.df2.merge(t.df2.rename(columns={"w": "w2"}), on="a")[["a", "b_y", "w"]].merge(t.df, on="a")[["b_y", "f", "w"]], order_free=True, index_free=True)
P("merge_chain_three", lambda t: t.df[["a", "u"]].merge(t.df2[["a", "w"]], on="a").merge(t.df4[["a", "f"]], on="a")[["u", "f"]], order_free=True, index_free=True)
P("merge_key_suffixed_proj", lambda t: t.df.merge(t.df2, left_on="f", right_on="w")[["a_y", "u_x"]], order_free=True, index_free=True)
P("merge_shared_three_consumers", lambda t: (lambda m: m.b_x.sum() + m.w.max() + m.u_y.min())(t.df.merge(t.df2, on="a")))
P("sort_ignore_index", lambda t: t.df.sort_values("u", ascending=False, ignore_index=True), tags={"sort"}, index_free=True)
P("sort_ignore_index_two", lambda t: t.df.sort_values(["a", "u"], ignore_index=True)[["a", "u"]], tags={"sort"}, index_free=True)
# --- hash shuffles (layout is a function of the key values only)
P("shuffle_col", lambda t: t.df.shuffle("a") if t.lazy else t.df, order_free=True, tags={"shuffle"})
P("shuffle_more", lambda t: t.df.shuffle("a", npartitions=7) if t.lazy else t.df, order_free=True, tags={"shuffle"})
P("shuffle_staged", lambda t: t.df.shuffle("u", npartitions=5, max_branch=2) if t.lazy else t.df, order_free=True, tags={"shuffle"})
P("shuffle_staged_same", lambda t: t.df.repartition(npartitions=5).shuffle("u", max_branch=2) if t.lazy else t.df, order_free=True, tags={"shuffle"})
P("shuffle_index", lambda t: t.df.shuffle(on_index=True, npartitions=4) if t.lazy else t.df, order_free=True, tags={"shuffle"})
P("shuffle_two_cols", lambda t: t.df.shuffle(["a", "f"], npartitions=3)[["a", "f", "u"]] if t.lazy else t.df[["a", "f", "u"]], order_free=True, tags={"shuffle"})
P("shuffle_str", lambda t: t.df.shuffle("c", npartitions=4, ignore_index=True) if t.lazy else t.df, order_free=True, index_free=True, tags={"shuffle"})
P("shuffle_then_gb", lambda t: (t.df.shuffle("a") if t.lazy else t.df).groupby("a").u.sum(), tags={"shuffle"})
P("shuffle_disk", lambda t: t.df.shuffle("a", npartitions=3, shuffle_method="disk") if t.lazy else t.df, order_free=True, tags={"shuffle", "disk"})
# --- fusion shapes: broadcast operands, nested single-partition groups, offsets
P("fuse_bcast_chain", lambda t: t.df.u + ((t.df.u.sum() + 1) * 2 + t.df.f.max()))
P("fuse_loc_plus", lambda t: t.df.loc[6:9].u + 1, needs_known=True, needs_range=True)
P("fuse_loc_list_plus", lambda t: t.df.loc[9:9].u * 2, needs_known=True, needs_range=True)
P("fuse_scalar_left", lambda t: t.df.u.sum() + t.df.u)
P("fuse_two_reductions", lambda t: (t.df.u - t.df.u.min()) / (t.df.u.max() - t.df.u.min()))
P("fuse_merge_single", lambda t: t.df.merge(t.df2.repartition(**t.kw(npartitions=1)) if t.lazy else t.df2, on="a")["w"] * 2 + 1, order_free=True, index_free=True)
P("fuse_shared_blockwise", lambda t: (lambda d: t.dd.concat([d * 2 + 1, d.repartition(**t.kw(npartitions=2)) if t.lazy else d]))((t.df.u + 1) * 3))
# --- mixed pipelines
P("pipe_filter_gb_sort", lambda t: t.df[t.df.u > 3].groupby("a").u.sum().reset_index().sort_values("u").reset_index(drop=True), tags={"sort"})
P("pipe_assign_merge_gb", lambda t: t.df.assign(z=t.df.u * 2).merge(t.df2[["a", "w"]], on="a").groupby("w").z.sum())
P("pipe_concat_gb", lambda t: t.dd.concat([t.df, t.df3]).groupby("a").u.mean())
P("pipe_fillna_cumsum", lambda t: t.df.b.fillna(1.0).cumsum())
P("pipe_merge_sort", lambda t: t.df.merge(t.df2, on="a")[["u_x", "w"]].sort_values(["u_x", "w"]).reset_index(drop=True), tags={"sort"})
P("pipe_gb_merge", lambda t: t.df.groupby("a").u.sum().reset_index().merge(t.df2[["a", "w"]], on="a"), order_free=True, index_free=True)
P("pipe_unique_len", lambda t: len(t.df.a.unique()))
P("pipe_dropdup_sum", lambda t: t.df[["a", "f"]].drop_duplicates().a.sum())
P("pipe_isin_series", lambda t: t.df[t.df.a.isin([0, 2])].groupby("f").u.max())
P("pipe_str_filter_gb", lambda t: t.df[t.df.c.str.len() > 1].groupby("c").u.sum())
P("pipe_where_sum", lambda t: t.df.u.where(t.df.a > 1, 0).sum())
P("pipe_two_filters_concat", lambda t: t.dd.concat([t.df[t.df.a > 2], t.df[t.df.a < 1]]))
P("pipe_proj_merge_filter", lambda t: (lambda m: m[(m.u_x > 3) & (m.w < 4)])(t.df[["a", "u", "b"]].merge(t.df2[["a", "w", "u"]], on="a")), order_free=True, index_free=True)
P("pipe_astype_gb", lambda t: t.df.astype({"a": "float64"}).groupby("a").u.sum())
P("pipe_rename_merge", lambda t: t.df.rename(columns={"a": "k"}).merge(t.df2.rename(columns={"a": "k"}), on="k")[["k", "w", "f"]], order_free=True, index_free=True)
P("pipe_sort_cumsum", lambda t: t.df.sort_values("u", ascending=False).u.cumsum(), tags={"sort"})
P("pipe_setindex_shift", lambda t: t.df.set_index("u").a.shift(1), tags={"sort", "window"})
P("pipe_nunique_frame", lambda t: t.df[["a", "f"]].nunique())
P("pipe_mean_frame_filter", lambda t: t.df[t.df.d][["b", "u"]].mean())


# filters whose predicate is NOT row-wise (cumulative / shifted values, reductions of a filtered frame), and
# filters on columns whose values the operation below them changes: moving such a filter changes what it selects
P("nrw_filter_filter_cumsum", lambda t: (lambda d2: d2[d2.u.cumsum() > 20])(t.df[t.df.a > 0]), tags={"nonrowwise"})
P("nrw_filter_filter_shift", lambda t: (lambda d2: d2[d2.u.shift(1) > 5])(t.df[t.df.a > 0]), tags={"nonrowwise", "window"})
P("nrw_filter_filter_mean", lambda t: (lambda d2: d2[d2.u > d2.u.mean()])(t.df[t.df.a > 0]), tags={"nonrowwise"})
P("nrw_sort_cumsum", lambda t: (lambda s_: s_[s_.u.cumsum() > 30])(t.df.assign(k=(t.df.u * 7) % 23).sort_values("k")), tags={"nonrowwise", "sort"})  # k: unique, no nulls, not monotone
P("nrw_sort_shift", lambda t: (lambda s_: s_[s_.u.shift(1) > 9])(t.df.sort_values("u", ascending=False)), tags={"nonrowwise", "sort", "window"})
P("nrw_setindex_cumsum", lambda t: (lambda x: x[x.a.cumsum() > 6])(t.df.assign(k=(t.df.u * 7) % 23).set_index("k") if t.lazy else t.df.assign(k=(t.df.u * 7) % 23).set_index("k").sort_index(kind="stable")), tags={"nonrowwise", "sort"})
P("nrw_repart_cumsum", lambda t: (lambda x: x[x.u.cumsum() > 20])(t.df.repartition(npartitions=2) if t.lazy else t.df), tags={"nonrowwise"})
P("nrw_assign_cumsum", lambda t: (lambda x: x[x.z.cumsum() > 20])(t.df.assign(z=t.df.u + 1)), tags={"nonrowwise"})
P("nrw_dropna_cumsum", lambda t: (lambda x: x[x.u.cumsum() > 20])(t.df.dropna(subset=["b"])), tags={"nonrowwise"})
P("nrw_proj_filter_cumsum_sum", lambda t: (lambda d2: d2[d2.u.cumsum() > 20].u.sum())(t.df[t.df.a > 0][["u", "a"]]), tags={"nonrowwise"})
P("vc_astype_trunc_gt", lambda t: (lambda x: x[x.h > 3])(t.df.assign(h=t.df.u * 0.45).astype({"h": "int64"})), tags={"valuechange"})
P("vc_astype_trunc_eq", lambda t: (lambda x: x[x.h == 2])(t.df.assign(h=t.df.u * 0.45).astype({"h": "int64"})), tags={"valuechange"})
P("vc_astype_series_trunc", lambda t: (lambda s_: s_[s_ > 3])((t.df.u * 0.45).astype("int64")), tags={"valuechange"})
P("vc_astype_bool", lambda t: (lambda x: x[x.a == 1])(t.df.astype({"a": "bool"})), tags={"valuechange"})
P("vc_astype_widen", lambda t: (lambda x: x[x.a > 1.5])(t.df.astype({"a": "float64"})), tags={"valuechange"})
P("vc_astype_str", lambda t: (lambda x: x[x.a == "1"])(t.df.astype({"a": "string"})), tags={"valuechange"})
P("vc_reset_index_mixed", lambda t: (lambda x: x[(x[x.columns[0]] != x[x.columns[0]].min()) & (x.a > 0)])(t.df.reset_index()), tags={"valuechange"})
P("vc_reset_index_idx_only", lambda t: (lambda x: x[x[x.columns[0]] != x[x.columns[0]].min()])(t.df.reset_index()), tags={"valuechange"})
P("vc_set_index_series_filter", lambda t: (lambda x: x[x.a > 0])(t.df.set_index(100 - t.df.u) if t.lazy else t.df.set_index(100 - t.df.u).sort_index(kind="stable")), tags={"valuechange", "sort"})
P("vc_set_index_series_filter_idx", lambda t: (lambda x: x[x.index > 85])(t.df.set_index(100 - t.df.u) if t.lazy else t.df.set_index(100 - t.df.u).sort_index(kind="stable")), tags={"valuechange", "sort"})
P("vc_toframe_filter", lambda t: (lambda x: x[x.u > 5])(t.df.u.to_frame()), tags={"valuechange"})
P("vc_rename_series_filter", lambda t: (lambda s_: s_[s_ > 5])(t.df.u.rename("v")), tags={"valuechange"})


# operations whose operands have different rows (aligned by index) or include a broadcast reduction: len() / divisions
P("align_filtered_plus_unfiltered", lambda t: t.df.u[t.df.u > 5] + t.df.u, tags={"align"}, needs_range=True)  # duplicate labels: alignment is a per-partition product
P("align_bcast_minus_frame", lambda t: t.df[["b", "f"]].astype("float64").max() - t.df[["b", "f"]].astype("float64"), tags={"align"})
P("align_series_bcast_minus", lambda t: t.df.u.mean() - t.df.u, tags={"align"})
P("align_two_filters", lambda t: t.df.u[t.df.a > 0] * t.df.f[t.df.u > 9], tags={"align"}, needs_range=True)


# found by reading sub-agent reports on the unchanged tree (each was a genuine defect, repaired or recorded)
P("explode_select_exploded", lambda t: (t.df[["a", "u"]].assign(L=t.df.u.map(lambda v: [v, v + 1], meta=("u", object))) if t.lazy else t.df[["a", "u"]].assign(L=t.df.u.map(lambda v: [v, v + 1]))).explode("L")["L"], tags={"user_meta"}, only={"C01", "C04", "C02"})  # object column of lists: value checks only
P("explode_select_other", lambda t: (t.df[["a", "u"]].assign(L=t.df.u.map(lambda v: [v, v + 1], meta=("u", object))) if t.lazy else t.df[["a", "u"]].assign(L=t.df.u.map(lambda v: [v, v + 1]))).explode("L")[["a"]], tags={"user_meta"}, only={"C01", "C04", "C02"})
P("series_unnamed_drop_duplicates", lambda t: t.df.a.rename(None).drop_duplicates(), order_free=True, index_free=True)
P("series_unnamed_unique", lambda t: t.df.a.rename(None).unique() if t.lazy else pd.Series(t.df.a.rename(None).unique()), order_free=True, index_free=True)
P("sort_presorted_ignore_index", lambda t: t.df.sort_values("u", ignore_index=True), tags={"sort"})
P("sort_ignore_index_cols", lambda t: t.df.assign(k=(t.df.u * 7) % 23).sort_values("k", ignore_index=True)[["u", "k"]], tags={"sort"})
P("sort_ignore_index_head", lambda t: t.df.assign(k=(t.df.u * 7) % 23).sort_values("k", ignore_index=True).head(3, compute=False) if t.lazy else t.df.assign(k=(t.df.u * 7) % 23).sort_values("k", ignore_index=True).head(3), tags={"sort", "head"})
P("sort_ignore_index_tail", lambda t: t.df.assign(k=(t.df.u * 7) % 23).sort_values("k", ignore_index=True).tail(3, compute=False) if t.lazy else t.df.assign(k=(t.df.u * 7) % 23).sort_values("k", ignore_index=True).tail(3), tags={"sort", "head"})
P("sample_half", lambda t: t.df.sample(frac=0.5, random_state=7), dask_only=True)
P("sample_half_cols", lambda t: t.df.sample(frac=0.5, random_state=7)[["u"]], dask_only=True)
P("random_split_first", lambda t: t.df.random_split([0.5, 0.5], random_state=3)[0] if t.lazy else t.df, dask_only=True)
P("shuffle_ignore_index_drop_duplicates", lambda t: t.df[["a", "f"]].shuffle("a", ignore_index=True).drop_duplicates() if t.lazy else t.df[["a", "f"]].drop_duplicates(), order_free=True, index_free=True)


# two different partition selections of ONE source combined by index (co-alignment must look at the selection)
P("sel_concat_axis1_two_selections", lambda t: t.dd.concat([t.df.partitions[[0, 1]][["u"]], t.df.partitions[[1, 2]][["f"]]], axis=1) if t.lazy else t.df, dask_only=True, needs_known=True, needs_range=True, tags={"parts"}, only={"C01", "C04", "C06", "C07", "C09", "C14"})
P("sel_add_two_selections", lambda t: t.df.partitions[[0, 1]].u + t.df.partitions[[1, 2]].f if t.lazy else t.df.u, dask_only=True, needs_known=True, tags={"parts"}, only={"C01", "C04", "C06", "C07", "C09", "C14"})
P("sel_assign_other_selection", lambda t: t.df.partitions[[0, 1]][["a"]].assign(z=t.df.partitions[[1, 2]].u) if t.lazy else t.df, dask_only=True, needs_known=True, tags={"parts"}, only={"C01", "C04", "C06", "C07", "C09", "C14"})
# row counts as RESULTS (Len / Size rewrites are part of what optimization may change)
P("len_bcast_minus_frame", lambda t: (t.df[["b", "f"]].astype("float64").max() - t.df[["b", "f"]].astype("float64")).shape[0])
P("len_series_bcast_minus", lambda t: (t.df.u.mean() - t.df.u).size)
P("len_filtered_plus_unfiltered", lambda t: (t.df.u[t.df.u > 5] + t.df.u).shape[0], needs_range=True)
P("len_after_filter_assign", lambda t: t.df[t.df.a > 0].assign(z=1).shape[0])
P("size_frame_elemwise", lambda t: (t.df[["u", "f"]] * 2).size)
P("len_concat_parts", lambda t: t.dd.concat([t.df, t.df3]).shape[0])
# tail / len / size (as LAZY scalars) of an elementwise operation E2 whose row operand E1 itself combines operands with
# DIFFERENT rows (an unfiltered column with a filtered one): the "same rows" helper has to stop at E1 (round 4, seed C19_7;
# see also head_of_op_on_misaligned_op / tail_of_fillna_on_misaligned_assign / the eager len_of_op_on_misaligned_op below)
P("tail_frame_op_of_align", lambda t: ((t.df[["u", "f"]] + t.df[t.df.a > 1][["u", "f"]]) - 1).tail(3, compute=False) if t.lazy else ((t.df[["u", "f"]] + t.df[t.df.a > 1][["u", "f"]]) - 1).tail(3), tags={"head", "align"}, needs_range=True)
P("len_op_of_align", lambda t: ((t.df[["u", "f"]] + t.df[t.df.a > 1][["u", "f"]]) - 1).shape[0], tags={"align"}, needs_range=True)
P("size_op_of_align", lambda t: ((t.df.u + t.df.f[t.df.f > 0]) * 2).size, tags={"align"}, needs_range=True)
# a column selection above assign(z=<series of another, not co-aligned source>) that keeps several of the frame's columns in
# another order than the frame's: the pruned frame below the alignment must be projected in a deterministic order.
# Tag "xprocess": always part of C19's across-interpreter comparison of plan names (round 4, seed C19_8)
P("assign_align_select_reordered", lambda t: t.df.assign(z=t.df2.w)[["u", "c", "a", "z"]], needs_known=True, needs_range=True, tags={"align", "xprocess"})
P("assign_align_select_new_in_the_middle", lambda t: t.df.assign(z=t.df2.w)[["f", "z", "c", "a"]], needs_known=True, needs_range=True, tags={"align", "xprocess"})


# further interplay programs (second seeding round)
P("proj_shared_scalar_and_list", lambda t: (lambda x: x[x["b"] > 3][["b"]])(t.df[["a", "b", "u"]].fillna(0)))
P("proj_shared_list_then_scalar_filter", lambda t: (lambda x: x[["u"]][x["u"] > 6])(t.df[["a", "b", "u"]].shift(1)), tags={"window"})
P("proj_shared_scalar_and_list_where", lambda t: (lambda x: x[x["u"] > 5][["u"]])(t.df[["a", "u"]].where(t.df[["a", "u"]] > 2, 0)))
P("proj_shared_scalar_and_list_shift", lambda t: (lambda x: x[x["u"] > 3][["u"]])(t.df.assign(u=t.df.u.shift(1))), tags={"window"})
P("intlabels_reset_index_select_index", lambda t: t.df[["a", "u"]].rename(columns={"u": 0, "a": 1}).set_index(0)[1].reset_index()[0] if t.lazy else t.df[["a", "u"]].rename(columns={"u": 0, "a": 1}).set_index(0).sort_index(kind="stable")[1].reset_index()[0], index_free=True, tags={"sort"})
P("intlabels_reset_index_select_value", lambda t: t.df[["a", "u"]].rename(columns={"u": 0, "a": 1}).set_index(0)[1].reset_index()[1] if t.lazy else t.df[["a", "u"]].rename(columns={"u": 0, "a": 1}).set_index(0).sort_index(kind="stable")[1].reset_index()[1], index_free=True, tags={"sort"})
P("assign_scalar_shared", lambda t: t.dd.concat([t.df.assign(flag=1), t.df]))
P("assign_scalar_two_reductions", lambda t: t.df.assign(flag=1).u.sum() + t.df.u.max())
P("random_split_rs_instance", lambda t: t.df.random_split([0.5, 0.5], random_state=np.random.RandomState(5))[1] if t.lazy else t.df, dask_only=True, only={"C05"})  # a RandomState INSTANCE is consumed when an expression is (re)built: only repeatability of one collection is defined
P("loc_list_unsorted", lambda t: t.df.loc[[5, 1, 9]], needs_known=True, needs_range=True, order_free=True)
P("loc_list_unsorted_same_partition", lambda t: t.df.loc[[3, 1, 2, 10]], needs_known=True, needs_range=True, order_free=True)
P("loc_slice_no_columns", lambda t: t.df.loc[2:9, []], needs_known=True, needs_range=True)
P("loc_slice_one_column_list", lambda t: t.df.loc[2:9, ["u"]], needs_known=True, needs_range=True)
P("tail_tail_outer_larger", lambda t: t.df.tail(2, compute=False).tail(5, compute=False) if t.lazy else t.df.tail(2).tail(5), tags={"head"}, dask_only=True)
P("tail_elemwise_tail_outer_larger", lambda t: (t.df.tail(2, compute=False).u + 1).tail(4, compute=False) if t.lazy else (t.df.tail(2).u + 1).tail(4), tags={"head"}, dask_only=True)
P("head_head_outer_larger", lambda t: t.df.head(2, compute=False).head(5, compute=False) if t.lazy else t.df.head(2).head(5), tags={"head"}, dask_only=True)
P("merge_right_bcast_left_diff_keys", lambda t: t.df2[["a", "w"]].rename(columns={"a": "ka"}).merge(t.df[["a", "u"]], left_on="ka", right_on="a", how="right", broadcast=True) if t.lazy else t.df2[["a", "w"]].rename(columns={"a": "ka"}).merge(t.df[["a", "u"]], left_on="ka", right_on="a", how="right"), order_free=True, index_free=True)
P("value_counts_normalize_nulls", lambda t: t.df.b.value_counts(normalize=True), order_free=True)
P("value_counts_normalize_keepna", lambda t: t.df.b.value_counts(normalize=True, dropna=False), order_free=True)
P("cumsum_series_nulls", lambda t: t.df.b.cumsum())
P("cummax_series_nulls", lambda t: t.df.b.cummax())
P("cumprod_series_nulls_noskip", lambda t: t.df.b.cumsum(skipna=False))


def _unnamed_rolling_plus(df, other):
    out = df["u"].rolling(2).sum() + other["w"]
    out.name = None  # the user function does not care about the name: run-time enforcement has to apply the declared one
    return out


def _double_unnamed(p):
    return (p.u * 2.0).rename(None)


def _renamed_cols(p):
    return p[["u", "a"]].rename(columns={"u": "U", "a": "A"})


# user functions with a declared meta and the default enforce_metadata=True: partitions must carry the declared labels
P("enforce_map_partitions_name", lambda t: t.df.map_partitions(_double_unnamed, meta=("res", "f8")) if t.lazy else _double_unnamed(t.df).rename("res"), tags={"enforce_meta"})
P("enforce_map_overlap_align_name", lambda t: t.df.map_overlap(_unnamed_rolling_plus, 1, 0, t.df2, align_dataframes=True, meta=("res", "f8"), transform_divisions=False) if t.lazy else t.df.u, dask_only=True, needs_known=True, needs_range=True, tags={"enforce_meta", "window"})


# predicates that reach the NEW index of set_index through a derived object (a column's index, a sub-frame's index)
P("vc_set_index_filter_derived_index", lambda t: (lambda x: x[(x.a.index.to_series() >= 9) & (x.f > 0)])(t.df.set_index("u") if t.lazy else t.df.set_index("u").sort_index(kind="stable")), tags={"valuechange", "sort"})
P("vc_set_index_filter_subframe_index", lambda t: (lambda x: x[x[["a", "f"]].index.to_series() < 15])(t.df.set_index("u") if t.lazy else t.df.set_index("u").sort_index(kind="stable")), tags={"valuechange", "sort"})
P("vc_set_index_filter_direct_index", lambda t: (lambda x: x[x.index.to_series() >= 9])(t.df.set_index("u") if t.lazy else t.df.set_index("u").sort_index(kind="stable")), tags={"valuechange", "sort"})
P("vc_sort_filter_index", lambda t: (lambda x: x[x.a.index.to_series() != x.a.index.to_series().min()])(t.df.sort_values("f")), tags={"valuechange", "sort"}, order_free=True)


# rules of the second simplify pass re-introduce logical Head/Tail nodes: they must be lowered again before fusion
P("repart_same_proj_tail", lambda t: t.df.repartition(npartitions=t.df.npartitions)[["u"]].tail(2, compute=False) if t.lazy else t.df[["u"]].tail(2), tags={"head"}, dask_only=True, only={"C01", "C04", "C05", "C06", "C07", "C09", "C14"})  # optimize(optimize(q)) renames such plans: outside the C19 corpus, see DESIGN 10.8
P("repart_same_proj_head", lambda t: t.df.repartition(npartitions=t.df.npartitions)[["u"]].head(2, compute=False) if t.lazy else t.df[["u"]].head(2), tags={"head"}, dask_only=True, only={"C01", "C04", "C05", "C06", "C07", "C09", "C14"})  # optimize(optimize(q)) renames such plans: outside the C19 corpus, see DESIGN 10.8
P("elemwise_repart_divisions_proj_tail", lambda t: (t.df[["u", "a"]] + 1).repartition(divisions=list(t.df.divisions))[["u"]].tail(2, compute=False) if t.lazy else (t.df[["u", "a"]] + 1)[["u"]].tail(2), tags={"head"}, dask_only=True, needs_known=True, only={"C01", "C04", "C05", "C06", "C07", "C09", "C14"})  # optimize(optimize(q)) renames such plans: outside the C19 corpus, see DESIGN 10.8
P("loc_single_partition_then_op", lambda t: (t.df[["u", "f"]] + 1).loc[5:7].u * 2, needs_known=True, needs_range=True)
P("loc_list_single_partition_binop", lambda t: t.df.loc[[8, 9]].u + t.df.loc[[8, 9]].f, needs_known=True, needs_range=True)
P("loc_scalar_row_minus", lambda t: t.df.loc[7:7].u - 1, needs_known=True, needs_range=True)


# nested fused groups: a scalar chain on a reduction broadcast into an elementwise op; inputs shared by inner and outer group
for _c in (3, 5, 11):
    P(f"nested_fuse_y_plus_s{_c}", lambda t, c=_c: t.df.f + ((t.df.u.sum() * 2) - c) * 3)
    P(f"nested_fuse_s{_c}_plus_y", lambda t, c=_c: ((t.df.u.sum() * 2) - c) * 3 + t.df.f)
    P(f"nested_fuse_two_scalars{_c}", lambda t, c=_c: (t.df.f - ((t.df.u.sum() * 2) - c) * 3) / (((t.df.u.max() - c) * 2 + 1) * 5))
P("nested_fuse_other_frame_scalar", lambda t: t.df.u + ((t.df2.w.sum() + 1) * 2 + t.df2.u.max()))
# hash join with the key in the index on one side and in a column on the other (each side is shuffled by ITS key)
P("merge_hash_left_index_right_on", lambda t: t.df[["u", "f"]].set_index("u").merge(t.df2[["u", "w"]], left_index=True, right_on="u", how="inner", broadcast=False) if t.lazy else t.df[["u", "f"]].set_index("u").merge(t.df2[["u", "w"]], left_index=True, right_on="u", how="inner"), order_free=True, index_free=True, tags={"sort"})
P("merge_hash_left_on_right_index", lambda t: t.df[["u", "f"]].merge(t.df2[["u", "w"]].set_index("u"), left_on="u", right_index=True, how="inner", broadcast=False) if t.lazy else t.df[["u", "f"]].merge(t.df2[["u", "w"]].set_index("u"), left_on="u", right_index=True, how="inner"), order_free=True, index_free=True, tags={"sort"})
# delayed source with a reordered / gapped partition selection
P("delayed_source_reordered_selection", lambda t: t.dd.from_delayed(t.df.to_delayed(), meta=t.df._meta).partitions[[2, 0]] if t.lazy else t.df, dask_only=True, only={"C01", "C05", "C06", "C07", "C09", "C14"})
P("delayed_source_gapped_selection_sum", lambda t: t.dd.from_delayed(t.df.to_delayed(), meta=t.df._meta).partitions[[0, 2]].u.sum() if t.lazy else t.df.u.sum(), dask_only=True)


# len() of 2-d operations whose operands have different rows (the optimizer once ping-ponged between Len(X) and Len(X.index))
P("len_frame_plus_filtered_frame", lambda t: (t.df[["u", "f"]] + t.df[["u", "f"]][t.df.u > 5]).shape[0], needs_range=True)
P("len_assign_filtered_column", lambda t: t.df[["u", "f"]].assign(z=t.df[t.df.u > 5].f).shape[0], needs_range=True)
P("len_cumsum_plus_filtered", lambda t: (t.df[["u", "f"]].cumsum() + t.df[["u", "f"]][t.df.u > 5]).shape[0], needs_range=True)
P("frame_plus_filtered_frame", lambda t: t.df[["u", "f"]] + t.df[["u", "f"]][t.df.u > 5], needs_range=True)


# ---- third seeding round
# a filter on a column that both join inputs have, with one empty suffix: the unsuffixed name belongs to ONE input
for _how in ("left", "right", "inner"):
    for _sfx in (("_l", ""), ("", "_r")):
        P(f"jp_sfx_{_how}_{_sfx[0] or 'none'}{_sfx[1] or 'none'}", lambda t, how=_how, sfx=_sfx: (lambda m: m[m.b > 2])(t.df[["a", "b", "u"]].merge(t.df2[["a", "b", "w"]], on="a", how=how, suffixes=sfx)), order_free=True, index_free=True)
P("value_counts_keepna_tree", lambda t: t.df.b.value_counts(dropna=False, split_out=1, split_every=2) if t.lazy else t.df.b.value_counts(dropna=False), order_free=True)
# value_counts / unique counts of UNNAMED series (the counted values are an unnamed index of every chunk), all split_out settings
P("series_unnamed_value_counts", lambda t: t.df.a.rename(None).value_counts(), order_free=True)
P("series_unnamed_value_counts_float", lambda t: (t.df.b.rename(None) * 1.5).value_counts(), order_free=True)
P("series_unnamed_value_counts_split2", lambda t: t.df.a.rename(None).value_counts(split_out=2) if t.lazy else t.df.a.rename(None).value_counts(), order_free=True)
P("series_unnamed_value_counts_split_all", lambda t: t.df.u.rename(None).value_counts(split_out=True) if t.lazy else t.df.u.rename(None).value_counts(), order_free=True)
P("series_unnamed_value_counts_str", lambda t: t.df.c.rename(None).value_counts(split_out=3) if t.lazy else t.df.c.rename(None).value_counts(), order_free=True)
# a mask computed from a differently laid out copy of the frame (alignment inserted by the planner); plans must not grow on re-optimization
# (when the repartitioned copy has unknown divisions - string index - the two are aligned by a hash shuffle: row order is then undefined)
P("filter_by_mask_of_other_layout", lambda t: t.df[t.df.repartition(npartitions=2).a > 1] if t.lazy else t.df[t.df.a > 1], needs_known=True, order_free=True)
P("filter_by_mask_of_other_layout_sum", lambda t: t.df[t.df.repartition(npartitions=2).u > 4].b.sum() if t.lazy else t.df[t.df.u > 4].b.sum(), needs_known=True)
P("filter_by_mask_of_other_frame", lambda t: t.df[t.df3.u > 105], needs_known=True, needs_range=True)
P("filter_by_mask_of_other_frame_sum", lambda t: t.df[t.df3.u > 103].u.sum(), needs_known=True, needs_range=True)
# --- round 4 -------------------------------------------------------------------------------------------------------
# the former (unnamed) index selected out of Series.reset_index(), next to the values column
P("series_reset_index_former_index", lambda t: t.df.a.reset_index()["index"], needs_range=True)
P("series_reset_index_values_column", lambda t: t.df.a.reset_index()["a"], needs_range=True)
P("series_reset_index_former_index_filtered", lambda t: (lambda r: r[r["index"] > 2])(t.df.u.reset_index()), needs_range=True)
# joins on differently named keys, filtered on the key of the side whose unmatched rows the join does NOT keep
# (tag joinpred: part of C03's join-predicate programs)
for _how in ("left", "right", "outer", "inner"):
    P(f"merge_diffkeys_{_how}_filter_right_key", lambda t, h=_how: (lambda m: m[m.j > 1])(t.df[["a", "u"]].merge(t.df2[["a", "w"]].rename(columns={"a": "j"}), left_on="a", right_on="j", how=h)), order_free=True, index_free=True, tags={"joinpred"})
    P(f"merge_diffkeys_{_how}_filter_left_key", lambda t, h=_how: (lambda m: m[m.a > 1])(t.df[["a", "u"]].merge(t.df2[["a", "w"]].rename(columns={"a": "j"}), left_on="a", right_on="j", how=h)), order_free=True, index_free=True, tags={"joinpred"})
    # ... with a predicate that is true on the null-filled rows (the variants with one key in the INDEX are C03's own: vf/props/C03.py)
    P(f"merge_diffkeys_{_how}_filter_left_key_not", lambda t, h=_how: (lambda m: m[~(m.a > 1)])(t.df[["a", "u"]].merge(t.df2[["a", "w"]].rename(columns={"a": "j"}), left_on="a", right_on="j", how=h)), order_free=True, index_free=True, tags={"joinpred"})
# combine_first with an independent source whose rows overlap the frame's (evaluable on every layout: the programs below
# run into a pandas error on known divisions, where alignment leaves empty partitions of a frame with an integer column)
P("combine_first_overlapping_source_shared_column", lambda t: t.df[["a", "b"]].combine_first(t.df2[["b"]])[["b"]], needs_range=True, order_free=True)
P("combine_first_overlapping_source_two_columns", lambda t: t.df[["a", "b"]].combine_first(t.df2[["b", "u"]].astype("float64"))[["u", "b"]], needs_range=True, order_free=True)
# column selections of combine_first of two independent sources that share a column with missing values
# (operands with unknown divisions are aligned by a hash shuffle: row order undefined)
P("combine_first_other_source_shared_column", lambda t: t.df[["a", "b"]].combine_first(t.df3[["b", "u"]])[["b"]], needs_range=True, order_free=True)
P("combine_first_other_source_two_columns", lambda t: t.df[["a", "b", "u"]].combine_first(t.df3[["b", "u", "f"]])[["b", "f"]], needs_range=True, order_free=True)
P("combine_first_other_source_series", lambda t: t.df[["a", "b"]].combine_first(t.df3[["b", "u"]])["b"], needs_range=True, order_free=True)
# drop_duplicates(subset, keep) followed by a selection that leaves columns unused
for _keep in ("first", "last"):
    P(f"drop_duplicates_subset_keep_{_keep}_then_project", lambda t, k=_keep: t.df.drop_duplicates(subset=["a"], keep=k)[["a", "u"]], order_free=True)
    P(f"drop_duplicates_subset_keep_{_keep}_then_series", lambda t, k=_keep: t.df.drop_duplicates(subset=["a", "d"], keep=k)["u"], order_free=True)
# merge with a single-partition side and an explicit npartitions= (partition structure must stay truthful)
for _np in (2, 7):
    P(f"merge_single_partition_side_np{_np}", lambda t, n=_np: t.df[["a", "u"]].merge(t.df2[["a", "w"]].repartition(npartitions=1), on="a", npartitions=n) if t.lazy else t.df[["a", "u"]].merge(t.df2[["a", "w"]], on="a"), order_free=True, index_free=True)
    P(f"merge_single_partition_left_np{_np}", lambda t, n=_np: t.df2[["a", "w"]].repartition(npartitions=1).merge(t.df[["a", "u"]], on="a", how="right", npartitions=n) if t.lazy else t.df2[["a", "w"]].merge(t.df[["a", "u"]], on="a", how="right"), order_free=True, index_free=True)
# reductions over both axes
P("mean_axis_none", lambda t: t.df[["a", "u", "f"]].mean(axis=None))
P("mean_axis_none_after_op", lambda t: (t.df[["a", "u"]] + 1).mean(axis=None))
# unnamed Index through the shuffle reductions
P("index_unnamed_unique", lambda t: (t.df.index.unique() if t.lazy else pd.Index(t.df.index.unique())).to_series(), needs_range=True, order_free=True, index_free=True)
P("index_unnamed_drop_duplicates_split2", lambda t: (t.df.index.drop_duplicates(split_out=2) if t.lazy else t.df.index.drop_duplicates()).to_series(), needs_range=True, order_free=True, index_free=True)
P("index_unnamed_unique_of_filtered", lambda t: (t.df[t.df.a > 1].index.unique() if t.lazy else pd.Index(t.df[t.df.a > 1].index.unique())).to_series(), needs_range=True, order_free=True, index_free=True)
# windows given as NumPy integers
P("shift_numpy_int", lambda t: t.df[["u", "b"]].shift(np.int64(1)), tags={"window"})
P("diff_numpy_int", lambda t: t.df.u.diff(np.int64(2)), tags={"window"})
P("ffill_limit_numpy_int", lambda t: t.df.b.ffill(limit=np.int64(1)), tags={"window"})
P("shift_numpy_int_neg", lambda t: t.df.u.shift(np.int64(-1)), tags={"window"})
# set_index(sorted=True) on a frame with an emptied partition before a non-empty one
P("set_index_presorted_after_gap_filter", lambda t: t.df[(t.df.u < 6) | (t.df.u > 16)][["u", "a"]].set_index("u", sorted=True) if t.lazy else t.df[(t.df.u < 6) | (t.df.u > 16)][["u", "a"]].set_index("u"))
P("set_index_presorted_after_head_gap_filter", lambda t: t.df[t.df.u > 8][["u", "b"]].set_index("u", sorted=True) if t.lazy else t.df[t.df.u > 8][["u", "b"]].set_index("u"))
# an element-wise operation stacked on an operation whose operands have different rows: len / head / tail / size
P("len_of_op_on_misaligned_op", lambda t: len((t.df.u + t.df.b[t.df.b > 2]) * 2), dask_only=False)
P("head_of_op_on_misaligned_op", lambda t: ((t.df.u + t.df.b[t.df.b > 2]) * 2).head(3, compute=False) if t.lazy else ((t.df.u + t.df.b[t.df.b > 2]) * 2).head(3), tags={"head"}, dask_only=True)
P("tail_of_fillna_on_misaligned_assign", lambda t: t.df[["a", "u"]].assign(z=t.df.b[t.df.b > 3]).fillna(0).tail(3, compute=False) if t.lazy else t.df[["a", "u"]].assign(z=t.df.b[t.df.b > 3]).fillna(0).tail(3), tags={"head"}, dask_only=True)
# a column assigned from a differently partitioned source, then a selection keeping several columns
P("assign_from_other_layout_then_project", lambda t: t.df.assign(z=t.df.repartition(npartitions=2).u)[["a", "b", "z"]] if t.lazy else t.df.assign(z=t.df.u)[["a", "b", "z"]], needs_known=True, order_free=True)
P("assign_from_other_layout_then_project4", lambda t: t.df.assign(z=t.df.repartition(npartitions=2).u, y=t.df.repartition(npartitions=2).f)[["u", "a", "y", "b"]] if t.lazy else t.df.assign(z=t.df.u, y=t.df.f)[["u", "a", "y", "b"]], needs_known=True, order_free=True)
# a Series whose index reaches beyond the frame's: pandas keeps the frame's rows only (known finding KF-C02-assign-series-beyond-index)
P("assign_series_beyond_index", lambda t: t.df[["a", "u"]].assign(z=t.df4.u), needs_known=True, needs_range=True, only={"C02"})
# a staged task shuffle with as many outputs as inputs and a selection that is not a prefix (contains the first stage's digits)
P("staged_shuffle_same_count_selection", lambda t: t.df.shuffle("a", max_branch=2, shuffle_method="tasks").partitions[[0, 1, 3]] if t.lazy else t.df, dask_only=True, order_free=True, only={"C01", "C05", "C06", "C07", "C09", "C11", "C14"})
# broadcast join followed by a selection that is not a prefix
P("merge_bcast_inner_partition_not_prefix", lambda t: t.df[["a", "u"]].merge(t.df2[["a", "w"]].repartition(npartitions=2), on="a", how="inner", broadcast=True).partitions[[2]] if t.lazy else t.df, dask_only=True, order_free=True, only={"C01", "C05", "C06", "C07", "C09", "C11", "C14"})
P("merge_bcast_inner_tail", lambda t: t.df[["a", "u"]].merge(t.df2[["a", "w"]].repartition(npartitions=2), on="a", how="inner", broadcast=True).tail(2, compute=False) if t.lazy else t.df, dask_only=True, order_free=True, only={"C01", "C05", "C06", "C07", "C09", "C11", "C14"})
# a chain on a single-partition frame consumed by two multi-partition groups
P("single_partition_chain_two_consumers", lambda t: (lambda s: t.dd.concat([t.df[["a", "u"]].merge(s, on="a").assign(z=1), t.df[["a", "u"]].merge(s, on="a", how="left").assign(z=2)]))((t.df2[["a", "w"]].repartition(npartitions=1) + 1) * 2) if t.lazy else (lambda s: pd.concat([t.df[["a", "u"]].merge(s, on="a").assign(z=1), t.df[["a", "u"]].merge(s, on="a", how="left").assign(z=2)]))((t.df2[["a", "w"]] + 1) * 2), order_free=True, index_free=True)
P("single_partition_chain_map_partitions_two_consumers", lambda t: (lambda s: (t.df.u + s.w.sum()) + (t.df.a * s.w.max()).fillna(0))((t.df2[["a", "w"]].repartition(npartitions=1) + 1) * 2) if t.lazy else (lambda s: (t.df.u + s.w.sum()) + (t.df.a * s.w.max()).fillna(0))((t.df2[["a", "w"]] + 1) * 2))
P("tail_after_noop_repartition", lambda t: (t.df[["a", "u"]] + 1).repartition(npartitions=t.df.npartitions).tail(3, compute=False) if t.lazy else (t.df[["a", "u"]] + 1).tail(3), tags={"head"}, dask_only=True)
P("head_after_noop_repartition", lambda t: (t.df[["a", "u"]] + 1).repartition(npartitions=t.df.npartitions).head(3, compute=False) if t.lazy else (t.df[["a", "u"]] + 1).head(3), tags={"head"}, dask_only=True)
P("value_counts_tree", lambda t: t.df.a.value_counts(split_out=1, split_every=2) if t.lazy else t.df.a.value_counts(), order_free=True)
# narrowing casts change values: 16777216 + odd is not representable in float32, 2**31 + k wraps in int32
P("vc_astype_narrow_float32", lambda t: (lambda x: x[x.h >= 16777218.0])(t.df[["a", "u"]].assign(h=t.df.u + 16777216.0).astype({"h": "float32"})), tags={"valuechange"})
P("vc_astype_narrow_float32_eq", lambda t: (lambda x: x[x.h == 16777220.0])(t.df[["a", "u"]].assign(h=t.df.u + 16777216.0).astype({"h": "float32"})), tags={"valuechange"})
P("concat_interleave_proj", lambda t: t.dd.concat([t.df, t.df4], interleave_partitions=True)[["u", "a"]] if t.lazy else t.dd.concat([t.df, t.df4]).sort_index(kind="stable")[["u", "a"]], needs_known=True, order_free=True)
P("concat_interleave_overlap_proj", lambda t: t.dd.concat([t.df[["u", "a", "f"]], t.df.loc[3:8][["u", "a", "f"]] + 100], interleave_partitions=True)[["u"]] if t.lazy else t.dd.concat([t.df[["u", "a", "f"]], t.df.loc[3:8][["u", "a", "f"]] + 100]).sort_index(kind="stable")[["u"]], needs_known=True, needs_range=True, order_free=True)
P("concat_interleave_overlap_proj_cumsum", lambda t: t.dd.concat([t.df[["u", "a", "f"]], t.df.loc[3:8][["u", "a", "f"]] + 100], interleave_partitions=True)[["u"]].u.cumsum() if t.lazy else t.dd.concat([t.df[["u", "a", "f"]], t.df.loc[3:8][["u", "a", "f"]] + 100]).sort_index(kind="stable")[["u"]].u.cumsum(), needs_known=True, needs_range=True, dask_only=True)  # the order of equal labels is dask's own
P("concat_interleave_overlap_known_divisions", lambda t: t.dd.concat([t.df[["u", "a", "f"]], t.df.loc[3:8][["u", "a", "f"]] + 100], interleave_partitions=True)[["u"]].loc[0:2] if t.lazy else t.dd.concat([t.df[["u", "a", "f"]], t.df.loc[3:8][["u", "a", "f"]] + 100]).sort_index(kind="stable")[["u"]].loc[0:2], needs_known=True, needs_range=True)
P("concat_interleave_proj_cumsum", lambda t: t.dd.concat([t.df, t.df4], interleave_partitions=True)[["u"]].u.cumsum() if t.lazy else t.dd.concat([t.df, t.df4]).sort_index(kind="stable")[["u"]].u.cumsum(), needs_known=True, needs_range=True)
P("agg_multiindex_columns_select", lambda t: t.df.groupby("a").agg({"u": ["sum", "mean"], "f": ["max"]})[[("f", "max")]], order_free=True)
P("agg_multiindex_columns_nlargest_select", lambda t: t.df.groupby("a").agg({"u": ["sum", "mean"], "f": ["max"]}).nlargest(2, ("u", "sum"))[[("f", "max")]], order_free=True)
P("agg_multiindex_columns_dropna_select", lambda t: t.df.groupby("a").agg({"u": ["sum", "mean"], "f": ["max"]}).dropna(subset=[("u", "mean")])[[("f", "max")]], order_free=True)
# sorts / set_index on a key that is unique but in no order in the input (k = 37 u mod 101, distinct for u < 101): the last /
# first rows of the result come from anywhere in the input. C11 also runs these on 12 input partitions, more than one batch
# of the tree reduction behind head()/tail() of a sorted frame (seed C11_7)
P("sort_scrambled_key", lambda t: t.df.assign(k=(t.df.u * 37) % 101).sort_values("k")[["k", "u", "a"]], tags={"sort"})
P("sort_scrambled_key_desc", lambda t: t.df.assign(k=(t.df.u * 37) % 101).sort_values("k", ascending=False)[["k", "u", "a"]], tags={"sort"})
P("set_index_scrambled_key", lambda t: t.df.assign(k=(t.df.u * 37) % 101)[["k", "u", "a"]].set_index("k") if t.lazy else t.df.assign(k=(t.df.u * 37) % 101)[["k", "u", "a"]].set_index("k").sort_index(kind="stable"), tags={"sort"})
P("parts_strided_series", lambda t: t.df.partitions[[0, 2]].u if t.lazy else t.df.u, dask_only=True, tags={"parts"}, only={"C01", "C06", "C07", "C09", "C14"})
P("parts_strided_proj_elemwise", lambda t: t.df.partitions[[0, 2]][["u", "a"]] + 1 if t.lazy else t.df[["u", "a"]], dask_only=True, tags={"parts"}, only={"C01", "C06", "C07", "C09", "C14"})


def _scaled_with_partition_info(p, partition_info=None):
    out = p.u * 2.0
    out.name = "x"
    return out


def _add_frame_column(s, other):
    return s + other["w"].iloc[0]


P("enforce_map_partitions_partition_info", lambda t: t.df.map_partitions(_scaled_with_partition_info, meta=("scaled", "f8")) if t.lazy else _scaled_with_partition_info(t.df).rename("scaled"), tags={"enforce_meta"})
P("set_index_presorted_keep_column", lambda t: t.df[["g", "u", "a"]].set_index("g", drop=False) if t.lazy else t.df[["g", "u", "a"]].set_index("g", drop=False), tags={"sort"})
P("set_index_presorted_keep_column_select", lambda t: t.df[["g", "u", "a"]].set_index("g", drop=False)["g"], tags={"sort"})
P("series_map_partitions_single_partition_frame", lambda t: t.df.u.map_partitions(_add_frame_column, t.df2.repartition(npartitions=1), meta=("u", "i8")) * 2 if t.lazy else (t.df.u + t.df2["w"].iloc[0]) * 2)
# deep chains of shared sub-expressions: the number of rewrite steps must stay polynomial


def assign_chain(x, depth):
    for k in range(depth):
        x = x.assign(**{f"c{k}": x.u + (x[f"c{k-1}"] if k else x.a)})
    return x[[f"c{depth - 1}", "u"]]


def mask_chain(x, rounds):
    m = x.u > 1
    for k in range(rounds):
        m = (m & (x.u > k)) | (m & (x.a >= 0))
    return m




def program_names(tags_exclude=()):
    return [n for n, p in PROGRAMS.items() if not (p.tags & set(tags_exclude))]


# ---------------------------------------------------------------------------------------------
# generated programs: reconstructed from their *name* in any process
#   "g:<op>[:<op>...]:<consumer>"   unary-operator chains over t.df with a consumer on top
#   "pred:<formula>:<consumer>"     t.df[<boolean formula over atoms A..E>] with a consumer on top
# ---------------------------------------------------------------------------------------------
def _lazy_only(t, f_dask, f_pandas):
    return f_dask if t.lazy else f_pandas


UNARY = {
    "f_gt": lambda x, t: x[x.a > 1],
    "f_and": lambda x, t: x[(x.a > 0) & (x.b < 9)],
    "f_or": lambda x, t: x[(x.a > 2) | (x.u < 7)],
    "f_isna": lambda x, t: x[x.b.isna()],
    "f_few": lambda x, t: x[x.u >= 17],
    "proj5": lambda x, t: x[["a", "b", "u", "f", "c"]],
    "proj3": lambda x, t: x[["u", "a", "b"]],
    "assign_z": lambda x, t: x.assign(z=x.a + x.u),
    "assign_over": lambda x, t: x.assign(a=x.a * 2),
    "fillna_dict": lambda x, t: x.fillna({"b": -1.0}),
    "isin_dict": lambda x, t: x.isin({"a": [1, 2], "c": ["x"]}),
    "replace_dict": lambda x, t: x.replace({"a": {1: 10}}),
    "rename": lambda x, t: x.rename(columns={"f": "F"}),
    "astype": lambda x, t: x.astype({"a": "float64"}),
    "sort_u": lambda x, t: x.sort_values("u", ascending=False),
    "sort_na_first": lambda x, t: x.sort_values(["b", "u"], na_position="first"),
    # dask's set_index sorts by the new index; pandas keeps the row order: the oracle sorts (stable)
    "set_index_u": lambda x, t: x.set_index("u") if t.lazy else x.set_index("u").sort_index(kind="stable"),
    "set_index_keep": lambda x, t: x.set_index("u", drop=False) if t.lazy else x.set_index("u", drop=False).sort_index(kind="stable"),
    "reset_index": lambda x, t: x.reset_index(drop=True),
    "repart2": lambda x, t: x.repartition(npartitions=2) if t.lazy else x,
    "repart5": lambda x, t: x.repartition(npartitions=5) if t.lazy else x,
    "cumsum": lambda x, t: x.assign(cs=x.u.cumsum()),
    "shift": lambda x, t: x.assign(sh=x.u.shift(1)),
    "dropna": lambda x, t: x.dropna(subset=["b"]),
    "abs": lambda x, t: x.assign(b=x.b.abs()),
    "merge_df2": lambda x, t: x.merge(t.df2[["a", "w"]], on="a", how="left"),
    "concat_df3": lambda x, t: t.dd.concat([x, t.df3]),
    "mp": lambda x, t: t.mp(x, lambda p: p.assign(mpz=p.u * 2)),
    "add_prefix": lambda x, t: x.add_prefix("p_").rename(columns={"p_a": "a", "p_u": "u", "p_b": "b", "p_f": "f", "p_c": "c"}),
    "head_all": lambda x, t: x.head(6, npartitions=-1, compute=False) if t.lazy else x.head(6),
    "head_k2": lambda x, t: x.head(5, npartitions=2, compute=False) if t.lazy else x.head(5),
    "tail": lambda x, t: x.tail(3, compute=False) if t.lazy else x.tail(3),
    "parts": lambda x, t: x.partitions[[1, 0]] if t.lazy else x,
    "cov_like": lambda x, t: x[["a", "b", "u"]].cov(),
}
_U_ORDER_FREE = {"merge_df2"}
_U_INDEX_FREE = {"reset_index", "merge_df2"}
_U_DASK_ONLY = {"head_k2", "tail", "parts", "head_all"}  # pandas meaning depends on the partitioning
_U_SORT = {"sort_u", "sort_na_first", "set_index_u", "set_index_keep"}

CONSUMERS = {
    "id": lambda x, t: x,
    "col_a": lambda x, t: x["a"],
    "col_b": lambda x, t: x["b"],
    "cols_ub": lambda x, t: x[["u", "b"]],
    "sum_u": lambda x, t: x.u.sum(),
    "count_b": lambda x, t: x.b.count(),
    "gb": lambda x, t: x.groupby("a").u.sum(),
    "filter_b": lambda x, t: x[x.b > 2],
    "filter_a_proj": lambda x, t: x[x.a > 0][["u"]],
    "head3": lambda x, t: x.head(3, compute=False) if t.lazy else x.head(3),
    "head4_all": lambda x, t: x.head(4, npartitions=-1, compute=False) if t.lazy else x.head(4),
    "tail2": lambda x, t: x.tail(2, compute=False) if t.lazy else x.tail(2),
    "part1": lambda x, t: x.partitions[1] if t.lazy else x,
    "idx": lambda x, t: x.index,
}
_C_DASK_ONLY = {"head3", "tail2", "part1"}

ATOMS = {
    "A": lambda x: x.a > 0,
    "B": lambda x: x.b < 9,  # b has NaN: the atom is False there
    "C": lambda x: x.u > 9,
    "D": lambda x: x.f == 1,
    "E": lambda x: x.c == "x",
    "N": lambda x: x.b != 4.0,  # True on NaN rows
}


def _parse_formula(s):
    """Grammar: or := and ('|' and)* ; and := unary ('&' unary)* ; unary := '~' unary | atom | '(' or ')'"""
    pos = [0]

    def peek():
        return s[pos[0]] if pos[0] < len(s) else ""

    def eat(ch):
        assert peek() == ch, (s, pos[0])
        pos[0] += 1

    def p_or():
        n = p_and()
        while peek() == "|":
            eat("|")
            n = ("or", n, p_and())
        return n

    def p_and():
        n = p_un()
        while peek() == "&":
            eat("&")
            n = ("and", n, p_un())
        return n

    def p_un():
        if peek() == "~":
            eat("~")
            return ("not", p_un())
        if peek() == "(":
            eat("(")
            n = p_or()
            eat(")")
            return n
        a = peek()
        assert a in ATOMS, (s, pos[0])
        pos[0] += 1
        return ("atom", a)

    n = p_or()
    assert pos[0] == len(s), s
    return n


def eval_formula(node, x):
    k = node[0]
    if k == "atom":
        return ATOMS[node[1]](x)
    if k == "not":
        return ~eval_formula(node[1], x)
    l, r = eval_formula(node[1], x), eval_formula(node[2], x)
    return (l & r) if k == "and" else (l | r)


def _make_generated(name):
    parts = name.split(":")
    if parts[0] == "g":
        ops, cons = parts[1:-1], parts[-1]

        def fn(t, ops=ops, cons=cons):
            x = t.df
            for o in ops:
                x = UNARY[o](x, t)
            return CONSUMERS[cons](x, t)

        tags = set()
        if set(ops) & _U_SORT:
            tags.add("sort")
        headtail = bool(set(ops) & {"head_all", "head_k2", "tail"}) or cons in ("head3", "head4_all", "tail2")
        selects = bool(set(ops) & {"parts"}) or cons == "part1"
        layout = bool(set(ops) & (_U_SORT | {"repart2", "repart5", "merge_df2", "concat_df3"}))
        labels_undefined = bool(set(ops) & _U_INDEX_FREE)
        aligning = {"shift", "cumsum", "assign_z", "assign_over", "abs", "merge_df2", "concat_df3", "mp"}
        undefined = (
            (bool(set(ops) & _U_ORDER_FREE) and headtail)  # first rows of an unordered frame
            or (selects and layout and len(ops) > 1)  # one partition of a plan-dependent layout
            or (cons == "idx" and labels_undefined)  # the result IS the undefined labels
            or (len(ops) > 1 and ops[0] in _U_INDEX_FREE and bool(set(ops[1:]) & aligning))  # alignment on duplicated labels
            or (len(ops) > 1 and "merge_df2" in ops and bool(set(ops) & _U_SORT) and headtail)  # ties in the sort key
        )
        return Prog(
            name,
            fn,
            order_free=bool(set(ops) & _U_ORDER_FREE) or cons == "gb",
            index_free=bool(set(ops) & _U_INDEX_FREE),
            dask_only=bool(set(ops) & _U_DASK_ONLY)
            or cons in _C_DASK_ONLY
            or (cons == "idx" and bool(set(ops) & _U_INDEX_FREE))  # the result IS the undefined labels
            or (cons in ("head4_all", "tail2", "head3") and bool(set(ops) & _U_ORDER_FREE)),  # head of an unordered frame
            tags=tags | {"generated"},
            undefined=undefined,
        )
    if parts[0] == "pred":
        tree = _parse_formula(parts[1])
        cons = parts[2] if len(parts) > 2 else "id"

        def fn(t, tree=tree, cons=cons):
            x = t.df
            return CONSUMERS[cons](x[eval_formula(tree, x)], t)

        return Prog(name, fn, order_free=(cons == "gb"), dask_only=cons in _C_DASK_ONLY, tags={"generated", "pred"})
    raise KeyError(name)


class _Programs(dict):
    def __missing__(self, name):
        p = _make_generated(name)
        self[name] = p
        return p


PROGRAMS = _Programs(PROGRAMS)


# a join key of one input that clashes with a NON-key column of the other input comes out under its suffix (a_x / a_y): selecting the
# suffixed key must keep the other input's clashing column, or pandas applies no suffix to the pruned join (repaired defect 348202f)
P("merge_keyclash_select_suffixed_left_key", lambda t: t.df[["a", "u"]].merge(t.df2[["a", "w"]].rename(columns={"a": "j"}).assign(a=lambda x: x.w * 2) if not t.lazy else t.df2[["a", "w"]].rename(columns={"a": "j"}).assign(a=t.df2.w * 2), left_on="a", right_on="j")[["a_x"]], order_free=True, index_free=True)
P("merge_keyclash_select_suffixed_right_clash", lambda t: t.df[["a", "u"]].merge(t.df2[["a", "w"]].rename(columns={"a": "j"}).assign(a=lambda x: x.w * 2) if not t.lazy else t.df2[["a", "w"]].rename(columns={"a": "j"}).assign(a=t.df2.w * 2), left_on="a", right_on="j")[["a_y", "u"]], order_free=True, index_free=True)

def generated_depth1(consumers=None):
    return [f"g:{o}:{c}" for o in UNARY for c in (consumers or CONSUMERS)]


def generated_depth2(rng, k, consumers=None):
    import os

    sl = os.environ.get("VERIF_D2_SLICE")  # development sweeps: "i/n" = the i-th of n slices of ALL depth-2 programs
    if sl:
        i, n = map(int, sl.split("/"))
        return all_depth2(consumers)[i::n]
    ops = list(UNARY)
    cs = list(consumers or CONSUMERS)
    out = set()
    while len(out) < k:
        a, b = rng.choice(ops), rng.choice(ops)
        out.add(f"g:{a}:{b}:{rng.choice(cs)}")
    return sorted(out)


def all_depth2(consumers=None):
    return [f"g:{a}:{b}:{c}" for a in UNARY for b in UNARY for c in (consumers or CONSUMERS)]


def _branch_str(br):
    return "&".join(br)


def predicate_formulas(rng=None, n_triples=150, atoms="ABCD"):
    """DNF-shaped formulas: 2 and 3 branches, each a conjunction of 1..2 (possibly negated) atoms;
    plus a few CNF / negation shapes.  All 2-branch formulas; a seeded sample of the 3-branch ones."""
    lits = list(atoms) + ["~" + a for a in atoms[:2]]
    branches = [(l,) for l in lits] + [(l1, l2) for i, l1 in enumerate(lits) for l2 in lits[i + 1 :] if l1.strip("~") != l2.strip("~")]
    two = [f"({_branch_str(x)})|({_branch_str(y)})" for x in branches for y in branches if x != y]
    three_all = [f"({_branch_str(x)})|({_branch_str(y)})|({_branch_str(z)})" for x in branches[:14] for y in branches[:14] for z in branches[:14] if len({x, y, z}) == 3]
    extra = ["(A|B)&(A|C)", "~(A&B)", "~(A|B)&C", "((A&B)|(A&C))&D", "(A&B)|(A&C)|(A&D)", "(A&B&C)|(A&B&D)", "(A&B)|A|(A&C)", "A&(B|C)&(B|D)", "(N&A)|(N&C)", "(A&N)|A", "~N|(A&B)", "(E&A)|(E&B)|C"]
    if rng is None:
        three = three_all[:: max(1, len(three_all) // n_triples)][:n_triples]
    else:
        three = rng.sample(three_all, min(n_triples, len(three_all)))
    return two, three, extra
