"""Abstract graph interpreter (tier S): evaluates a materialised layer over an abstract row model,
giving every external task function its ASSUMED contract (each is cross-checked against the real
function on small pandas frames by check_assumed_contracts, and listed in the trusted base).

A row is a tuple (origin_partition, ordinal, index_value, key_value); a frame is a tuple of rows.
"""
from __future__ import annotations

import operator

import numpy as np
import pandas as pd


class Unmodelled(Exception):
    pass


def a_concat(parts, ignore_index=False, **kw):
    out = []
    for p in parts:
        if isinstance(p, EmptyMeta):
            continue
        out.extend(p)
    return tuple(out)


class EmptyMeta(tuple):
    """An empty frame (meta) embedded in a layer."""


def a_shuffle_group(df, cols, stage, k, npartitions, ignore_index, nfinal):
    out = {g: [] for g in range(k)}
    for row in df:
        v = row[3]
        if nfinal and nfinal != npartitions:
            v = v % int(nfinal)
        g = (v % npartitions) // k**stage % k
        out[g].append(row)
    return {g: tuple(r) for g, r in out.items()}


def a_shuffle_group_filtered(df, _filter, *args):
    res = a_shuffle_group(df, *args)
    if _filter is None:
        return res
    return {k: v for k, v in res.items() if k in _filter}


def a_shuffle_group_2(df, cols, ignore_index, nparts):
    if not len(df):
        return {}, ()
    out = {}
    mx = max(r[3] for r in df)
    for g in range(mx + 1):
        out[g] = []
    for row in df:
        out[row[3]].append(row)
    return {g: tuple(r) for g, r in out.items()}, ()


def a_shuffle_group_get(g_head, i):
    g, head = g_head
    return g.get(i, head)


def a_boundary_slice(df, start, stop, right_boundary=True, left_boundary=True, kind=None):
    out = []
    for row in df:
        x = row[2]
        lo_ok = x >= start if left_boundary else x > start
        hi_ok = x <= stop if right_boundary else x < stop
        if lo_ok and hi_ok:
            out.append(row)
    return tuple(out)


def a_split_evenly(df, k):
    n = len(df)
    bounds = np.linspace(0, n, k + 1).astype(int)
    return {i: tuple(df[bounds[i] : bounds[i + 1]]) for i in range(k)}


def default_semantics():
    from dask.dataframe import methods
    from dask.dataframe.core import _concat, split_evenly
    from dask.dataframe.shuffle import shuffle_group, shuffle_group_2, shuffle_group_get
    from dask_expr._shuffle import SimpleShuffle, TaskShuffle

    return {
        _concat: a_concat,
        methods.concat: a_concat,
        operator.getitem: lambda d, k: d[k],
        shuffle_group: a_shuffle_group,
        shuffle_group_2: a_shuffle_group_2,
        shuffle_group_get: a_shuffle_group_get,
        SimpleShuffle._shuffle_group: a_shuffle_group_filtered,
        TaskShuffle._shuffle_group: a_shuffle_group_filtered,
        methods.boundary_slice: a_boundary_slice,
        split_evenly: a_split_evenly,
        tuple: tuple,
        list: list,
        len: len,
    }


def run_layer(layer, inputs, out_keys, sem=None):
    """Evaluate `out_keys` of `layer` given abstract input partitions `inputs` (key -> frame)."""
    sem = sem or default_semantics()
    cache = dict(inputs)
    active = set()

    def is_key(x):
        try:
            return x in layer or x in cache
        except TypeError:
            return False

    def ev(x):
        if isinstance(x, list):
            return [ev(y) for y in x]
        if isinstance(x, tuple) and x and callable(x[0]):
            f = sem.get(x[0])
            if f is None:
                raise Unmodelled(f"task function {getattr(x[0], '__name__', x[0])!r} has no assumed contract")
            return f(*[ev(a) for a in x[1:]])
        if isinstance(x, (pd.DataFrame, pd.Series)):
            return EmptyMeta()
        if is_key(x):
            return get(x)
        return x

    def get(k):
        if k in cache:
            return cache[k]
        if k in active:
            raise RuntimeError(f"cycle through {k!r}")
        if k not in layer:
            raise KeyError(k)
        active.add(k)
        cache[k] = ev(layer[k])
        active.discard(k)
        return cache[k]

    return [get(k) for k in out_keys]


def referenced_keys(layer, names):
    """(name, ints...) tuples referenced by tasks of the layer."""
    out = set()

    def walk(x):
        if isinstance(x, tuple):
            if x and isinstance(x[0], str) and x[0] in names and len(x) >= 2 and all(isinstance(i, (int, np.integer, tuple, str)) for i in x[1:]):
                out.add(x)
                return
            for y in x[1:] if (x and callable(x[0])) else x:
                walk(y)
        elif isinstance(x, list):
            for y in x:
                walk(y)

    for v in layer.values():
        walk(v)
    return out


# ---------------------------------------------------------------------------------------------
# cross-check of the assumed contracts against the real functions (tier R, run by the checks)
# ---------------------------------------------------------------------------------------------
def check_assumed_contracts():
    """Returns a list of disagreements between the assumed contracts above and the real functions."""
    from dask.dataframe import methods
    from dask.dataframe.core import _concat, split_evenly
    from dask.dataframe.shuffle import shuffle_group, shuffle_group_2, shuffle_group_get

    bad = []
    n = 0
    rng = np.random.RandomState(0)
    for nrows in (0, 1, 5, 9):
        for npart, k, stage, nfinal in [(4, 4, 0, 4), (9, 3, 0, 9), (9, 3, 1, 9), (8, 2, 2, 8), (4, 2, 1, 7), (5, 5, 0, 7), (27, 3, 2, 27)]:
            vals = rng.randint(0, max(npart, nfinal), size=nrows)
            df = pd.DataFrame({"x": np.arange(nrows), "_partitions": vals})
            real = shuffle_group(df, "_partitions", stage, k, npart, False, nfinal)
            rows = tuple((0, i, i, int(v)) for i, v in enumerate(vals))
            mine = a_shuffle_group(rows, "_partitions", stage, k, npart, False, nfinal)
            n += 1
            got = {g: tuple(r[1] for r in rs) for g, rs in mine.items()}
            exp = {g: tuple(real[g].x.tolist()) for g in real}
            if got != exp:
                bad.append(("shuffle_group", (nrows, npart, k, stage, nfinal), got, exp))
        vals = rng.randint(0, 5, size=nrows)
        df = pd.DataFrame({"x": np.arange(nrows), "_partitions": vals})
        real, head = shuffle_group_2(df, "_partitions", False, 5)
        rows = tuple((0, i, i, int(v)) for i, v in enumerate(vals))
        mine, _ = a_shuffle_group_2(rows, "_partitions", False, 5)
        n += 1
        if {g: tuple(real[g].x.tolist()) for g in real} != {g: tuple(r[1] for r in rs) for g, rs in mine.items()}:
            bad.append(("shuffle_group_2", nrows))
        for i in range(6):
            a = shuffle_group_get((real, head), i)
            b = a_shuffle_group_get((mine, ()), i)
            n += 1
            if tuple(a.x.tolist()) != tuple(r[1] for r in b):
                bad.append(("shuffle_group_get", nrows, i))
    idx = [0, 1, 1, 2, 4, 4, 5, 7]
    df = pd.DataFrame({"x": range(len(idx))}, index=idx)
    rows = tuple((0, i, v, 0) for i, v in enumerate(idx))
    for lo in range(0, 8):
        for hi in range(lo, 8):
            for rb in (True, False):
                real = methods.boundary_slice(df, lo, hi, rb)
                mine = a_boundary_slice(rows, lo, hi, rb)
                n += 1
                if tuple(real.x.tolist()) != tuple(r[1] for r in mine):
                    bad.append(("boundary_slice", lo, hi, rb))
    for nrows in (0, 1, 5, 8, 9):
        df = pd.DataFrame({"x": range(nrows)})
        for k in (1, 2, 3, 5):
            real = split_evenly(df, k)
            mine = a_split_evenly(tuple((0, i, i, 0) for i in range(nrows)), k)
            n += 1
            if {i: tuple(real[i].x.tolist()) for i in real} != {i: tuple(r[1] for r in v) for i, v in mine.items()}:
                bad.append(("split_evenly", nrows, k))
    a = pd.DataFrame({"x": [1, 2]})
    b = pd.DataFrame({"x": [3]})
    n += 1
    if _concat([a, b]).x.tolist() != [1, 2, 3] or methods.concat([a, b]).x.tolist() != [1, 2, 3]:
        bad.append(("concat",))
    return n, bad
