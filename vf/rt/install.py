"""Run-time contracts installed on the real classes by monkeypatching (no repository edit).
Active only in processes started by ./check (DASK_EXPR_VERIF=1)."""
from __future__ import annotations

import importlib
import os
import pkgutil

from vf.rt import den as D

_loaded = False


def load_all():
    """Import every dask_expr module so that Expr.__subclasses__() is complete."""
    global _loaded
    if _loaded:
        return
    import dask_expr as dx

    for m in pkgutil.walk_packages(dx.__path__, "dask_expr."):
        if ".tests" in m.name or "diagnostics" in m.name or m.name.endswith("conftest"):
            continue
        try:
            importlib.import_module(m.name)
        except Exception:
            pass
    _loaded = True


def all_expr_classes():
    from dask_expr import _core

    load_all()
    out = set()

    def rec(c):
        for s in c.__subclasses__():
            if s not in out:
                out.add(s)
                rec(s)

    rec(_core.Expr)
    out.add(_core.Expr)
    return out


RULE_METHODS = (("_simplify_down", "down"), ("_simplify_up", "up"), ("_tune_down", "down"), ("_tune_up", "up"), ("_lower", "down"))


class RuleContract:
    """den(out) ~ den(ref) on every rewrite-rule firing (ref = self for *_down/_lower, parent for *_up)."""

    def __init__(self):
        self.fired = 0
        self.checked = 0
        self.skipped_ref_err = 0
        self.intermediate_not_evaluable = []
        self.harness_errors = []
        self.violations = []  # (rule, ref str, out str, why)
        self.by_rule = {}
        self.installed = 0
        self.enabled = True

    def install(self):
        assert os.environ.get("DASK_EXPR_VERIF") == "1", "contracts are installed only under the guard"
        from dask_expr import _core

        for cls in all_expr_classes():
            for name, kind in RULE_METHODS:
                if name in cls.__dict__:
                    self._wrap(cls, name, kind, _core)
                    self.installed += 1
        return self

    def _wrap(self, cls, name, kind, _core):
        orig = cls.__dict__[name]
        if getattr(orig, "_verif_wrapped", False):
            return
        rc = self

        def wrapper(self_, *args, **kw):
            out = orig(self_, *args, **kw)
            if not rc.enabled or D.busy() or out is None or not isinstance(out, _core.Expr):
                return out
            ref = args[0] if kind == "up" else self_
            if out._name == ref._name:
                return out
            rname = f"{cls.__name__}.{name}"
            rc.fired += 1
            rc.by_rule[rname] = rc.by_rule.get(rname, 0) + 1
            a = D.den(ref)
            if a[0] == "err":
                rc.skipped_ref_err += 1
                return out
            b = D.den(out)
            rc.checked += 1
            if b[0] == "err":
                rc.intermediate_not_evaluable.append((rname, _s(ref), _s(out), b[1]))
                return out
            try:
                r = D.equiv(a[1], b[1])
                if r is False:
                    r = D.equiv(a[1], b[1], order_free=True, index_free=True)
            except Exception as ex:
                # a failure of the comparison itself is the harness's problem, never the optimizer's: it must not
                # escape into the rule that is being observed
                rc.harness_errors.append(f"{rname}: comparison failed: {type(ex).__name__}: {str(ex)[:160]}")
                return out
            if r is False and kind == "up" and type(ref).__name__ in ("Head", "Tail", "BlockwiseHead", "BlockwiseTail"):
                # head/tail pushed below a sort may return up to n rows where the first/last partition alone
                # holds fewer (dask only warns about insufficient elements): prefix / suffix accepted
                r = D.equiv_headtail(a[1], b[1], "head" if "Head" in type(ref).__name__ else "tail", index_free=True)
            if r is False:
                rc.violations.append((rname, _s(ref), _s(out), f"values differ: ref={D.describe(a[1])} out={D.describe(b[1])}"))
            return out

        wrapper._verif_wrapped = True
        wrapper.__name__ = name
        setattr(cls, name, wrapper)


def _s(e, n=160):
    try:
        return str(e)[:n]
    except Exception:
        return type(e).__name__
